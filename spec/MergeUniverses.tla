------------------------- MODULE MergeUniverses -------------------------
(* Bounded universes of trees for the merge family.  They are not the full
   Trees(n) sets: they are placed where the policies bite (same key on both
   sides with every combination of nil / primitive / dictionary / list, lists
   of length up to 3, a mixed node at the top level, a second key for the
   union of keys) so that an exhaustive pair enumeration stays replayable.   *)
EXTENDS UcfgValues

S1 == S("1")
Sx == S("x")
Leaf == {Nil, S1, Sx}
ListsOf(E, n) == UNION {[1..l -> E] : l \in 1..n}
InnerDicts(Keys, Vs) == {N(d, <<>>) : d \in UNION {[K -> Vs] : K \in SUBSET Keys}}

\* values under the key both sides share
Vals(listElems, maxLen) ==
  Leaf \cup InnerDicts({"a", "b"}, Leaf)
       \cup {L(x) : x \in ListsOf(listElems, maxLen)}
       \cup {L(<<D1("a", S1)>>), L(<<D1("a", Sx), S1>>)}

\* top-level nodes: key "a" from vs (or absent), key "b" from a small set, a list part
TopNodes(vs, bvals, topLists) ==
  { N(d, l) : d \in UNION {[K -> vs \cup bvals] : K \in SUBSET {"a", "b"}}, l \in topLists }
Restrict(U, vs, bvals) ==
  { t \in U : /\ ("a" \in DOMAIN t.d => t.d["a"] \in vs)
              /\ ("b" \in DOMAIN t.d => t.d["b"] \in bvals) }
Tops2(vs, bvals, topLists) ==
  { N(d, l) : d \in {<<>>} \cup {("a" :> v) : v \in vs} \cup {("b" :> w) : w \in bvals}
                    \cup {("a" :> v) @@ ("b" :> w) : v \in vs, w \in bvals},
              l \in topLists }

BVals == {S1, D1("a", S1)}
U_Quick    == Tops2(Vals({S1, Nil}, 2), BVals, {<<>>, <<S1>>, <<Sx, Nil, D1("a", S1)>>})
U_Thorough == Tops2(Vals({S1, Nil, Sx}, 3), BVals \cup {Nil}, {<<>>, <<S1>>, <<Sx, Nil, D1("a", S1)>>, <<L(<<S1>>)>>})
U_Tiny     == Tops2(Leaf \cup {L(<<S1>>), D1("a", S1)}, {S1}, {<<>>, <<S1>>})

(* C16: the same list-valued name at two depths *)
Lists1 == {L(<<S1>>), L(<<Sx, S1>>)}
FInner == InnerDicts({"a", "b"}, Lists1 \cup {S1})
U_Fht  == {N(d, <<>>) : d \in UNION {[K -> Lists1 \cup FInner \cup {S1, Nil}] : K \in (SUBSET {"a", "b"}) \ {{}}}}
U_FhtQuick == {t \in U_Fht : \A key \in DOMAIN t.d : t.d[key] \notin {L(<<Sx, S1>>)} }

L1 == L(<<S1>>)
FhtVals    == {L1, S1, D1("b", L1), N(("a" :> L1) @@ ("b" :> L(<<Sx, S1>>)), <<>>), D1("a", D1("b", L1))}
U_FhtSmall == {N(d, <<>>) : d \in UNION {[K -> FhtVals] : K \in (SUBSET {"a", "b"}) \ {{}}}}

\* sources in which the value AT a per-field path is a reference to a list / dictionary of the same source
\* (zz occurs nowhere in the destinations, so the reference denotes the same sub-config before and after the merge)
RefTgts  == {L1, L(<<Sx, S1>>), D1("b", L1)}
U_FhtRef == {N(("zz" :> t) @@ (key :> Alias("zz", t)), <<>>) : t \in RefTgts, key \in {"a", "b"}}
            \cup {N(("zz" :> t) @@ ("a" :> D1("b", Alias("zz", t))), <<>>) : t \in RefTgts}
            \cup {N(("zz" :> t) @@ ("a" :> Alias("zz", t)) @@ ("b" :> L1), <<>>) : t \in RefTgts}

\* the DESTINATION holds a setting that is a reference to one of its own sub-configs (a: ${zz}); the source mentions the
\* referring setting, the referred one, both, or neither.  The referring setting is merged with what the referred one
\* holds BEFORE the merge (the settings are visited in the order of their names, and a, b sort before zz), and the
\* referred setting is NOT written to through the reference.
U_DstRefB == {N(("a" :> D1("y", S1)), <<>>), N(("a" :> D1("y", S1)) @@ ("zz" :> D1("z", Sx)), <<>>),
              N(("zz" :> D1("z", S1)) @@ ("b" :> D1("y", Sx)), <<>>), N(("a" :> L1) @@ ("zz" :> L(<<Sx>>)), <<>>),
              N(("b" :> S1), <<>>), N(("a" :> Nil) @@ ("zz" :> L(<<Sx, S1>>)), <<>>), N(("a" :> D1("b", D1("y", S1))), <<>>)}

\* destinations whose reference does NOT evaluate to a container: it refers to a primitive, or to nothing at all
U_DstRefPrim == {N(("zz" :> S1) @@ ("a" :> Alias("zz", S1)), <<>>), N(("zz" :> Sx) @@ ("b" :> Alias("zz", Sx)) @@ ("a" :> L1), <<>>),
                 N(("zz" :> S1) @@ ("a" :> D1("b", Alias("zz", S1))), <<>>)}

\* per-field paths THROUGH A LIST INDEX (the policy tree then holds nil placeholders in front of the index): lists whose
\* elements are lists / dictionaries that contain the same indices and names again
IdxVals  == {L(<<L(<<S1, Sx>>), L(<<S1>>)>>), L(<<D1("b", L1), D1("b", L(<<Sx, S1>>))>>), L(<<L(<<Sx>>), D1("b", L1)>>),
             L(<<L(<<Sx, S1>>)>>), L(<<D1("b", L(<<Sx>>)), L(<<S1, Sx>>)>>)}
U_FhtIdx == {N(("a" :> v), <<>>) : v \in IdxVals}

FP_Named == {<<NF("b")>>, <<NF("a")>>, <<NF("a"), NF("b")>>, <<NF("b"), NF("a")>>, <<NF("c")>>}
FP_None  == {}
FP_All   == FP_Named \cup {<<NF("**"), NF("b")>>, <<NF("a"), NF("**"), NF("b")>>}
==========================================================================
