------------------------------ MODULE Gen_Flags ------------------------------
(* C19: every sequence of up to MaxArgs flag arguments over a set of argument
   shapes x option sets.  One case per transition (prefix + next argument);
   the same module carries the model-level invariants.                       *)
EXTENDS UcfgFlags, Layers, Json

CONSTANTS MaxArgs, ArgSet, OptSet
cArgSet == ArgSet
cOptSet == OptSet

VARIABLES args, opts, st
vars == <<args, opts, st>>

Cs(s) == s   \* argument shapes are written as character sequences
Args12 == { <<"a","=","1">>, <<"a","=","x">>, <<"a",".","b","=","2">>, <<"a",".","0","=","1">>, <<"a","=","1",",","2">>,
            <<"a","=","[","3","]">>, <<"a","=","{","b",":","1","}">>, <<"a","=","{","b",".","c",":","1","}">>,
            <<"b">>, <<"a","=">>, <<"a","=","[">>, <<"a","=","\"","x">>, <<"a","=","n","u","l","l">>, <<"c",".","1","=","t","r","u","e">>,
            \* keys that START with an index address the top-level LIST of the configuration
            <<"0",".","a","=","1">>, <<"1","=","y">> }
ArgsQuick == Args12 \ {<<"a","=","\"","x">>, <<"a","=","n","u","l","l">>}
O(sep, pol, ab) == [sep |-> sep, pol |-> pol, autoBool |-> ab]
OptsAll == {O(FALSE, "default", TRUE), O(TRUE, "default", TRUE), O(TRUE, "append", TRUE), O(TRUE, "prepend", TRUE),
            O(TRUE, "replace", TRUE), O(TRUE, "arrreplace", TRUE), O(TRUE, "default", FALSE)}
OptsQuick == {O(FALSE, "default", TRUE), O(TRUE, "default", TRUE), O(TRUE, "append", TRUE), O(TRUE, "default", FALSE)}

Case(arg) ==
  LET ideal == ObsSt(SetArg({}, st, arg, opts))
      full(DS) == ObsSt(Fold(DS, St0, Append(args, arg), opts))
      alts  == {[devs |-> DS, out |-> full(DS)] : DS \in DevSets}
      diff  == {x \in alts : x.out # ideal}
  IN [args |-> args, arg |-> arg, opts |-> opts, exp |-> [ideal |-> ideal, alts |-> SetToSeq(diff)]]

Init == args = <<>> /\ opts \in cOptSet /\ st = St0
Next == /\ Len(args) < MaxArgs
        /\ \E arg \in cArgSet :
              /\ args' = Append(args, arg) /\ st' = SetArg({}, st, arg, opts)
              /\ PrintT(ToJson(Case(arg)))
        /\ UNCHANGED opts
View == <<args, opts>>

(* model-level statements of C19 *)
\* the state is the fold of the merges
IsFold == st = Fold({}, St0, args, opts)
\* after the first failing argument nothing changes any more
Sticky == [][st.err => st' = st]_vars
\* later occurrences override earlier ones: a scalar set last is what is read
LastWins == (args # <<>> /\ ~st.err /\ args[Len(args)] = <<"a","=","1">>) => At(st.cfg, <<NF("a")>>) = P("n", "1")
\* a key with an empty value is ignored, a bare key means true
EmptyIgnored == [][(Len(args') > Len(args) /\ args'[Len(args')] = <<"a","=">>) => st' = st]_vars
BareTrue == (args # <<>> /\ ~st.err /\ opts.autoBool /\ args[Len(args)] = <<"b">>) => At(st.cfg, <<NF("b")>>) = P("b", "true")
==========================================================================
