------------------------------ MODULE UcfgReaders ------------------------------
(* Concurrent readers of one shared config (C11).  N reader processes evaluate
   the same shared dynamic value "${x}", each call with its OWN options (its own
   resolver: x -> env[r]); a call is a sequence of atomic steps - cache lookup,
   resolve-and-store into the CALL's cache (options.parsed, opts.go:288-306) -
   interleaved arbitrarily; a finished reader may start another call with
   fresh options and a different resolver.

     SharedUnchanged     nothing is ever stored on the shared value
     ResultIsSequential  every call returns what it would return running alone

   Readers use different resolvers on purpose: with the deviation "MemoOnValue"
   (an "innocent" memo field on the shared value) TLC finds a 4-state
   counterexample in which one reader is served the other's answer - the
   reason the cache has to be per call.  The corresponding code mutant passes
   the whole existing suite; the harness detects it with the name-free deep
   hash (state changed by a read) and by re-reading under a different resolver. *)
EXTENDS Integers, FiniteSets, TLC
CONSTANTS Readers, Dev
\* one shared dynamic value "${x}"; each reader calls with its own resolver: x -> Env[r]
Envs == {"A", "B"}
VARIABLES env, pc, cache, result, memo, reads
vars == <<env, pc, cache, result, memo, reads>>

Init == /\ env \in [Readers -> Envs]
        /\ pc = [r \in Readers |-> "lookup"]
        /\ cache = [r \in Readers |-> "none"]        \* options.parsed of the running call
        /\ result = [r \in Readers |-> "none"]
        /\ memo = "none"                              \* state stored on the shared value (must stay "none")
        /\ reads = [r \in Readers |-> 0]

Lookup(r) == /\ pc[r] = "lookup"
             /\ IF "MemoOnValue" \in Dev /\ memo # "none"
                THEN /\ result' = [result EXCEPT ![r] = memo] /\ pc' = [pc EXCEPT ![r] = "done"]
                ELSE IF cache[r] # "none"
                THEN /\ result' = [result EXCEPT ![r] = cache[r]] /\ pc' = [pc EXCEPT ![r] = "done"]
                ELSE /\ pc' = [pc EXCEPT ![r] = "resolve"] /\ UNCHANGED result
             /\ UNCHANGED <<env, cache, memo, reads>>
Resolve(r) == /\ pc[r] = "resolve"
              /\ cache' = [cache EXCEPT ![r] = env[r]]            \* evaluated with this call's resolver
              /\ memo' = IF "MemoOnValue" \in Dev THEN env[r] ELSE memo
              /\ pc' = [pc EXCEPT ![r] = "lookup"]
              /\ UNCHANGED <<env, result, reads>>
\* a finished call returns; the same goroutine may start another call with fresh options
Again(r) == /\ pc[r] = "done" /\ reads[r] < 1
            /\ reads' = [reads EXCEPT ![r] = @ + 1]
            /\ \E e \in Envs : env' = [env EXCEPT ![r] = e]
            /\ pc' = [pc EXCEPT ![r] = "lookup"] /\ cache' = [cache EXCEPT ![r] = "none"]
            /\ result' = [result EXCEPT ![r] = "none"] /\ UNCHANGED memo
Next == \E r \in Readers : Lookup(r) \/ Resolve(r) \/ Again(r)
Spec == Init /\ [][Next]_vars

SharedUnchanged == memo = "none"
ResultIsSequential == \A r \in Readers : pc[r] = "done" => result[r] = env[r]
NoDev == {}
MemoDev == {"MemoOnValue"}
==========================================================================
