------------------------------ MODULE Gen_Faults ------------------------------
(* C14, direction A: (struct type, valid value) pairs x every site x every fault
   of the kind the site's receiving type admits.  F0 ranges over every field type
   (primitives of all kinds, pointers, slices, arrays, maps, nested structs,
   custom unpackers) with default, renamed and dotted tags, plain and inline;
   F1 is a second field after it (so that a fault in F1 is reported although F0
   was fine, and vice versa).                                                  *)
EXTENDS UcfgFaults, Layers, Json, SequencesExt

F0Types == FieldTypes \cup {T("int16"), T("uint8"), T("uint32"), T("float32"), T("ustr"), T("uany"), TPtr(T("ustr")), TSlice(T("ustr")),
                            TMap(T("uany")), TSlice(T("bool")), TMap(T("dur")), TPtr(T("uint8")), TSlice(TPtr(T("int8"))), TArr(Inner), TMap(TSlice(T("int64")))}
F1Types == {T("int8"), Inner}
Tags == {<<>>, <<"n">>, <<"p", "q">>}
Types == SetToSeq({TStruct(<<Fld("F0", g0, m0, t0), Fld("F1", <<>>, "", t1)>>) :
                     t0 \in F0Types, g0 \in Tags, m0 \in {"", "inline"}, t1 \in F1Types})
OkType(t) == /\ (t.f[1].mode = "inline" => t.f[1].t.k = "struct" /\ t.f[1].tag = <<>> /\ t.f[1].t \notin {Pos, PosMix})

VARIABLES ti, cs
vars == <<ti, cs>>
Case(ty, val, site, flt) ==
  LET tree == Inject(Pack(ty, val), site.p, flt.tree) IN
  [ty |-> ty, tree |-> tree, site |-> site.p, recv |-> site.t.k, fault |-> flt.kind,
   exp |-> [ideal |-> Outcome(site), alts |-> <<>>]]
Init == ti \in {i \in 1..Len(Types) : OkType(Types[i])} /\ cs = <<>>
Next == /\ cs = <<>> /\ UNCHANGED ti
        /\ \E val \in Vals(Types[ti]) : \E site \in Sites(Types[ti], val, <<>>) : \E flt \in FaultsFor(site.t, 0) :
              cs' = <<val, site, flt>> /\ PrintT(ToJson(Case(Types[ti], val, site, flt)))
View == <<ti, cs = <<>> >>

\* model level: every site is a setting of the packed configuration, and injecting changes exactly it
SitesExist == cs # <<>> => HasPath(Pack(Types[ti], cs[1]), cs[2].p)

\* every fault kind and every receiving kind occurs (vacuity guard, checked by the harness counts as well)
==========================================================================
