---------------------------- MODULE Trace_Parse ----------------------------
(* Direction B for C17: random JSON documents (nesting <= 4, strings with
   quotes, backslashes, newlines, tabs, non-ASCII and non-BMP characters and all
   of the parser's special characters, integers, floats, uint64 beyond int64)
   written by encoding/json compact or indented, handed to the real
   parse.Value; TLC runs the specification's parser on the same characters and
   must obtain the recorded result.  Error texts are not compared.            *)
EXTENDS UcfgParseValue, Layers, Json

Tr  == ndJsonDeserialize("trace_parse.ndjson")
NEv == Len(Tr)
VARIABLES l, known, bad, nviol
vars == <<l, known, bad, nviol>>
Norm(r) == IF IsErr(r) THEN [err |-> IF r.err = "panic" THEN "panic" ELSE "error"] ELSE r
Out(D, ev) == Norm(Parse(D, DefaultCfg, ev.in))
Init == l = 1 /\ known = [d \in Known |-> 0] /\ bad = <<>> /\ nviol = 0
Next ==
  /\ l <= NEv /\ l' = l + 1
  /\ LET ev == Tr[l] IN
     IF SameOut(ev.out, Out({}, ev)) THEN UNCHANGED <<known, bad, nviol>>
     ELSE LET ms == {DS \in DevSets : SameOut(ev.out, Out(DS, ev))} IN
          IF ms # {}
          THEN /\ known' = [d \in Known |-> known[d] + (IF \A DS \in ms : d \in DS THEN 1 ELSE 0)]
               /\ UNCHANGED <<bad, nviol>>
          ELSE /\ nviol' = nviol + 1
               /\ bad' = IF Len(bad) < 5 THEN Append(bad, [l |-> l, want |-> Out({}, ev)]) ELSE bad
               /\ UNCHANGED known
Spec == Init /\ [][Next]_vars
Report == l = NEv + 1 =>
  PrintT(<<"REPORT", ToJson([n |-> NEv, nviol |-> nviol, known |-> known, bad |-> bad])>>)
Accepted == TLCGet("stats").diameter = NEv + 1
==========================================================================
