-------------------------- MODULE UcfgNormalize --------------------------
(* Normalisation of Go values into the canonical Config tree (C05, C09, C18):
   merge.go:257-530 (normalize, normalizeMapInto, normalizeStructInto,
   normalizeSetField, normalizeArray, normalizeValue) on abstract trees.

   Go values
     [g |-> "nil"]                        nil pointer / map / interface
     [g |-> "p", ty, v]                   primitive (string, number, bool)
     [g |-> "l", xs |-> Seq(GoVal)]       slice or array
     [g |-> "m", es |-> Seq(<<key, GoVal>>)]
          map or struct; es is the order in which the entries are VISITED
          (struct: field order; map: whatever order the runtime enumerates).
          A key is a sequence of classified segments [s |-> text, i |-> n]
          (i >= 0: list index), one segment when there is no path separator.
     [g |-> "cfg", t |-> tree]            an existing *Config (embedded copy)

   Two definitions are given.
     Seq*   (code-shaped) sequential insertion in visiting order
            (normalizeSetField: keep / set / merge / duplicate)
     Ideal* (order-free)  union of the singleton paths; nil defines nothing;
            two definitions of one setting, or leaf vs. subtree, is a duplicate
   MC_Normalize proves them equal on every conflict-free input (all orders),
   which is what makes the order-free definition the oracle of C05/C09.

   Deviation
     "DupDependsOnOrder"  the outcome of a conflicting input (the same setting
        defined twice through overlapping dotted keys, or an explicit nil
        meeting a value below a shared subtree) depends on visiting order:
        duplicate error, silently merged, or nil wins.  The visiting order is
        a function of the input - the field order of a struct, the order of the
        key strings of a map (since the repair of KF-50; before it the runtime's
        map order) - so the outcome is deterministic (C09) but not always the
        duplicate error C05 demands.                                          *)
EXTENDS UcfgMerge

GNil         == [g |-> "nil"]
GPrim(ty, v) == [g |-> "p", ty |-> ty, v |-> v]
GList(xs)    == [g |-> "l", xs |-> xs]
GMap(es)     == [g |-> "m", es |-> es]
GCfg(t)      == [g |-> "cfg", t |-> t]

Err(e, p) == [err |-> e, path |-> p]
Ok(v)     == [ok |-> v]
IsErr(r)  == "err" \in DOMAIN r

SegFld(sg)  == IF sg.i >= 0 THEN IX(sg.i) ELSE NF(sg.s)
Fields(key) == [j \in 1..Len(key) |-> SegFld(key[j])]
RECURSIVE JoinSegs(_)
JoinSegs(key) == IF key = <<>> THEN "" ELSE IF Len(key) = 1 THEN key[1].s ELSE key[1].s \o "." \o JoinSegs(Tail(key))

(* ---- tree-level field access (same rules as UcfgStore, on trees) ------------- *)
TFieldGet(f, elem) ==
  IF f.t = "n" THEN
     IF elem.k = "n" THEN (IF f.n \in DOMAIN elem.d THEN Ok(elem.d[f.n]) ELSE Ok(None))
     ELSE IF elem.k = "nil" THEN Ok(None)
     ELSE Err("object", "")
  ELSE
     IF elem.k = "n" THEN (IF f.i >= Len(elem.a) THEN Err("missing", "") ELSE Ok(elem.a[f.i+1]))
     ELSE IF elem.k = "nil" THEN Err("missing", "")
     ELSE IF f.i = 0 THEN Ok(elem) ELSE Err("object", "")

RECURSIVE TGetWalk(_,_)
TGetWalk(fs, cur) ==
  IF Len(fs) <= 1 THEN Ok(cur)
  ELSE LET r == TFieldGet(fs[1], cur) IN
       IF IsErr(r) THEN r ELSE IF r.ok = None THEN Err("missing", "") ELSE TGetWalk(Tail(fs), r.ok)
TGetValue(root, fs) ==
  LET w == TGetWalk(fs, root) IN
  IF IsErr(w) THEN w
  ELSE LET r == TFieldGet(fs[Len(fs)], w.ok) IN IF IsErr(r) THEN Err("missing", "") ELSE r

TPad(a, n) == [i \in 1..n |-> IF i <= Len(a) THEN a[i] ELSE Nil]
TSetAtL(a, i, v) == LET b == IF i + 1 > Len(a) THEN TPad(a, i+1) ELSE a IN [b EXCEPT ![i+1] = v]
TInsert(cur, f, v) ==
  IF cur.k # "n" THEN Err("object", "")
  ELSE IF f.t = "n" THEN Ok(N([key \in DOMAIN cur.d \cup {f.n} |-> IF key = f.n THEN v ELSE cur.d[key]], cur.a))
  ELSE Ok(N(cur.d, TSetAtL(cur.a, f.i, v)))
RECURSIVE Single(_,_)
Single(fs, v) == IF fs = <<>> THEN v ELSE (TInsert(Empty, fs[1], Single(Tail(fs), v))).ok

\* cfgPath.SetValue on a tree
RECURSIVE TSetAt(_,_,_)
TSetAt(cur, fs, v) ==
  IF Len(fs) = 1 THEN TInsert(cur, fs[1], v)
  ELSE LET r == TFieldGet(fs[1], cur) IN
       IF IsErr(r) THEN (IF r.err = "missing" THEN TInsert(cur, fs[1], Single(Tail(fs), v)) ELSE r)
       ELSE IF r.ok = None \/ r.ok.k = "nil" THEN TInsert(cur, fs[1], Single(Tail(fs), v))
       ELSE LET sub == TSetAt(r.ok, Tail(fs), v) IN
            IF IsErr(sub) THEN sub
            ELSE IF cur.k # "n" THEN Ok(sub.ok)      \* index 0 on a primitive is the primitive
            ELSE TInsert(cur, fs[1], sub.ok)
\* replace the value that exists at fs
RECURSIVE TUpdateAt(_,_,_)
TUpdateAt(cur, fs, nv) ==
  IF Len(fs) = 1 THEN TInsert(cur, fs[1], nv)
  ELSE LET r   == TFieldGet(fs[1], cur)
           sub == TUpdateAt(r.ok, Tail(fs), nv) IN
       IF IsErr(sub) THEN sub ELSE TInsert(cur, fs[1], sub.ok)

(* ---- code-shaped: sequential insertion ---------------------------------------- *)
IsNilT(v) == v = None \/ v.k = "nil"
IsSubT(v) == v # None /\ v.k = "n"

RECURSIVE SeqVal(_,_), SeqEntries(_,_,_)
SeqVal(opts, gv) ==
  CASE gv.g = "nil" -> Ok(Nil)
    [] gv.g = "p"   -> Ok(P(gv.ty, gv.v))
    [] gv.g = "cfg" -> Ok(gv.t)
    [] gv.g = "l"   -> LET rs  == [i \in 1..Len(gv.xs) |-> SeqVal(opts, gv.xs[i])]
                           bad == {i \in 1..Len(rs) : IsErr(rs[i])} IN
                       IF bad # {} THEN rs[CHOOSE i \in bad : \A j \in bad : i <= j]
                       ELSE Ok(N(<<>>, [i \in 1..Len(rs) |-> rs[i].ok]))
    [] gv.g = "m"   -> SeqEntries(opts, gv.es, Empty)

SeqEntries(opts, es, acc) ==
  IF es = <<>> THEN Ok(acc)
  ELSE LET key == es[1][1]
           fs  == Fields(key)
           nv  == SeqVal(opts, es[1][2]) IN
       IF IsErr(nv) THEN nv
       ELSE LET g == TGetValue(acc, fs) IN
            IF IsErr(g) /\ g.err # "missing" THEN Err(g.err, JoinSegs(key))
            ELSE LET old == IF IsErr(g) THEN None ELSE g.ok
                     val == nv.ok IN
                 IF ~IsNilT(old) /\ IsNilT(val) THEN SeqEntries(opts, Tail(es), acc)
                 ELSE IF IsNilT(old) THEN
                        (LET s == TSetAt(acc, fs, val) IN
                         IF IsErr(s) THEN Err(s.err, JoinSegs(key)) ELSE SeqEntries(opts, Tail(es), s.ok))
                 ELSE IF IsSubT(old) /\ IsSubT(val) THEN
                        (LET u == TUpdateAt(acc, fs, MergeCfg({}, opts, old, val)) IN
                         IF IsErr(u) THEN Err(u.err, JoinSegs(key)) ELSE SeqEntries(opts, Tail(es), u.ok))
                 ELSE Err("duplicate", JoinSegs(key))

(* ---- order-free (Ideal) ---------------------------------------------------------- *)
DUP == [dup |-> TRUE]
IsDup(x) == "dup" \in DOMAIN x

RECURSIVE Union(_,_)
Union(t1, t2) ==
  IF IsDup(t1) \/ IsDup(t2) THEN DUP
  ELSE IF t1 = None \/ t1.k = "nil" THEN (IF t2 = None THEN t1 ELSE t2)
  ELSE IF t2 = None \/ t2.k = "nil" THEN t1
  ELSE IF t1.k = "p" \/ t2.k = "p" THEN DUP
  ELSE LET keys == DOMAIN t1.d \cup DOMAIN t2.d
           dd   == [key \in keys |-> Union(IF key \in DOMAIN t1.d THEN t1.d[key] ELSE None,
                                           IF key \in DOMAIN t2.d THEN t2.d[key] ELSE None)]
           n    == Max(Len(t1.a), Len(t2.a))
           aa   == [i \in 1..n |-> Union(IF i <= Len(t1.a) THEN t1.a[i] ELSE None,
                                         IF i <= Len(t2.a) THEN t2.a[i] ELSE None)]
       IN IF (\E key \in keys : IsDup(dd[key])) \/ (\E i \in 1..n : IsDup(aa[i])) THEN DUP
          ELSE N(dd, [i \in 1..n |-> IF aa[i] = None THEN Nil ELSE aa[i]])

RECURSIVE IdealVal(_), IdealEntries(_,_)
IdealVal(gv) ==
  CASE gv.g = "nil" -> Nil
    [] gv.g = "p"   -> P(gv.ty, gv.v)
    [] gv.g = "cfg" -> gv.t
    [] gv.g = "l"   -> LET xs == [i \in 1..Len(gv.xs) |-> IdealVal(gv.xs[i])] IN
                       IF \E i \in 1..Len(xs) : IsDup(xs[i]) THEN DUP ELSE N(<<>>, xs)
    [] gv.g = "m"   -> IdealEntries(gv.es, Empty)
IdealEntries(es, acc) ==
  IF es = <<>> THEN acc
  ELSE LET v == IdealVal(es[1][2]) IN
       IF IsDup(v) THEN DUP
       ELSE IdealEntries(Tail(es), Union(acc, Single(Fields(es[1][1]), v)))

(* does the input contain a conflict the property leaves to the "duplicate" rule or to nil?
   (an explicit nil meeting a value below a subtree both entries define)          *)
RECURSIVE NilMeet(_,_)
NilMeet(t1, t2) ==
  IF t1 = None \/ t2 = None \/ IsDup(t1) \/ IsDup(t2) THEN FALSE
  ELSE IF t1.k = "nil" \/ t2.k = "nil" THEN ~(t1.k = "nil" /\ t2.k = "nil")
  ELSE IF t1.k = "p" \/ t2.k = "p" THEN FALSE
  ELSE (\E key \in DOMAIN t1.d \cap DOMAIN t2.d : NilMeet(t1.d[key], t2.d[key]))
       \/ (\E i \in 1..Min(Len(t1.a), Len(t2.a)) : NilMeet(t1.a[i], t2.a[i]))
RECURSIVE AnyNilMeet(_,_)
AnyNilMeet(es, acc) ==
  IF es = <<>> \/ IsDup(acc) THEN FALSE
  ELSE LET v  == IdealVal(es[1][2])
           s1 == Single(Fields(es[1][1]), v) IN
       IF IsDup(v) THEN FALSE
       ELSE (acc.k = "n" /\ s1.k = "n" /\
              ((\E key \in DOMAIN acc.d \cap DOMAIN s1.d : IsSubT(acc.d[key]) /\ IsSubT(s1.d[key]) /\ NilMeet(acc.d[key], s1.d[key]))
               \/ (\E i \in 1..Min(Len(acc.a), Len(s1.a)) : IsSubT(acc.a[i]) /\ IsSubT(s1.a[i]) /\ NilMeet(acc.a[i], s1.a[i]))))
            \/ AnyNilMeet(Tail(es), Union(acc, s1))

(* ---- outcomes ---------------------------------------------------------------------
   ok: the pair observation of the tree; err: class only ("duplicate", "object")    *)
OutOfSeq(r)   == IF IsErr(r) THEN [err |-> r.err] ELSE [ok |-> ObsTop(AsCfg(r.ok))]
OutOfIdeal(t) == IF IsDup(t) THEN [err |-> "duplicate"] ELSE [ok |-> ObsTop(AsCfg(t))]

\* top-level input must be a map/struct, list or config (A.7); es is the visiting order
NormSeq(opts, gv)  == OutOfSeq(SeqVal(opts, gv))
NormIdeal(gv)      == OutOfIdeal(IdealVal(gv))
Conflict(gv)       == gv.g = "m" /\ (IsDup(IdealVal(gv)) \/ AnyNilMeet(gv.es, Empty))
\* under a non-default policy two entries that meet in one sub-config are combined BY THAT POLICY
\* (lists appended, dictionaries replaced), which again depends on the visiting order
SharesSub(t1, t2) ==
  /\ t1.k = "n" /\ t2.k = "n"
  /\ \/ \E key \in DOMAIN t1.d \cap DOMAIN t2.d : IsSubT(t1.d[key]) /\ IsSubT(t2.d[key])
     \/ \E i \in 1..Min(Len(t1.a), Len(t2.a)) : IsSubT(t1.a[i]) /\ IsSubT(t2.a[i])
AnyShares(es) ==
  \E i, j \in 1..Len(es) : i < j /\ ~IsDup(IdealVal(es[i][2])) /\ ~IsDup(IdealVal(es[j][2])) /\
       SharesSub(Single(Fields(es[i][1]), IdealVal(es[i][2])), Single(Fields(es[j][1]), IdealVal(es[j][2])))
ConflictP(pol, gv) == Conflict(gv) \/ (pol # "default" /\ gv.g = "m" /\ AnyShares(gv.es))

\* Normalize under a deviation set, for a given visiting order
Normalize(D, opts, gv) == IF "DupDependsOnOrder" \in D THEN NormSeq(opts, gv) ELSE NormIdeal(gv)

\* all visiting orders of the top-level entries
PermsOf(es) == {[i \in 1..Len(es) |-> es[p[i]]] : p \in Permutations(1..Len(es))}
OutcomesOverOrders(opts, gv) == IF gv.g # "m" THEN {NormSeq(opts, gv)} ELSE {NormSeq(opts, GMap(pe)) : pe \in PermsOf(gv.es)}
\* the same, each outcome with the visiting order that produces it (perm[i] = position in gv.es of the entry visited i-th).
\* A struct is visited in field order and a map in the order of its key strings (TLC cannot compare strings: the replay
\* picks the permutation that sorts the keys as they are spelled with the separator in use).
OrdersOf(opts, gv) ==
  IF gv.g # "m" THEN {}
  ELSE {[perm |-> [i \in 1..Len(gv.es) |-> p[i]], out |-> NormSeq(opts, GMap([i \in 1..Len(gv.es) |-> gv.es[p[i]]]))] : p \in Permutations(1..Len(gv.es))}
==========================================================================
