--------------------------- MODULE Trace_Merge ---------------------------
(* Direction B for the merge family: every event recorded by
   `ucfgconf drive merge` (one real Merge call: operands, policy, per-field
   options, observed result) must be a step the specification allows.

   Deterministic and non-stopping: an event is explained by the Ideal layer,
   else by a set of listed deviations (counted per deviation), else it is a
   violation that is recorded while validation continues with the next event. *)
EXTENDS UcfgMerge, Layers, Json, SequencesExt

Tr == ndJsonDeserialize("trace_merge.ndjson")
NEv == Len(Tr)

VARIABLES l, known, bad, nviol
vars == <<l, known, bad, nviol>>

Expected(DS, ev) == ObsTop(Merge(DS, ev.pol, ev.fos, ev.a, ev.b))
Explains(DS, ev) == ev.out = Expected(DS, ev)
Blame(ms) == LET common == {d \in Known : \A DS \in ms : d \in DS} IN
             IF common # {} THEN common ELSE UNION ms

Init == l = 1 /\ known = [d \in Known |-> 0] /\ bad = <<>> /\ nviol = 0
Next ==
  /\ l <= NEv /\ l' = l + 1
  /\ LET ev == Tr[l] IN
     IF Explains({}, ev) THEN UNCHANGED <<known, bad, nviol>>
     ELSE LET ms == {DS \in DevSets : Explains(DS, ev)} IN
          IF ms # {}
          THEN /\ known' = [d \in Known |-> known[d] + (IF d \in Blame(ms) THEN 1 ELSE 0)]
               /\ UNCHANGED <<bad, nviol>>
          ELSE /\ nviol' = nviol + 1
               /\ bad' = IF Len(bad) < 5 THEN Append(bad, [l |-> l, want |-> Expected({}, ev)]) ELSE bad
               /\ UNCHANGED known
Spec == Init /\ [][Next]_vars

Report == l = NEv + 1 =>
  PrintT(<<"REPORT", ToJson([n |-> NEv, nviol |-> nviol, known |-> known, bad |-> bad])>>)
Accepted == TLCGet("stats").diameter = NEv + 1
==========================================================================
