---------------------------- MODULE Trace_VarExp ----------------------------
(* Direction B for C02 / C08: `ucfgconf drive varexp` builds RANDOM worlds - expressions of depth <= 3 over every
   operator for the settings a, b, c and n.k, random Env configurations (whose settings may be references
   themselves) and random resolvers of every kind - reads every setting through String(), a typed Unpack, Has and
   one Unpack of the whole configuration on the real code, and records what came back.  Every recorded read must be
   the one UcfgVarExp's evaluator gives for that world.

   A typed result is recorded as the set of its leaves <<dotted path, text>> (nil and empty containers define no
   leaf); an error by its class; the whole Unpack of a world with several failing settings may report any one of them.
   Worlds in which ${x:+y} could test a name that is under evaluation (section 0.7, limits) are not generated.  *)
EXTENDS UcfgVarExp, Layers, Json, SequencesExt

Tr  == ndJsonDeserialize("trace_varexp.ndjson")
NEv == Len(Tr)
VARIABLES l, known, bad, nviol
vars == <<l, known, bad, nviol>>

RECURSIVE LeavesOf(_,_)
LeavesOf(t, p) ==
  IF t.k = "nil" THEN {}
  ELSE IF t.k = "p" THEN {<<p, t.v>>}
  ELSE UNION ({LeavesOf(t.d[key], IF p = "" THEN key ELSE p \o "." \o key) : key \in DOMAIN t.d}
              \cup {LeavesOf(t.a[i], (IF p = "" THEN "" ELSE p \o ".") \o ToString(i - 1)) : i \in 1..Len(t.a)})
ErrsOf(r) == IF "errs" \in DOMAIN r THEN r.errs ELSE {r.err}
TextOK(g, r)  == IF IsE(r) THEN ("err" \in DOMAIN g /\ g.err = r.err) ELSE ("ok" \in DOMAIN g /\ g.ok = r.ok)
HasOK(g, r)   == IF IsE(r) THEN "err" \in DOMAIN g ELSE ("ok" \in DOMAIN g /\ g.ok = r.ok)
TypedOK(g, r) == IF "skip" \in DOMAIN g THEN TRUE      \* (the whole Unpack of a cyclic world with operators: see the driver)
                 ELSE IF IsE(r) THEN ("err" \in DOMAIN g /\ g.err \in ErrsOf(r))
                 ELSE ("leaves" \in DOMAIN g /\ ToSet(g.leaves) = LeavesOf(r.ok, ""))

ReadOK(D, W, rd) == /\ TextOK(rd.str, GetString(D, W, rd.name))
                    /\ TypedOK(rd.typed, GetTyped(D, W, rd.name))
                    /\ HasOK(rd.has, Has(D, W, rd.name))
Match(D, ev) == /\ \A i \in 1..Len(ev.reads) : ReadOK(D, ev.w, ev.reads[i])
                /\ TypedOK(ev.unpack, UnpackAll(D, ev.w))
\* what the specification says, for the report of a rejected event
Want(ev) == [reads |-> [i \in 1..Len(ev.reads) |->
                 LET n == ev.reads[i].name
                     s == GetString({}, ev.w, n)
                     t == GetTyped({}, ev.w, n) IN
                 [name |-> n, str |-> IF IsE(s) THEN [err |-> s.err] ELSE [ok |-> s.ok],
                  typed |-> IF IsE(t) THEN [err |-> ErrsOf(t)] ELSE [leaves |-> LeavesOf(t.ok, "")]]]]

Init == l = 1 /\ known = [d \in Known |-> 0] /\ bad = <<>> /\ nviol = 0
Next ==
  /\ l <= NEv /\ l' = l + 1
  /\ LET ev == Tr[l] IN
     IF Match({}, ev) THEN UNCHANGED <<known, bad, nviol>>
     ELSE LET ms == {DS \in DevSets : Match(DS, ev)} IN
          IF ms # {}
          THEN /\ known' = [d \in Known |-> known[d] + (IF \A DS \in ms : d \in DS THEN 1 ELSE 0)]
               /\ UNCHANGED <<bad, nviol>>
          ELSE /\ nviol' = nviol + 1
               /\ bad' = IF Len(bad) < 3 THEN Append(bad, [l |-> l, want |-> Want(ev)]) ELSE bad
               /\ UNCHANGED known
Spec == Init /\ [][Next]_vars
Report == l = NEv + 1 =>
  PrintT(<<"REPORT", ToJson([n |-> NEv, nviol |-> nviol, known |-> known, bad |-> bad])>>)
Accepted == TLCGet("stats").diameter = NEv + 1
TabTrace == ("n.k" :> <<NF("n"), NF("k")>>) @@ ("q.k" :> <<NF("q"), NF("k")>>) @@ ("a.k" :> <<NF("a"), NF("k")>>)
            @@ ("l.0" :> <<NF("l"), IX(0)>>) @@ ("l.1.x" :> <<NF("l"), IX(1), NF("x")>>)
==========================================================================
