------------------------- MODULE Trace_Normalize -------------------------
(* Direction B for normalisation: every NewFrom call recorded by
   `ucfgconf drive norm` (random trees, random partial flattening into dotted
   keys, random Go representation, occasional conflicting entry) must return
   the order-free result of UcfgNormalize - or, when the input conflicts and
   the listed deviation is open, the result of visiting the entries in the
   recorded order (field order of a struct; the entries of a map are recorded
   in the order of their key strings, which is the order a map is visited in). *)
EXTENDS UcfgNormalize, Layers, Json, SequencesExt

Tr  == ndJsonDeserialize("trace_norm.ndjson")
NEv == Len(Tr)
VARIABLES l, known, bad, nviol
vars == <<l, known, bad, nviol>>

Init == l = 1 /\ known = [d \in Known |-> 0] /\ bad = <<>> /\ nviol = 0
Next ==
  /\ l <= NEv /\ l' = l + 1
  /\ LET ev    == Tr[l]
         opts  == NoOpts(ev.pol)
         ideal == NormIdeal(ev.gv)
     IN IF ev.out = ideal THEN UNCHANGED <<known, bad, nviol>>
        ELSE IF "DupDependsOnOrder" \in Known /\
                (IF ev.exact_order THEN ev.out = NormSeq(opts, ev.gv) ELSE ev.out \in OutcomesOverOrders(opts, ev.gv))
        THEN /\ known' = [d \in Known |-> known[d] + (IF d = "DupDependsOnOrder" THEN 1 ELSE 0)]
             /\ UNCHANGED <<bad, nviol>>
        ELSE /\ nviol' = nviol + 1
             /\ bad' = IF Len(bad) < 5 THEN Append(bad, [l |-> l, want |-> ideal]) ELSE bad
             /\ UNCHANGED known
Spec == Init /\ [][Next]_vars
Report == l = NEv + 1 =>
  PrintT(<<"REPORT", ToJson([n |-> NEv, nviol |-> nviol, known |-> known, bad |-> bad])>>)
Accepted == TLCGet("stats").diameter = NEv + 1
==========================================================================
