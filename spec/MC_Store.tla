----------------------------- MODULE MC_Store -----------------------------
(* Model-level check of the store machine (C12, C15, C10): every state and
   every transition reachable within the bounds satisfies the declarative
   statements below on the Ideal layer (Dev = {}); with a deviation switched on
   TLC must find a counterexample (the orchestrator runs both).             *)
EXTENDS StoreUniverses

CONSTANTS Dev, MaxOps, MaxHandles,
          Names, Idxs, SetVals, Frags, MergePols, SetChildNames, SweepAddrs, Roots2,
          WithEmbed, WithParent, TreeOnly

VARIABLES st, nops, last
vars == <<st, nops, last>>
\* cached aliases: a constant bound with `<-` in the .cfg is re-evaluated on every use, a definition is not
cNames == Names
cIdxs == Idxs
cSetVals == SetVals
cFrags == Frags
cMergePols == MergePols
cSetChildNames == SetChildNames
cSweepAddrs == SweepAddrs
cRoots2 == Roots2

H  == st.H
hs == st.hs
NH == Len(hs)

Init == /\ st = [H |-> (1 :> EmptyNode) @@ (2 :> cRoots2), hs |-> <<1, 2>>]
        /\ nops = 0 /\ last = [op |-> [op |-> "init"], res |-> "ok"]

SetOps    == {[op |-> "set", h |-> h, name |-> nm.name, sep |-> nm.sep, idx |-> idx, ty |-> v.ty, v |-> v.v] :
                 h \in 1..NH, nm \in cNames, idx \in cIdxs, v \in cSetVals}
RemoveOps == {[op |-> "remove", h |-> h, name |-> nm.name, sep |-> nm.sep, idx |-> idx] : h \in 1..NH, nm \in cNames, idx \in cIdxs}
ChildOps  == {[op |-> "child", h |-> h, name |-> nm.name, sep |-> nm.sep, idx |-> idx] : h \in 1..NH, nm \in cNames, idx \in cIdxs}
ParentOps == IF WithParent THEN {[op |-> "parent", h |-> h] : h \in 1..NH} ELSE {}
MergeOps  == {[op |-> "merge", h |-> h, fr |-> fr, pol |-> pol] :
                 h \in 1..NH, fr \in cFrags \cup (IF WithEmbed THEN EmbedFragsOf(NH) ELSE {}), pol \in cMergePols}
SetChildOps == {[op |-> "setchild", h |-> 1, name |-> nm.name, sep |-> nm.sep, idx |-> -1, j |-> j] : nm \in cSetChildNames, j \in 2..NH}

Do(op) == LET r == Apply(Dev, st, op) IN
          /\ Cardinality(DOMAIN r.st.H) <= MaxNodes /\ Len(r.st.hs) <= MaxHandles
          /\ r.res # "panic"
          /\ st' = r.st /\ last' = [op |-> op, res |-> r.res]
\* new handles only for existing sub-configs not yet held (Child on a nil entry returns a fresh,
\* unattached empty config by design; that case is left to the conformance runs)
FreshHandle(op) == LET r == Apply(Dev, st, op) IN
                   r.res = "ok" /\ r.st.hs[Len(r.st.hs)] \notin {hs[i] : i \in 1..NH} /\ r.st.hs[Len(r.st.hs)] \in DOMAIN H
InBounds(op) == LET fs == PathOf(op.name, op.idx) IN
                /\ (SetMaxIdx(fs) < MaxArr \/ SetMaxIdx(fs) > DefaultMaxIdx)      \* (beyond MaxIdx: an error, nothing grows)
                /\ Cardinality(DOMAIN H) + SetGrowth(Dev, H, hs[op.h], fs) <= MaxNodes
\* TreeOnly: a config is attached at one place at most (re-attach allowed, aliasing not)
IsRootNode(id) == H[id].par = NoId /\ \A p \in DOMAIN H : ~Stores(H, p, H[id].fld, id)
Next ==
  /\ nops < MaxOps /\ nops' = nops + 1
  /\ \/ \E op \in SetOps : InBounds(op) /\ Do(op)
     \/ \E op \in RemoveOps : Do(op)
     \/ \E op \in ChildOps \cup ParentOps : NH < MaxHandles /\ FreshHandle(op) /\ Do(op)
     \/ \E op \in MergeOps : Embeds(op.fr) # op.h /\ Disjoint(st, op.h, Embeds(op.fr)) /\ Do(op)
     \/ \E op \in SetChildOps : InBounds(op) /\ Disjoint(st, op.h, op.j)
                                /\ (TreeOnly => \A x \in DOMAIN H : x # hs[op.j] => \A key \in DOMAIN H[x].d : H[x].d[key] # Sub(hs[op.j]))
                                /\ (TreeOnly => \A x \in DOMAIN H : \A i \in 1..Len(H[x].a) : H[x].a[i] # Sub(hs[op.j]))
                                /\ Do(op)
Spec == Init /\ [][Next]_vars

(* ======================= C15 ================================================ *)
Held == {hs[i] : i \in 1..NH}
\* Path()/Parent() of every node reachable from a held handle describe where it really is
CtxOK == ChildrenKnowParent(H, hs)
\* ... and every parent link of a reachable or held node is true
LinksTrue == \A id \in Reachable(H, Held) : H[id].par # NoId => Stores(H, H[id].par, H[id].fld, id)

\* root-relative paths of the non-nil primitive settings below node id, from the structure alone
RECURSIVE LeafPaths(_,_,_)
LeafPaths(id, prefix, n) ==
  IF n = 0 THEN {} ELSE
  LET ents == IF DOMAIN H[id].d # {} THEN {<<key, H[id].d[key]>> : key \in DOMAIN H[id].d}
              ELSE {<<ToString(i-1), H[id].a[i]>> : i \in 1..Len(H[id].a)}
  IN UNION { IF e[2].k = "sub" THEN LeafPaths(e[2].id, Append(prefix, e[1]), n-1)
             ELSE IF e[2].k = "nil" THEN {} ELSE {JoinDot(Append(prefix, e[1]))} : e \in ents }
\* the real position of a node: the access path from its root
RECURSIVE RealPath(_,_)
RealPath(id, n) ==
  IF n = 0 THEN <<>> ELSE
  LET ps == {p \in DOMAIN H : \E key \in DOMAIN H[p].d : H[p].d[key] = Sub(id)}
      pa == {p \in DOMAIN H : \E i \in 1..Len(H[p].a) : H[p].a[i] = Sub(id)}
  IN IF ps # {} THEN LET p == CHOOSE x \in ps : TRUE
                         key == CHOOSE x \in DOMAIN H[p].d : H[p].d[x] = Sub(id)
                     IN Append(RealPath(p, n-1), key)
     ELSE IF pa # {} THEN LET p == CHOOSE x \in pa : TRUE
                              i == CHOOSE x \in 1..Len(H[p].a) : H[p].a[x] = Sub(id)
                          IN Append(RealPath(p, n-1), ToString(i-1))
     ELSE <<>>
NoMixed == \A id \in Reachable(H, Held) : DOMAIN H[id].d = {} \/ H[id].a = <<>>
FlatExact ==
  NoMixed => \A id \in Held :
     (IsRootNode(id) \/ Stores(H, H[id].par, H[id].fld, id)) =>
        FlattenedKeys(Dev, H, id) = LeafPaths(id, RealPath(id, Cardinality(DOMAIN H)), Cardinality(DOMAIN H))
CompareOK ==
  NH >= 2 => LET c == Compare(Dev, H, hs[1], hs[2]) o == FlattenedKeys(Dev, H, hs[1]) n == FlattenedKeys(Dev, H, hs[2]) IN
     /\ c.kept \cup c.removed = o /\ c.kept \cup c.added = n
     /\ c.kept \cap c.removed = {} /\ c.kept \cap c.added = {} /\ c.added \cap c.removed = {}
     /\ LET s == Compare(Dev, H, hs[1], hs[1]) IN s.added = {} /\ s.removed = {}

(* ======================= C12 ================================================ *)
Addr(x) == PathOf(cSweepAddrs[x].name, cSweepAddrs[x].idx)
LastPath == PathOf(last.op.name, last.op.idx)
\* a value written at an address is read back unchanged from that address
ReadYourWrite ==
  (last.op.op = "set" /\ last.res = "ok") =>
     /\ GetString(Dev, H, hs[last.op.h], LastPath) = Ok(last.op.v)
     /\ Has(Dev, H, hs[last.op.h], LastPath) = Ok(TRUE)
\* Has agrees with the getters
HasIffGet ==
  \A i \in 1..NH, x \in DOMAIN cSweepAddrs :
     LET h == Has(Dev, H, hs[i], Addr(x)) g == GetField(Dev, H, hs[i], Addr(x)) IN
     (~IsErr(h) /\ h.ok) <=> ~IsErr(g)
\* a removed setting is gone
RemoveRemoves ==
  (last.op.op = "remove" /\ last.res = "true" /\ LastPath[Len(LastPath)].t = "n") =>
     Has(Dev, H, hs[last.op.h], LastPath) = Ok(FALSE)

\* frame conditions as action properties: an unrelated address reads the same before and after
Prefix(p, q) == Len(p) <= Len(q) /\ SubSeq(q, 1, Len(p)) = p
Related(p, q) == Prefix(p, q) \/ Prefix(q, p)
ReadAt(HH, id, fs) == GetString(Dev, HH, id, fs)
SameListPrefix(p, q) ==   \* q addresses a later element of the list p removes from
  Len(p) >= 1 /\ Len(q) >= Len(p) /\ SubSeq(q, 1, Len(p)-1) = SubSeq(p, 1, Len(p)-1) /\ p[Len(p)].t = "i" /\ q[Len(p)].t = "i"
Frame ==
  LET op == last'.op IN
  (op.op \in {"set", "remove"} /\ TreeOnly) =>
     \A x \in DOMAIN cSweepAddrs :
        LET q == Addr(x) p == PathOf(op.name, op.idx) IN
        (~Related(p, q) /\ ~SameListPrefix(p, q) /\ ~(op.op = "set" /\ \E n \in 1..Len(p) : Prefix(SubSeq(p, 1, n), q) \/ SameListPrefix(SubSeq(p, 1, n), q)))
           => ReadAt(st'.H, hs[op.h], q) = ReadAt(H, hs[op.h], q)
FrameProp == [][Frame]_vars
\* removing from a list shifts the later elements down; writing past the end pads with nils
ShiftPad ==
  LET op == last'.op p == PathOf(op.name, op.idx) IN
  (op.op = "remove" /\ last'.res = "true" /\ p[Len(p)].t = "i") =>
     \A k \in 0..2 : LET up == [p EXCEPT ![Len(p)] = IX(p[Len(p)].i + k + 1)]
                         dn == [p EXCEPT ![Len(p)] = IX(p[Len(p)].i + k)] IN
                     GetValue(Dev, H, hs[op.h], up) = GetValue(Dev, st'.H, hs[op.h], dn)
                     \/ (IsErr(GetValue(Dev, H, hs[op.h], up)) /\ IsErr(GetValue(Dev, st'.H, hs[op.h], dn)))
                     \/ (LET u == GetValue(Dev, H, hs[op.h], up) d == GetValue(Dev, st'.H, hs[op.h], dn) IN
                         ~IsErr(u) /\ ~IsErr(d) /\ u.ok # None /\ d.ok # None /\ SameVal(u.ok, d.ok))
ShiftPadProp == [][ShiftPad]_vars

(* ======================= C07 (store part) =================================== *)
\* no call of the universe panics in any reachable state
NoPanic == \A op \in SetOps \cup RemoveOps \cup ChildOps : Apply(Dev, st, op).res # "panic"

(* ======================= C10 ================================================ *)
\* after a merge the destination shares no node with an embedded or direct source ...
NoSharing ==
  LET op == last.op IN
  (op.op = "merge" /\ Embeds(op.fr) # 0) =>
     Reachable(H, {hs[op.h]}) \cap Reachable(H, {hs[Embeds(op.fr)]}) = {}
\* ... and the source is untouched: contents, path, parent
SrcView(HH, id) == [tree |-> Tree(HH, Sub(id), Cardinality(DOMAIN HH)), path |-> PathSegs(HH, id), par |-> HH[id].par]
SourceUntouched ==
  LET op == last'.op IN
  (op.op = "merge" /\ Embeds(op.fr) # 0) => SrcView(st'.H, hs[Embeds(op.fr)]) = SrcView(H, hs[Embeds(op.fr)])
SourceUntouchedProp == [][SourceUntouched]_vars
==========================================================================
