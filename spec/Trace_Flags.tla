---------------------------- MODULE Trace_Flags ----------------------------
(* Direction B for C19: random sequences of up to 8 flag arguments (dotted and
   indexed keys; scalars, lists, objects, quoted, empty and malformed values)
   under random option sets, fed to a real flag.FlagValue; the recorded final
   Config()/Error() must be the fold the specification computes.             *)
EXTENDS UcfgFlags, Layers, Json

Tr  == ndJsonDeserialize("trace_flags.ndjson")
NEv == Len(Tr)
VARIABLES l, known, bad, nviol
vars == <<l, known, bad, nviol>>
Out(D, ev) == ObsSt(Fold(D, St0, ev.args, ev.opts))
Init == l = 1 /\ known = [d \in Known |-> 0] /\ bad = <<>> /\ nviol = 0
Next ==
  /\ l <= NEv /\ l' = l + 1
  /\ LET ev == Tr[l] IN
     IF ev.out = Out({}, ev) THEN UNCHANGED <<known, bad, nviol>>
     ELSE LET ms == {DS \in DevSets : ev.out = Out(DS, ev)} IN
          IF ms # {}
          THEN /\ known' = [d \in Known |-> known[d] + (IF \A DS \in ms : d \in DS THEN 1 ELSE 0)]
               /\ UNCHANGED <<bad, nviol>>
          ELSE /\ nviol' = nviol + 1
               /\ bad' = IF Len(bad) < 5 THEN Append(bad, [l |-> l, want |-> Out({}, ev)]) ELSE bad
               /\ UNCHANGED known
Spec == Init /\ [][Next]_vars
Report == l = NEv + 1 =>
  PrintT(<<"REPORT", ToJson([n |-> NEv, nviol |-> nviol, known |-> known, bad |-> bad])>>)
Accepted == TLCGet("stats").diameter = NEv + 1
==========================================================================
