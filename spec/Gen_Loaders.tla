----------------------------- MODULE Gen_Loaders -----------------------------
(* C18: documents valid in YAML, JSON and HJSON at once (rendered as JSON text by
   the harness, compact and indented).  The three decoders are third-party code
   and outside the specification; what the specification fixes is what all
   three front-ends must unpack to: Normalize of the decoded data, with the
   path separator (dotted keys split) and without (dotted keys are atoms).    *)
EXTENDS NormUniverses, Layers, Json

VARIABLES d1, cs
vars == <<d1, cs>>

Awk == {"yes", "~", "2001-01-01", "1:30", "null", "", "x y", "é", "1e3", "0x1f", "a$b", "- x", "#c", "{", "'q'"}
Strs == {GPrim("s", s) : s \in Awk}
\* (0 and 1: the numbers a bool-typed read must still refuse in every front-end)
Nums == {GPrim("n", "7"), GPrim("n", "-3"), GPrim("n", "1.5"), GPrim("n", "18446744073709551615"), GPrim("n", "9223372036854775808"),
         GPrim("n", "0"), GPrim("n", "1")}
Scal == Strs \cup Nums \cup {GPrim("b", "true"), GPrim("b", "false"), GNil}
ScalQ == {GPrim("s", "yes"), GPrim("s", ""), GPrim("s", "1e3"), GPrim("n", "-3"), GPrim("n", "1.5"), GPrim("b", "false"), GNil}
Inner == {E1(K1("x"), v) : v \in ScalQ} \cup {GMap(<< <<K1("x"), GPrim("s", "~")>>, <<K2("y", "z"), GPrim("n", "7")>> >>)}
         \cup {GList(<<v, GPrim("s", "q")>>) : v \in ScalQ} \cup {GList(<<E1(K1("x"), GPrim("n", "7"))>>), GList(<<>>), GMap(<<>>)}
TopKeys == {K1("a"), K2("a", "b"), K1("k k")}
\* without a separator every key is one atom
RECURSIVE Atomic(_)
Atomic(gv) == IF gv.g = "m" THEN GMap([i \in 1..Len(gv.es) |-> << <<Sg(JoinSegs(gv.es[i][1]))>>, Atomic(gv.es[i][2]) >>])
              ELSE IF gv.g = "l" THEN GList([i \in 1..Len(gv.xs) |-> Atomic(gv.xs[i])])
              ELSE gv
\* C18, second sentence ("... and record where settings came from"), for errors raised while a setting is EXPANDED: the
\* faulty setting is a setting of the document, so the error names the document's file.  One fault at a time is added to
\* the document (at the top level, in a nested list, in an object) and read in every way the harness knows.
RF(key, text, other, kind) == [key |-> key, text |-> text, other |-> other, kind |-> kind]
RefFaults == << RF("zr", "${zmissing}", "", "missing"), RF("zs", "pre-${zmissing}-post", "", "missing-splice"),
                RF("zn", "${zmissing.deep.er}", "", "missing-path"), RF("zc", "${zd}", "zd=${zc}", "cyclic"),
                RF("zy", "x${zy}", "", "cyclic-self"), RF("zq", "${zmissing:?must be set}", "", "required") >>
Case(doc) == [doc |-> doc, sep |-> NormIdeal(doc), nosep |-> NormIdeal(Atomic(doc)), faults |-> RefFaults]
Vals1 == Scal \cup Inner
Init == d1 \in Vals1 /\ cs = <<>>
Next == /\ cs = <<>> /\ UNCHANGED d1
        /\ \E k1 \in TopKeys, v2 \in ScalQ \cup {GList(<<GPrim("s", "1:30"), GNil>>)} :
              cs' = <<k1, v2>> /\ PrintT(ToJson(Case(GMap(<< <<k1, d1>>, <<K1("c"), v2>> >>))))
View == <<d1, cs = <<>> >>
\* model level: with and without the separator agree when no key is dotted
SepIrrelevant == cs # <<>> => (cs[1] # K2("a", "b") /\ d1 \notin Inner =>
                   NormIdeal(GMap(<< <<cs[1], d1>>, <<K1("c"), cs[2]>> >>)) = NormIdeal(Atomic(GMap(<< <<cs[1], d1>>, <<K1("c"), cs[2]>> >>))))
==========================================================================
