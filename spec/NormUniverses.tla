-------------------------- MODULE NormUniverses --------------------------
EXTENDS UcfgNormalize, FiniteSetsExt, SequencesExt

Sg(s)     == [s |-> s, i |-> -1]
SgI(s, i) == [s |-> s, i |-> i]
K1(a)       == <<Sg(a)>>
K2(a, b)    == <<Sg(a), Sg(b)>>
K3(a, b, c) == <<Sg(a), Sg(b), Sg(c)>>

G1  == GPrim("s", "1")
Gn  == GPrim("n", "1")
Gb  == GPrim("b", "true")
E1(key, v) == GMap(<< <<key, v>> >>)

\* overlapping dotted keys: the universe of the order-freeness theorem (ordered inputs of <= 3 entries)
PathsOv == {K1("a"), K1("b"), K2("a", "b"), <<Sg("a"), SgI("0", 0)>>, K3("a", "b", "a")}
\* an object with a list position AND a name (a mixed node): merged as a whole wherever it meets another spelling
GMix == GMap(<< << <<SgI("0", 0)>>, G1 >>, << K1("b"), Gn >> >>)
ValsOv  == {G1, GNil, GMix,
            E1(K1("b"), G1), E1(K1("a"), Gn), E1(K1("b"), GNil),
            E1(K1("b"), E1(K1("a"), G1)),
            GList(<<G1>>), GList(<<GNil, Gn>>)}
ValsOvQuick == {G1, GNil, GMix, E1(K1("b"), G1), E1(K1("b"), GNil), E1(K1("b"), E1(K1("a"), G1)), GList(<<GNil, Gn>>)}

\* ---- trees and all their partial flattenings into dotted keys --------------------
Leafs == {P("s", "1"), P("n", "1"), P("b", "true"), Nil}
TreeD1 == {N(d, <<>>) : d \in UNION {[KS -> Leafs \cup {L(<<P("s", "1"), P("n", "2")>>)}] : KS \in SUBSET {"a", "b"}}}
TreeD2 == {N(d, <<>>) : d \in UNION {[KS -> {P("s", "1"), Nil} \cup (TreeD1 \ {Empty})] : KS \in (SUBSET {"a", "b"}) \ {{}}}}
TreeD2Quick == {t \in TreeD2 : \A key \in DOMAIN t.d : t.d[key].k # "n" \/ Cardinality(DOMAIN t.d[key].d) <= 2}

RECURSIVE GoOf(_), EntrySets(_,_)
\* the nested (unflattened) Go value of a tree
GoOf(t) == IF t.k = "nil" THEN GNil
           ELSE IF t.k = "p" THEN GPrim(t.ty, t.v)
           ELSE IF DOMAIN t.d = {} THEN GList([i \in 1..Len(t.a) |-> GoOf(t.a[i])])
           ELSE GMap(SetToSeq({<<K1(key), GoOf(t.d[key])>> : key \in DOMAIN t.d}))
\* all sets of <<key, GoVal>> entries that flatten dictionary node t below prefix
Prod(A, B) == {x \cup y : x \in A, y \in B}
EntrySets(t, prefix) ==
  LET opt(key) ==
        LET v == t.d[key] pk == Append(prefix, Sg(key)) IN
        {{<<pk, GoOf(v)>>}}
          \cup (IF v.k = "n" /\ DOMAIN v.d # {} THEN EntrySets(v, pk) ELSE {})
          \cup (IF v.k = "n" /\ DOMAIN v.d = {} /\ v.a # <<>>
                THEN {{<<Append(pk, SgI(ToString(i-1), i-1)), GoOf(v.a[i])>> : i \in 1..Len(v.a)}} ELSE {})
  IN FoldSet(LAMBDA key, acc : Prod(acc, opt(key)), {{}}, DOMAIN t.d)
Flattenings(t) == {GMap(SetToSeq(E)) : E \in EntrySets(t, <<>>)}
==========================================================================
