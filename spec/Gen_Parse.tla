----------------------------- MODULE Gen_Parse -----------------------------
(* C17 / C07 for parse.Value: (1) EVERY character string up to MaxLen over an
   alphabet of the parser's special characters (plus a letter, a digit, a minus
   sign, whitespace, and `t`/`n` so that keywords and escapes occur) under the
   four named parser configurations; (2) JSON documents of a bounded grammar,
   rendered compact and indented, which must read back as the data they
   denote (checked by TLC as an invariant and replayed on the code).         *)
EXTENDS UcfgParseValue, Layers, Json, SequencesExt

CONSTANTS MaxLen, Alphabet, Docs
cAlphabet == Alphabet
cDocs == Docs
DocSeq == SetToSeq(cDocs)

Cfgs4 == <<[name |-> "default", c |-> DefaultCfg], [name |-> "env", c |-> EnvCfg], [name |-> "noop", c |-> NoopCfg],
           [name |-> "commas", c |-> PCfg(TRUE, TRUE, TRUE, TRUE, TRUE)]>>
CfgsAll == SetToSeq({[name |-> "x", c |-> c] : c \in AllCfgs})

VARIABLES in, ph, cs
vars == <<in, ph, cs>>

Exp(c, chars) ==
  LET ideal == Parse({}, c, chars)
      alts  == {[devs |-> DS, out |-> Parse(DS, c, chars)] : DS \in DevSets}
      diff  == {x \in alts : x.out # ideal}
  IN [ideal |-> ideal, alts |-> SetToSeq(diff)]
StrCase(chars, cfgs) == [in |-> chars, kind |-> "string", runs |-> [i \in 1..Len(cfgs) |-> [c |-> cfgs[i].c, exp |-> Exp(cfgs[i].c, chars)]]]
DocCase(doc, lay) ==
  LET chars == Render(doc, lay, 0) IN
  [in |-> chars, kind |-> "json-" \o lay, doc |-> doc, denotes |-> Denotes(doc),
   \* also with IgnoreCommas (every feature on): the option only concerns a TOP-LEVEL comma, never the separators inside brackets
   runs |-> <<[c |-> DefaultCfg, exp |-> Exp(DefaultCfg, chars)],
              [c |-> PCfg(TRUE, TRUE, TRUE, TRUE, TRUE), exp |-> Exp(PCfg(TRUE, TRUE, TRUE, TRUE, TRUE), chars)]>>]

Init == in = <<>> /\ ph = "str" /\ cs = <<>>
Grow == /\ ph = "str" /\ Len(in) < MaxLen
        /\ \E x \in cAlphabet : in' = Append(in, x) /\ PrintT(ToJson(StrCase(in', Cfgs4)))
        /\ UNCHANGED <<ph, cs>>
\* documents: bucketed so that the workers share them
ToDocs == /\ ph = "str" /\ in = <<>> /\ \E b \in 0..15 : ph' = "doc" /\ cs' = <<b>> /\ UNCHANGED in
EmitDoc == /\ ph = "doc" /\ Len(cs) = 1
           /\ \E i \in {j \in 1..Len(DocSeq) : j % 16 = cs[1]}, lay \in Layouts :
                 cs' = <<cs[1], i, lay>> /\ PrintT(ToJson(DocCase(DocSeq[i], lay)))
           /\ UNCHANGED <<in, ph>>
Next == Grow \/ ToDocs \/ EmitDoc
View == <<in, ph, IF Len(cs) = 1 THEN cs ELSE <<>> >>

(* model-level: C17's round trip and C07's totality on the Ideal layer *)
RoundTrip == (ph = "doc" /\ Len(cs) = 3) =>
   /\ Parse({}, DefaultCfg, Render(DocSeq[cs[2]], cs[3], 0)) = [v |-> Denotes(DocSeq[cs[2]])]
   /\ Parse({}, PCfg(TRUE, TRUE, TRUE, TRUE, TRUE), Render(DocSeq[cs[2]], cs[3], 0)) = [v |-> Denotes(DocSeq[cs[2]])]
NoPanicKnown == \A i \in 1..Len(Cfgs4) : LET r == Parse(Known, Cfgs4[i].c, in) IN ~(IsErr(r) /\ r.err = "panic")
NoPanic == \A i \in 1..Len(Cfgs4) : LET r == Parse({}, Cfgs4[i].c, in) IN ~(IsErr(r) /\ r.err = "panic")

(* ---- universes ------------------------------------------------------------------ *)
AlphaQuick == {"[", "]", "{", "}", ",", ":", DQ, SQ, BS, " ", "z", "9"}
AlphaFull  == AlphaQuick \cup {"-", "n", "t", "/"}
JNull == [j |-> "null"]
JB(b) == [j |-> "bool", v |-> b]
JN(cs_) == [j |-> "num", cs |-> cs_]
JS(cs_) == [j |-> "str", cs |-> cs_]
JA(xs) == [j |-> "arr", xs |-> xs]
JO(es) == [j |-> "obj", es |-> es]
StrChars == {"z", "9", DQ, BS, "^n", "é", "/", " ", ",", "}", "]", ":", SQ}
Strs(n) == UNION {[1..l -> StrChars] : l \in 0..n}
\* the 64-bit boundaries: 2^64 - 1 and -2^63 are integers, 2^64 and -2^63 - 1 are floats
Big(s) == JN(s)
Scalars(n) == {JNull, JB("true"), JB("false"), JN(<<"7">>), JN(<<"-","1","2">>), JN(<<"1",".","5">>), JN(<<"1","e","+","2","1">>),
               Big(UMax64), Big(<<"1","8","4","4","6","7","4","4","0","7","3","7","0","9","5","5","1","6","1","6">>),
               Big(<<"-">> \o IMinAbs64), Big(<<"-","9","2","2","3","3","7","2","0","3","6","8","5","4","7","7","5","8","0","9">>),
               Big(<<"1","0","0","0","0","0","0","0","0","0","0","0","0","0","0","0","0","0","0","0","0">>)}
              \cup {JS(s) : s \in Strs(n)}
Keys2 == {<<"k">>, <<"a", " ", "b">>, <<DQ>>}
Docs1(n) == Scalars(n)
            \cup {JA(<<>>), JO(<<>>)}
            \cup {JA(<<x>>) : x \in Scalars(1)} \cup {JA(<<x, y>>) : x \in {JNull, JN(<<"7">>)}, y \in Scalars(1)}
            \cup {JO(<< <<key, x>> >>) : key \in Keys2, x \in Scalars(1)}
Small == {JNull, JN(<<"7">>), JS(<<"z", DQ>>), JS(<<BS>>), JA(<<JN(<<"7">>)>>), JO(<< <<<<"k">>, JS(<<"z">>)>> >>), JA(<<>>), JO(<<>>)}
Docs2 == {JA(<<x, y>>) : x, y \in Small} \cup {JO(<< <<<<"k">>, x>>, <<<<"q", " ">>, y>> >>) : x, y \in Small}
         \cup {JO(<< <<<<"k">>, JA(<<x, JO(<< <<<<"q">>, y>> >>)>>)>> >>) : x, y \in Small}
DocsQuick == Docs1(1) \cup Docs2
DocsFull  == Docs1(2) \cup Docs2
==========================================================================
