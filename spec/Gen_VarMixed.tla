---------------------------- MODULE Gen_VarMixed ----------------------------
(* C09 (and C02 / C08) on the node shapes Gen_VarExp's fixed world does not have: a node with named AND
   indexed entries (a numeric key next to names: it is unpacked by its own code path), next to a plain
   dictionary and a plain list, each holding two settings that may fail in DIFFERENT ways (a missing name,
   a reference cycle, a custom error) - so that "which error is reported" is observable.  The whole config
   is unpacked repeatedly by the replay (--repeat) and exactly one outcome is accepted.                  *)
EXTENDS UcfgVarExp, Layers, Json, SequencesExt

VARIABLES shp, cs
vars == <<shp, cs>>
Leaf(e) == IF e.t = "lit" THEN StrV(e.s) ELSE Dyn(e)
\* the two settings u, v of the node under test
\* Ref("s"): the node refers to ITSELF - directly (an entry of s) or from inside a nested list / dictionary (kinds nlist, ndict)
Shapes == {Lit("x"), Ref("m"), Ref("zz"), Ref("s.v"), Ref("s.u"), ErrOp(Lit("m"), Lit("boom")), Def(Lit("s.v"), Lit("d")), Ref("s")}
NodeOf(kind, eu, ev) ==
  CASE kind = "mixed" -> N(("u" :> Leaf(eu)) @@ ("v" :> Leaf(ev)), <<StrV("e")>>)
    [] kind = "dict"  -> N(("u" :> Leaf(eu)) @@ ("v" :> Leaf(ev)), <<>>)
    [] kind = "list"  -> N(<<>>, <<Leaf(eu), Leaf(ev)>>)
    \* two names that differ only in letter case: distinct settings, visited in ONE order (C09)
    [] kind = "cased" -> N(("k" :> Leaf(eu)) @@ ("K" :> Leaf(ev)), <<>>)
    \* a list whose only element is a list / a dictionary holding the two settings: s: [[u, v]], s: [{u: .., v: ..}]
    [] kind = "nlist" -> N(<<>>, <<N(<<>>, <<Leaf(eu), Leaf(ev)>>)>>)
    [] kind = "ndict" -> N(<<>>, <<N(("u" :> Leaf(eu)) @@ ("v" :> Leaf(ev)), <<>>)>>)
\* p, q: two references to the node s (a diamond over a container); r, r2: a plain reference and a splice using t again
World(kind, eu, ev, envs, res) ==
  [root |-> N(("s" :> NodeOf(kind, eu, ev)) @@ ("t" :> StrV("ok")) @@ ("p" :> Dyn(Ref("s"))) @@ ("q" :> Dyn(Ref("s")))
              @@ ("r" :> Dyn(Ref("t"))) @@ ("r2" :> Dyn(Cat(<<Lit("pre-"), Ref("t")>>)))
              \* the operators applied to a NESTED name that is set (g.h) and one that is not (g.zz): the name was split when
              \* the setting was created, so a reader that passes no path separator gets the same answers
              @@ ("g" :> N(("h" :> StrV("gv")), <<>>))
              @@ ("o1" :> Dyn(Def(Lit("g.h"), Lit("dflt")))) @@ ("o2" :> Dyn(Alt(Lit("g.h"), Lit("alt"))))
              @@ ("o3" :> Dyn(ErrOp(Lit("g.h"), Lit("must")))) @@ ("o4" :> Dyn(Def(Lit("g.zz"), Lit("dflt")))), <<>>),
   envs |-> envs, res |-> res]
ReadNames(kind) == (CASE kind = "list" -> <<"s.0", "s.1", "t">> [] kind = "cased" -> <<"s.k", "s.K", "t">>
                     [] kind = "nlist" -> <<"s.0.0", "s.0.1", "t">> [] kind = "ndict" -> <<"s.0.u", "s.0.v", "t">> [] OTHER -> <<"s.u", "s.v", "t">>)
                   \o <<"o1", "o2", "o3", "o4">>
\* ONE Unpack into a struct { R interface{}; R2 string; RR interface{} (again r); P, Q []interface{} or interface{} }:
\* every field is the value of its setting, read for itself - using a name twice, or reaching a container along two
\* paths, is no cycle
StructFields(kind) == << [n |-> "r", t |-> "iface"], [n |-> "r2", t |-> "string"], [n |-> "r", t |-> "iface"],
                         [n |-> "p", t |-> IF kind \in {"list", "nlist", "ndict"} THEN "slice" ELSE "iface"],
                         [n |-> "q", t |-> IF kind \in {"list", "nlist", "ndict"} THEN "slice" ELSE "iface"] >>

Exp(F(_)) == LET ideal == F({})
                 alts  == {[devs |-> DS, out |-> F(DS)] : DS \in DevSets}
                 diff  == {x \in alts : x.out # ideal}
             IN [ideal |-> ideal, alts |-> SetToSeq(diff)]
OutText(r)  == IF IsE(r) THEN [err |-> r.err] ELSE [ok |-> r.ok]
OutTyped(r) == IF IsE(r) THEN (IF "errs" \in DOMAIN r THEN [err |-> "any", errs |-> r.errs] ELSE [err |-> r.err, errs |-> {r.err}])
               ELSE [ok |-> Obs(r.ok)]
OutHas(r)   == IF IsE(r) THEN [err |-> r.err] ELSE [ok |-> r.ok]
Case(kind, W) ==
  [w |-> W, amb |-> FALSE, cyc |-> TRUE,
   reads |-> [i \in 1..Len(ReadNames(kind)) |->
               LET n == ReadNames(kind)[i] IN
               [name |-> n,
                str   |-> LET F(DS) == OutText(GetString(DS, W, n)) IN Exp(F),
                typed |-> LET F(DS) == OutTyped(GetTyped(DS, W, n)) IN Exp(F),
                has   |-> LET F(DS) == OutHas(Has(DS, W, n)) IN Exp(F)]],
   unpack |-> LET F(DS) == OutTyped(UnpackAll(DS, W)) IN Exp(F),
   fields |-> StructFields(kind),
   struct |-> LET F(DS) == LET fs == StructFields(kind)
                               rs == [i \in 1..Len(fs) |-> OutTyped(GetTyped(DS, W, fs[i].n))]
                               bad == {i \in 1..Len(fs) : "err" \in DOMAIN rs[i]} IN
                           IF bad # {} THEN [err |-> "any", errs |-> UNION {rs[i].errs : i \in bad}] ELSE [ok |-> rs]
              IN Exp(F),
   flat   |-> LET F(DS) == Flatten(DS, W, 8) IN Exp(F)]

E1 == N(("m" :> StrV("e1")), <<>>)
R1 == ("m" :> "r1") @@ ("zz" :> "rz")
\* a resolver whose answers are list texts that mention the very name they answer
R2 == ("m" :> "${m},q") @@ ("zz" :> "[${zz}]")
Init == shp \in Shapes /\ cs = <<>>
Next == /\ cs = <<>> /\ UNCHANGED shp
        /\ \E kind \in {"mixed", "dict", "list", "cased", "nlist", "ndict"}, ev \in Shapes, envs \in {<<>>, <<E1>>}, res \in {<<>>, <<R1>>, <<R2>>} :
              cs' = <<kind, ev, envs, res>> /\ PrintT(ToJson(Case(kind, World(kind, shp, ev, envs, res))))
View == <<shp, cs = <<>> >>
TabMixed == ("s.u" :> <<NF("s"), NF("u")>>) @@ ("s.v" :> <<NF("s"), NF("v")>>) @@ ("s.0" :> <<NF("s"), IX(0)>>) @@ ("s.1" :> <<NF("s"), IX(1)>>)
            @@ ("s.k" :> <<NF("s"), NF("k")>>) @@ ("s.K" :> <<NF("s"), NF("K")>>) @@ ("s" :> <<NF("s")>>) @@ ("g.h" :> <<NF("g"), NF("h")>>) @@ ("g.zz" :> <<NF("g"), NF("zz")>>)
            @@ ("s.0.0" :> <<NF("s"), IX(0), IX(0)>>) @@ ("s.0.1" :> <<NF("s"), IX(0), IX(1)>>)
            @@ ("s.0.u" :> <<NF("s"), IX(0), NF("u")>>) @@ ("s.0.v" :> <<NF("s"), IX(0), NF("v")>>)
TypeOK == shp \in Shapes
==========================================================================
