------------------------------ MODULE Gen_TagPol ------------------------------
(* C13, "merging lists and maps according to the active policy": which policy is ACTIVE for a list.
   A merge strategy may come from a global option (AppendValues, ...) or from a struct tag
   (`config:"f,append"`); a tag applies to the field's whole sub-tree and overrides what encloses it -
   also the tag `merge`, which restores index-wise merging below a non-default policy.

   Target:  struct { W struct { L []int `config:"l"`; M map[string][]int `config:"m"`;
                                D struct { L []int `config:"l"` } `config:"d<,dtag>"` } `config:"w<,wtag>"` }
   pre-filled lists, a configuration that mentions them, a global policy, a tag on W and a tag on D.
   The active policy of W.L and W.M[k] is wtag if there is one, else the global one; of W.D.L it is
   dtag, else wtag, else the global one.  The lists combine by UcfgReify's SliceLayout.          *)
EXTENDS UcfgReify, Layers, Json, SequencesExt

Pols == {"default", "append", "prepend", "replace"}
Tags == {"none", "merge", "append", "prepend", "replace"}
TagPol(t) == IF t = "merge" THEN "default" ELSE t
RECURSIVE ActiveR(_,_)
ActiveR(tags, gpol) == IF tags = <<>> THEN gpol ELSE IF tags[1] # "none" THEN TagPol(tags[1]) ELSE ActiveR(Tail(tags), gpol)

Combine(pol, old, new) ==
  LET lay == SliceLayout(pol, Len(old), Len(new)) IN
  [i \in 1..Len(lay) |-> IF lay[i].src = "new" THEN new[lay[i].j] ELSE old[lay[i].k]]

Olds == {<<>>, <<1, 2, 3>>, <<5>>}
News == {<<9>>, <<9, 8, 7, 6>>}

VARIABLES gpol, cs
vars == <<gpol, cs>>
Case(wtag, dtag, old, new) ==
  [gpol |-> gpol, wtag |-> wtag, dtag |-> dtag, old |-> old, new |-> new,
   exp |-> [ideal |-> [l  |-> Combine(ActiveR(<<wtag>>, gpol), old, new),
                       mk |-> Combine(ActiveR(<<wtag>>, gpol), old, new),
                       dl |-> Combine(ActiveR(<<dtag, wtag>>, gpol), old, new)],
            alts |-> <<>>]]
Init == gpol \in Pols /\ cs = <<>>
Next == /\ cs = <<>> /\ UNCHANGED gpol
        /\ \E wtag \in Tags, dtag \in Tags, old \in Olds, new \in News :
              cs' = <<wtag, dtag, old, new>> /\ PrintT(ToJson(Case(wtag, dtag, old, new)))
View == <<gpol, cs = <<>> >>
\* a tag always wins over what encloses it; without tags the global policy is active
TagWins == cs # <<>> => /\ (cs[2] # "none" => ActiveR(<<cs[2], cs[1]>>, gpol) = TagPol(cs[2]))
                        /\ (cs[1] = "none" /\ cs[2] = "none" => ActiveR(<<cs[2], cs[1]>>, gpol) = gpol)
==========================================================================
