------------------------------- MODULE Gen_Reach -------------------------------
(* C04, "every struct field REACHABLE in the result - whether its value came from the configuration, from a
   pre-filled default or from InitDefaults - satisfies all validators": the validated field sits in
       type In struct { X int `config:"x" validate:"min=2"`; Y int `config:"y"` }
   and In is reached from the target struct{ Name string; W <wrapper> } through every kind of wrapper -
   directly, behind one, two pointers, held in an interface{} (as a pointer and by value), as the element
   of a slice, an array or a map in all of these forms, behind a pointer to a slice.  W is pre-filled (X = 0
   breaks the validator, X = 3 satisfies it; pointers may be nil), and the configuration does not mention
   w at all, sets it to nil, mentions only y, or mentions only the first element / key.

   The specification is the sentence above: Unpack succeeds iff every X reachable in the result is >= 2,
   and then every X the configuration did not set still has its pre-filled value.                        *)
EXTENDS Integers, Sequences, FiniteSets, TLC, Layers, Json, SequencesExt

\* Unp / PUnp: the validated value is a custom UNPACKER (Unpack takes X from the setting, Validate() demands X >= 2),
\* as a value field and behind a pointer that may be pre-filled: it is validated whether it was there before or not
\* VP / VV: the validated value is a NAMED PRIMITIVE (type Port int) whose Validate() demands a value >= 2, declared on the
\* pointer receiver (VP) or on the value receiver (VV); alone, behind a pointer, and as the direct element of a slice, an
\* array or a map - the value of such a setting is the number itself
Scalars == {"In", "PIn", "PPIn", "PPPIn", "IfPIn", "IfIn", "IfPPIn", "Unp", "PUnp", "VP", "PVP", "VV"}
IsUnp(w) == w \in {"Unp", "PUnp", "VP", "PVP", "VV"}
Lists   == {"LIn", "LPIn", "LPPIn", "LIfPIn", "LIfIn", "PLIn", "PLPIn", "AIn", "APIn", "APPIn", "LVP", "LVV", "AVP", "PLVP"}
Maps    == {"MIn", "MPIn", "MPPIn", "MIfPIn", "MIfIn", "MVP", "MVV"}
Wrappers == Scalars \cup Lists \cup Maps
CanBeNil(w) == w \in {"PIn", "PPIn", "PPPIn", "PLIn", "PLPIn", "PUnp", "PVP", "PLVP"}
IsIface(w) == w \in {"IfPIn", "IfIn", "IfPPIn", "LIfPIn", "LIfIn", "MIfPIn", "MIfIn"}
Xs == {0, 3}
Defaults(w) == (IF CanBeNil(w) THEN {[nil |-> TRUE]} ELSE {})
               \cup (IF w \in Scalars THEN {[xs |-> <<x>>] : x \in Xs} ELSE {[xs |-> <<x, y>>] : x, y \in Xs})
\* what the configuration says about w
Settings(w) == {"absent", "nil"}
               \cup (IF w \in Scalars /\ ~IsIface(w) /\ ~IsUnp(w) THEN {"obj-y"} ELSE {})
               \cup (IF IsUnp(w) THEN {"u0", "u5"} ELSE {})
               \* a map of interface{} values: a null under a NEW key (nothing is stored for it) next to a stored setting -
               \* the pre-filled entries are still all unmentioned and all validated
               \cup (IF w \in Maps /\ IsIface(w) THEN {"null-new"} ELSE {})
               \* (a fixed-size array must be given in full length: a shorter list is the "wrong list length" error)
               \cup (IF w \in (Lists \cup Maps) /\ ~IsIface(w) /\ w \notin {"AIn", "APIn", "APPIn", "AVP"} THEN {"first"} ELSE {})

\* the X values reachable in the result
Final(w, d, s) ==
  IF s = "u0" THEN <<0>> ELSE IF s = "u5" THEN <<5>>       \* the unpacker takes X from the setting
  ELSE IF "nil" \in DOMAIN d THEN (IF s = "obj-y" THEN <<0>>            \* allocated by the setting, X stays zero
                              ELSE IF s = "first" THEN <<5>>       \* a new collection of one element
                              ELSE <<>>)                           \* stays nil: nothing reachable
  ELSE IF s = "first" THEN <<5, d.xs[2]>>
  ELSE d.xs
Valid(xs) == \A i \in 1..Len(xs) : xs[i] >= 2
Expect(w, d, s) == LET xs == Final(w, d, s) IN IF Valid(xs) THEN [ok |-> xs] ELSE [err |-> "validation"]

VARIABLES w, cs
vars == <<w, cs>>
Init == w \in Wrappers /\ cs = <<>>
Next == /\ cs = <<>> /\ UNCHANGED w
        /\ \E d \in Defaults(w), s \in Settings(w) :
              cs' = <<d, s>> /\ PrintT(ToJson([w |-> w, def |-> d, set |-> s, exp |-> [ideal |-> Expect(w, d, s), alts |-> <<>>]]))
View == <<w, cs = <<>> >>
\* the model never accepts a result that holds an invalid X, and never loses a pre-filled value the setting did not touch
NoInvalidAccepted == cs # <<>> => LET e == Expect(w, cs[1], cs[2]) IN ("ok" \in DOMAIN e => Valid(e.ok))
DefaultsKept == (cs # <<>> /\ cs[2] \in {"absent", "nil"} /\ "xs" \in DOMAIN cs[1]) => Final(w, cs[1], cs[2]) = cs[1].xs
==========================================================================
