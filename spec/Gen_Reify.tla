------------------------------ MODULE Gen_Reify ------------------------------
(* C04 / C13 / C14: field type x validator x pre-filled value x configuration
   of f (absent, nil, numbers, unparsable text, objects, lists, nested objects)
   x configuration of g and h (absent, valid, failing).                      *)
EXTENDS UcfgReify, Layers, Json, SequencesExt

\* ---------- universe ----------
Tys == {"I","PI","S","PS","LI","LS","MI","MS","MD","MB"}
CONSTANT Deep                   \* thorough tier: validator PAIRS on one field as well
VSets == {{}, {"nonzero"}, {"positive"}, {"min2"}, {"max5"}, {"required"}}
         \cup (IF Deep THEN {{"min2", "max5"}, {"required", "positive"}, {"nonzero", "max5"}, {"required", "min2", "max5"}} ELSE {})
Olds(ty) ==
  CASE ty = "I" -> {IntV(0), IntV(3), IntV(-1)}
    [] ty = "PI" -> {NilPtr, PtrV(IntV(0)), PtrV(IntV(3)), PtrV(IntV(-1))}
    [] ty = "S" -> {InV(0,0), InV(3,1), InV(13,1)}
    [] ty = "PS" -> {NilPtr, PtrV(InV(0,0)), PtrV(InV(3,1)), PtrV(InV(13,1))}
    [] ty = "LI" -> {SliceV(TRUE, <<>>), SliceV(FALSE, <<>>), SliceV(FALSE, <<IntV(3)>>), SliceV(FALSE, <<IntV(0), IntV(6)>>)}
    [] ty = "LS" -> {SliceV(TRUE, <<>>), SliceV(FALSE, <<InV(3,1)>>), SliceV(FALSE, <<InV(0,0), InV(3,1)>>), SliceV(FALSE, <<InV(13,1), InV(3,1)>>)}
    [] ty = "MI" -> {MapV(TRUE, <<>>), MapV(FALSE, <<>>), MapV(FALSE, [k \in {"k"} |-> IntV(3)]), MapV(FALSE, [k \in {"k","j"} |-> IF k = "k" THEN IntV(0) ELSE IntV(6)])}
    [] ty \in {"MS", "MD", "MB"} -> {MapV(TRUE, <<>>), MapV(FALSE, [k \in {"k"} |-> InV(3,1)]), MapV(FALSE, [k \in {"k"} |-> InV(0,0)]),
                                    MapV(FALSE, [k \in {"k"} |-> InV(13,1)]), MapV(FALSE, [k \in {"d"} |-> InV(7,7)])}

FVals == {None, Nil, CI(0), CI(3), CI(7), CI(-1), CS("x"),
          N([k \in {"x"} |-> CI(3)], <<>>), N([k \in {"x"} |-> CI(1)], <<>>),
          N([k \in {"x","y"} |-> IF k = "x" THEN CI(3) ELSE CS("x")], <<>>), Empty,
          N([k \in {"x"} |-> CI(13)], <<>>), N(<<>>, <<N([k \in {"x"} |-> CI(13)], <<>>)>>), N([k \in {"k"} |-> N([q \in {"x"} |-> CI(13)], <<>>)], <<>>),
          N([k \in {"d"} |-> N([q \in {"y"} |-> CI(4)], <<>>)], <<>>),
          N(<<>>, <<CI(3)>>), N(<<>>, <<CI(0), CI(6)>>), N(<<>>, <<Nil, CI(3)>>),
          N(<<>>, <<N([k \in {"x"} |-> CI(3)], <<>>)>>), N(<<>>, <<N([k \in {"x"} |-> CI(1)], <<>>)>>),
          N([k \in {"k"} |-> CI(3)], <<>>), N([k \in {"k"} |-> CI(0)], <<>>),
          N([k \in {"k"} |-> N([q \in {"x"} |-> CI(4)], <<>>)], <<>>),
          N([k \in {"j"} |-> N([q \in {"x"} |-> CI(1)], <<>>)], <<>>),
          N([k \in {"k","j"} |-> IF k = "k" THEN N([q \in {"x"} |-> CI(4)], <<>>) ELSE CS("x")], <<>>)}
GVals == {None, CI(5), CS("x")}
HVals == {None, CI(5), CS("x")}

MkCfg(g, f, h) ==
  LET ks == (IF g = None THEN {} ELSE {"g"}) \cup (IF f = None THEN {} ELSE {"f"}) \cup (IF h = None THEN {} ELSE {"h"}) IN
  N([k \in ks |-> CASE k = "g" -> g [] k = "f" -> f [] k = "h" -> h], <<>>)


VARIABLES ty, vs, pol, iv, cs
vars == <<ty, vs, pol, iv, cs>>
Out(D, old, cfg) == Unpack(ty, vs, old, cfg, D \cup {iv}, pol)
Case(old, fv, gvv, hv) ==
  LET cfg   == MkCfg(gvv, fv, hv)
      ideal == Out({}, old, cfg)
      alts  == {[devs |-> DS, out |-> Out(DS, old, cfg)] : DS \in DevSets}
      diff  == {x \in alts : x.out # ideal}
  IN [ty |-> ty, vs |-> vs, pol |-> pol, iv |-> iv, old |-> old, cfg |-> cfg, exp |-> [ideal |-> ideal, alts |-> SetToSeq(diff)]]
Init == ty \in Tys /\ vs \in VSets /\ cs = <<>>
        /\ pol \in (IF ty \in {"LI", "LS"} THEN {"default", "append", "prepend", "replace"} ELSE {"default"})
        /\ iv \in (IF ty \in {"S", "PS", "LS", "MS"} THEN IVs ELSE {"iv:plain"})
Next == /\ cs = <<>> /\ UNCHANGED <<ty, vs, pol, iv>>
        /\ \E old \in Olds(ty), fv \in FVals, gvv \in GVals, hv \in HVals :
              cs' = <<old, fv, gvv, hv>> /\ PrintT(ToJson(Case(old, fv, gvv, hv)))
View == <<ty, vs, pol, iv, cs = <<>> >>

(* ---- model-level statements (MC runs bind Dev through Groups: Known) ------------------- *)
Res == Unpack(ty, vs, cs[1], MkCfg(cs[3], cs[2], cs[4]), Known \cup {iv}, pol)
\* C04: a successful Unpack returns only validated values
OkIsValid == cs # <<>> => (IsOk(Res) => ValidRes(ty, vs, Res.ok.f, iv))
\* C13: fields without a setting keep their value, fields with one take it
Frame == cs # <<>> => (IsOk(Res) =>
           /\ Res.ok.g = (IF cs[3] = None THEN IntV(1) ELSE IntV(cs[3].i))
           /\ Res.ok.h = (IF cs[4] = None THEN IntV(1) ELSE IntV(cs[4].i))
           /\ (IsNilC(cs[2]) => Res.ok.f = cs[1] \/ ty \in {"S", "MD", "MB"} )
           \* lists combine by the active policy: lengths
           /\ (ty \in {"LI", "LS"} /\ ~IsNilC(cs[2]) /\ pol \in {"append", "prepend"} =>
                 Len(Res.ok.f.xs) = Len(cs[1].xs) + Len(CastArr(cs[2]))))
\* C14: an error names a path below the setting at fault; nothing panics
ErrNamesSetting == cs # <<>> => (~IsOk(Res) =>
           /\ "panic" \notin DOMAIN Res
           /\ LET ps == IF "errset" \in DOMAIN Res THEN Res.errset ELSE {Res.err} IN
              \A p \in ps : p # <<>> /\ p[1] \in {"g", "f", "h"}
                 /\ (p[1] = "g" => cs[3] = CS("x")) /\ (p[1] = "h" => cs[4] = CS("x")))
==========================================================================
