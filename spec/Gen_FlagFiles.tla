---------------------------- MODULE Gen_FlagFiles ----------------------------
(* C19, the FILE flag (flag/file.go NewFlagFiles on the same collector): every Set(path) loads the file with the
   loader registered for its extension (or the default loader registered under "") using the flag's options,
   and merges the result with those same options; a path without loader, a file that does not load, and a merge
   that fails are errors - the first one is kept and nothing changes afterwards.

   A file is [ext, doc]: doc is a Go value (what the loader decodes; the decoders themselves are C18's business),
   "malformed" (the loader fails) or absent loaders: ext ".txt" has no loader unless a default one is registered. *)
EXTENDS UcfgFlags, Layers, Json

CONSTANTS MaxArgs
K(s) == <<[s |-> s, i |-> -1]>>
K2(a, b) == <<[s |-> a, i |-> -1], [s |-> b, i |-> -1]>>
KI(a, n) == <<[s |-> a, i |-> -1], [s |-> ToString(n), i |-> n]>>
Doc(es) == GMap(es)
F(name, ext, doc) == [name |-> name, ext |-> ext, doc |-> doc]
\* keys are already split here: the documents are written (by the harness) with dotted keys where a key has two segments
Files == { F("f1", ".json", Doc(<< <<K("a"), GPrim("n", "1")>>, <<K("b"), GMap(<< <<K("c"), GPrim("n", "2")>> >>)>> >>)),
           F("f2", ".json", Doc(<< <<K("a"), GList(<<GPrim("n", "1"), GPrim("n", "2")>>)>> >>)),
           F("f3", ".yml",  Doc(<< <<K2("b", "c"), GPrim("n", "3")>>, <<K("a"), GList(<<GPrim("s", "x")>>)>> >>)),
           F("f4", ".yml",  Doc(<< <<K("a"), GNil>>, <<KI("l", 1), GPrim("s", "y")>> >>)),
           F("f5", ".json", Doc(<<>>)),
           F("f6", ".json", [g |-> "malformed"]),
           F("f7", ".txt",  Doc(<< <<K("t"), GPrim("b", "true")>> >>)),
           \* (no file defines one setting twice through overlapping spellings: that is the open finding KF-13's business)
           F("f8", ".yml",  Doc(<< <<K("a"), GMap(<< <<K("b"), GPrim("n", "1")>> >>)>>, <<K2("b", "d"), GList(<<GPrim("n", "2")>>)>> >>)) }
\* opts = [sep, pol, dflt]: dflt = a default loader (JSON) is registered under ""
O(sep, pol, dflt) == [sep |-> sep, pol |-> pol, dflt |-> dflt]
OptSet == {O(TRUE, "default", FALSE), O(TRUE, "append", FALSE), O(TRUE, "replace", TRUE), O(FALSE, "default", TRUE), O(TRUE, "prepend", FALSE)}
\* without a separator a two-segment key is one name
RECURSIVE Atomic(_)
Atomic(gv) == IF gv.g = "m" THEN GMap([i \in 1..Len(gv.es) |-> << <<[s |-> JoinSegs(gv.es[i][1]), i |-> -1]>>, Atomic(gv.es[i][2]) >>])
              ELSE IF gv.g = "l" THEN GList([i \in 1..Len(gv.xs) |-> Atomic(gv.xs[i])]) ELSE gv
SetFile(st, f, opts) ==
  IF st.err THEN st
  ELSE IF f.ext = ".txt" /\ ~opts.dflt THEN [st EXCEPT !.err = TRUE]          \* no loader
  ELSE IF f.doc.g = "malformed" THEN [st EXCEPT !.err = TRUE]
  ELSE LET r == SeqVal(NoOpts(opts.pol), IF opts.sep THEN f.doc ELSE Atomic(f.doc)) IN
       IF IsErr(r) THEN [st EXCEPT !.err = TRUE]
       ELSE [st EXCEPT !.cfg = MergeCfg({}, NoOpts(opts.pol), st.cfg, AsCfg(r.ok))]
RECURSIVE FoldF(_,_,_)
FoldF(st, fs, opts) == IF fs = <<>> THEN st ELSE FoldF(SetFile(st, Head(fs), opts), Tail(fs), opts)

VARIABLES files, opts, st
vars == <<files, opts, st>>
Init == files = <<>> /\ opts \in OptSet /\ st = St0
Next == /\ Len(files) < MaxArgs
        /\ \E f \in Files :
              /\ files' = Append(files, f) /\ st' = SetFile(st, f, opts)
              /\ PrintT(ToJson([files |-> files', opts |-> opts, exp |-> [ideal |-> ObsSt(st'), alts |-> <<>>]]))
        /\ UNCHANGED opts
View == <<files, opts>>
IsFold == st = FoldF(St0, files, opts)
Sticky == [][st.err => st' = st]_vars
==========================================================================
