---------------------------- MODULE Gen_ConvText ----------------------------
(* C03, the non-numeric half: texts in every syntax strconv accepts (and texts it
   rejects), booleans and numbers into bool, string and numeric targets.

   What strconv.ParseInt(s,0,64) / ParseUint / ParseFloat / ParseBool say about a
   text is a FACT supplied in TextTab (checked against strconv by the harness at
   start-up); the RULE is the specification's:
     text -> integer kinds  ParseInt / ParseUint accept it and the value fits the kind
     text -> float          ParseFloat accepts it
     text -> bool           ParseBool accepts it
     number -> bool         always an error;   bool -> number  always an error
     anything -> string     the setting's text (true/false, decimal, %v of a float)  *)
EXTENDS Integers, Sequences, FiniteSets, TLC, Layers, Json, SequencesExt

T(s, i, u, f, b) == [s |-> s, int |-> i, uint |-> u, float |-> f, bool |-> b]
NO == "err"
\* int / uint: <<value>> (a small integer), or <<>> when the text is rejected; float: canonical text or NO; bool: "true"/"false"/NO
TextTab == {
  T("7", <<7>>, <<7>>, "7", NO), T("-7", <<-7>>, <<>>, "-7", NO), T("0x10", <<16>>, <<16>>, NO, NO), T("0X1f", <<31>>, <<31>>, NO, NO), T("010", <<8>>, <<8>>, "10", NO),
  T("0o17", <<15>>, <<15>>, NO, NO), T("0b101", <<5>>, <<5>>, NO, NO), T("1_000", <<1000>>, <<1000>>, "1000", NO), T("+5", <<5>>, <<>>, "5", NO),
  T("255", <<255>>, <<255>>, "255", NO), T("256", <<256>>, <<256>>, "256", NO), T("128", <<128>>, <<128>>, "128", NO), T("-129", <<-129>>, <<>>, "-129", NO),
  T("1e3", <<>>, <<>>, "1000", NO), T("1.5", <<>>, <<>>, "1.5", NO), T(".5", <<>>, <<>>, "0.5", NO), T("0x1p4", <<>>, <<>>, "16", NO),
  T(" 1", <<>>, <<>>, NO, NO), T("1 ", <<>>, <<>>, NO, NO), T("", <<>>, <<>>, NO, NO), T("x", <<>>, <<>>, NO, NO), T("1x", <<>>, <<>>, NO, NO), T("--1", <<>>, <<>>, NO, NO),
  T("0x", <<>>, <<>>, NO, NO), T("08", <<>>, <<>>, "8", NO), T("1__0", <<>>, <<>>, NO, NO), T("NaN", <<>>, <<>>, "NaN", NO), T("inf", <<>>, <<>>, "+Inf", NO),
  T("1", <<1>>, <<1>>, "1", "true"), T("0", <<0>>, <<0>>, "0", "false"), T("t", <<>>, <<>>, NO, "true"), T("T", <<>>, <<>>, NO, "true"), T("true", <<>>, <<>>, NO, "true"),
  T("TRUE", <<>>, <<>>, NO, "true"), T("True", <<>>, <<>>, NO, "true"), T("f", <<>>, <<>>, NO, "false"), T("F", <<>>, <<>>, NO, "false"),
  T("false", <<>>, <<>>, NO, "false"), T("FALSE", <<>>, <<>>, NO, "false"), T("False", <<>>, <<>>, NO, "false"),
  T("tRUE", <<>>, <<>>, NO, NO), T("yes", <<>>, <<>>, NO, NO), T("on", <<>>, <<>>, NO, NO), T("2", <<2>>, <<2>>, "2", NO) }
IntRange  == [int8 |-> <<-128, 127>>, int16 |-> <<-32768, 32767>>, int64 |-> <<-100000, 100000>>]
UintRange == [uint8 |-> 255, uint16 |-> 65535, uint64 |-> 100000]
Targets == DOMAIN IntRange \cup DOMAIN UintRange \cup {"float64", "bool", "string"}

Err == [err |-> TRUE]
OkI(n) == [ok |-> "int", v |-> n]
OkF(s) == [ok |-> "float", v |-> s]
OkB(b) == [ok |-> "bool", v |-> b]
OkS(s) == [ok |-> "string", v |-> s]

FromText(t, tgt) ==
  CASE tgt \in DOMAIN IntRange  -> IF t.int = <<>> THEN Err ELSE IF t.int[1] >= IntRange[tgt][1] /\ t.int[1] <= IntRange[tgt][2] THEN OkI(t.int[1]) ELSE Err
    [] tgt \in DOMAIN UintRange -> IF t.uint = <<>> THEN Err ELSE IF t.uint[1] <= UintRange[tgt] THEN OkI(t.uint[1]) ELSE Err
    [] tgt = "float64" -> IF t.float = NO THEN Err ELSE OkF(t.float)
    [] tgt = "bool"    -> IF t.bool = NO THEN Err ELSE OkB(t.bool)
    [] tgt = "string"  -> OkS(t.s)
\* src: [k |-> "bool", v |-> "true"] | [k |-> "int", v |-> n, txt] | [k |-> "float", txt]
FromValue(src, tgt) ==
  CASE tgt = "string" -> OkS(src.txt)
    [] tgt = "bool"   -> IF src.k = "bool" THEN OkB(src.txt) ELSE Err
    [] src.k = "bool" -> Err
    [] OTHER -> [skip |-> TRUE]      \* number -> number is Gen_Convert's universe
Values == {[k |-> "bool", txt |-> "true"], [k |-> "bool", txt |-> "false"], [k |-> "int", txt |-> "-3"], [k |-> "uint", txt |-> "7"],
           \* the 64-bit boundaries: their TEXT is the exact decimal
           [k |-> "uint", txt |-> "18446744073709551615"], [k |-> "uint", txt |-> "9223372036854775808"],
           [k |-> "int", txt |-> "-9223372036854775808"], [k |-> "int", txt |-> "9223372036854775807"],
           [k |-> "float", txt |-> "1.5"], [k |-> "float", txt |-> "2"], [k |-> "float", txt |-> "1e+21"]}

VARIABLES tgt, cs
vars == <<tgt, cs>>
Init == tgt \in Targets /\ cs = <<>>
Next == /\ cs = <<>> /\ UNCHANGED tgt
        /\ \/ \E t \in TextTab : cs' = <<"text", t>> /\ PrintT(ToJson([kind |-> "text", text |-> t, tgt |-> tgt, exp |-> [ideal |-> FromText(t, tgt), alts |-> <<>>]]))
           \/ \E v \in Values : cs' = <<"value", v>> /\ "skip" \notin DOMAIN FromValue(v, tgt)
                 /\ PrintT(ToJson([kind |-> "value", value |-> v, tgt |-> tgt, exp |-> [ideal |-> FromValue(v, tgt), alts |-> <<>>]]))
View == <<tgt, cs = <<>> >>
\* C03: either an error or exactly the denoted value; a text that does not parse is always an error
NoThird == cs # <<>> /\ cs[1] = "text" =>
   LET r == FromText(cs[2], tgt) IN
   /\ ("err" \in DOMAIN r \/ r.ok \in {"int", "float", "bool", "string"})
   /\ (tgt \in DOMAIN IntRange /\ cs[2].int = <<>> => r = Err) /\ (tgt = "bool" /\ cs[2].bool = NO => r = Err)
==========================================================================
