------------------------------ MODULE Gen_Targets ------------------------------
(* C07, "all target types passed to Unpack": struct{ F0 <type> `config:"f0" validate:"<v>"` }
   for every field type of the universe - every primitive kind, pointers, slices,
   fixed-size arrays, maps, nested structs, custom unpackers, interface{} and the
   kinds Unpack does not support (chan, func, complex) - x every validator x every
   shape of setting (absent, nil, numbers, texts, objects, lists, empty containers),
   unpacked into a zero value and into a value whose collections are allocated.
   The specification of C07 is totality: Unpack returns.                        *)
EXTENDS UcfgPack, Layers, Json, SequencesExt

Unsupported == {T("iface"), T("chan"), T("func"), T("complex")}
\* nstr, nbool, nint, nfloat: NAMED primitive types without methods (type Name string)
ElemTypes == {T(k) : k \in NumKinds} \cup {T("bool"), T("string"), T("dur"), T("ustr"), T("uany"), T("iface"), Inner,
                                           T("nstr"), T("nbool"), T("nint"), T("nfloat"),
                                           \* method sets that look like an unpacker but are none; interface types with methods
                                           T("unores"), T("unoresany"), T("ubad2"), T("uother"), T("uvalrc"), T("iunp"), T("istr"), T("ierr")}
TargetTypes == ElemTypes \cup Unsupported
               \cup {TPtr(e) : e \in ElemTypes} \cup {TSlice(e) : e \in ElemTypes} \cup {TArr(e) : e \in ElemTypes} \cup {TMap(e) : e \in ElemTypes}
               \cup {TPtr(TSlice(T("int64"))), TPtr(TArr(T("int64"))), TSlice(TArr(T("string"))), TArr(TSlice(T("int64"))), TMap(TArr(T("int64"))),
                     TSlice(TMap(T("string"))), TPtr(TPtr(T("int64"))), TSlice(T("chan")), TMap(T("func")), TPtr(T("complex")), TArr(TPtr(Inner)),
                     \* collections of POINTERS to unpackers / structs (pre-filled with non-nil pointers in the "allocated" variant)
                     TSlice(TPtr(T("uany"))), TArr(TPtr(T("ustr"))), TMap(TPtr(T("uany"))), TSlice(TPtr(Inner)), TMap(TPtr(Inner)), TSlice(TPtr(T("int64")))}
\* more of "arbitrary target types": maps keyed by a NAMED string type, collections whose elements are POINTERS to maps /
\* slices / arrays, and interface{} fields that already hold a struct, an array, a slice or a map BY VALUE (or a pointer
\* to a struct) - the kinds ifst, ifpst, ifarr, ifsl, ifmap are interface{} types that differ in what "allocated" puts there
TNKMap(e) == [k |-> "nkmap", e |-> e]
MoreTypes == {TNKMap(T("int64")), TNKMap(Inner), TNKMap(T("iface")), TPtr(TNKMap(T("string"))),
              TPtr(TMap(T("int64"))), TMap(TPtr(TMap(T("int64")))), TMap(TPtr(TSlice(T("int64")))), TMap(TPtr(TArr(T("int64")))),
              TSlice(TPtr(TMap(T("int64")))), TArr(TPtr(TMap(T("int64")))), TMap(TPtr(TPtr(Inner))),
              T("ifst"), T("ifpst"), T("ifarr"), T("ifsl"), T("ifmap"),
              TSlice(T("ifst")), TMap(T("ifst")), TArr(T("ifarr")), TPtr(T("ifst"))}
VTags == {"", "required", "nonzero", "positive", "min=1", "max=5"}
Settings == {None, Nil, PN("3"), PN("-1"), PN("1.5"), PS("x"), PS(""), PB(TRUE),
             N([q \in {"k"} |-> PN("1")], <<>>), N([q \in {"x", "y"} |-> IF q = "x" THEN PN("1") ELSE N([z \in {"z"} |-> PS("s")], <<>>)], <<>>),
             Empty, N(<<>>, <<PN("1"), PN("2")>>), N(<<>>, <<PN("1")>>), N(<<>>, <<PN("1"), PN("2"), PN("3")>>), N(<<>>, <<Nil, PS("x")>>),
             N(<<>>, <<N([q \in {"x"} |-> PN("1")], <<>>), N([q \in {"x"} |-> PS("s")], <<>>)>>), N(<<>>, <<N(<<>>, <<PN("1")>>)>>)}
TypeSeq == SetToSeq(TargetTypes \cup MoreTypes)

VARIABLES ti, cs
vars == <<ti, cs>>
Case(t, vt, s) == [ty |-> TStruct(<<Fld("F0", <<>>, "", t)>>), vtag |-> vt,
                   tree |-> IF s = None THEN Empty ELSE N([q \in {"f0"} |-> s], <<>>),
                   exp |-> [ideal |-> [returns |-> TRUE], alts |-> <<>>]]
Init == ti \in 1..Len(TypeSeq) /\ cs = <<>>
Next == /\ cs = <<>> /\ UNCHANGED ti
        /\ \E vt \in VTags, s \in Settings : cs' = <<vt, s>> /\ PrintT(ToJson(Case(TypeSeq[ti], vt, s)))
View == <<ti, cs = <<>> >>
TypeOK == ti \in 1..Len(TypeSeq)
==========================================================================
