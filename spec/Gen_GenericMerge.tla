-------------------------- MODULE Gen_GenericMerge --------------------------
(* C13 on GENERIC targets: Unpack into a pre-filled map[string]interface{} / interface{} / []interface{}
   "overwrites exactly the fields for which the configuration has a setting (recursively, merging lists and
   maps according to the active policy) and leaves every other field as it was" - at every depth, also
   where the pre-filled value is a nested map or list held in an interface{}.

     result = GM(policy, pre-filled data U, configuration V)
       dictionary over dictionary   key-wise: a key only U has is kept, a key only V has is taken, a key
                                    both have is combined recursively (whatever the policy: the policies
                                    are about lists)
       list over list               UcfgReify's SliceLayout: index-wise by default (the longer tail kept),
                                    U then V for append, V then U for prepend, V's length for replace -
                                    an element that lands on an old one is combined with it recursively
       leaf over leaf               V's value

   U and V are COMPATIBLE (the same kind wherever they meet): what a string over a map means is not C13's
   subject.  Routes of the replay: the field of a struct typed map[string]interface{}, typed interface{},
   and the top-level target map.                                                                        *)
EXTENDS UcfgValues, Layers, Json, SequencesExt
R == INSTANCE UcfgReify      \* the list layouts of typed Unpack (reifySliceMerge) are the generic ones too

Sv(x) == P("s", x)
IsLeaf(t) == t.k = "p"
IsDictN(t) == t.k = "n" /\ DOMAIN t.d # {} /\ t.a = <<>>
IsListN(t) == t.k = "n" /\ DOMAIN t.d = {} /\ t.a # <<>>
Min2(a, b) == IF a < b THEN a ELSE b

RECURSIVE Compatible(_,_)
Compatible(u, v) ==
  \/ IsLeaf(u) /\ IsLeaf(v)
  \/ IsDictN(u) /\ IsDictN(v) /\ \A key \in DOMAIN u.d \cap DOMAIN v.d : Compatible(u.d[key], v.d[key])
  \/ IsListN(u) /\ IsListN(v) /\ \A i \in 1..Len(u.a), j \in 1..Len(v.a) : Compatible(u.a[i], v.a[j])

RECURSIVE GM(_,_,_)
GM(pol, u, v) ==
  IF IsDictN(u) /\ IsDictN(v) THEN
       N([key \in DOMAIN u.d \cup DOMAIN v.d |->
            IF key \notin DOMAIN v.d THEN u.d[key] ELSE IF key \notin DOMAIN u.d THEN v.d[key] ELSE GM(pol, u.d[key], v.d[key])], <<>>)
  ELSE IF IsListN(u) /\ IsListN(v) THEN
       LET lay == R!SliceLayout(pol, Len(u.a), Len(v.a)) IN
       N(<<>>, [i \in 1..Len(lay) |->
            IF lay[i].src = "old" THEN u.a[lay[i].k]
            ELSE IF lay[i].base > 0 THEN GM(pol, u.a[lay[i].base], v.a[lay[i].j]) ELSE v.a[lay[i].j]])
  ELSE v

U1 == N(("hosts" :> L(<<Sv("a"), Sv("b"), Sv("c")>>)) @@ ("output" :> N(("host" :> Sv("h")) @@ ("port" :> Sv("p")), <<>>)) @@ ("keep" :> Sv("k")), <<>>)
U2 == N(("hosts" :> L(<<N(("x" :> Sv("a")) @@ ("y" :> Sv("b")), <<>>), N(("x" :> Sv("c")), <<>>)>>))
        @@ ("output" :> N(("in" :> N(("deep" :> Sv("d")) @@ ("other" :> Sv("o")), <<>>)), <<>>)) @@ ("keep" :> Sv("k")), <<>>)
U3 == N(("hosts" :> L(<<L(<<Sv("a"), Sv("b")>>), L(<<Sv("c")>>)>>)) @@ ("keep" :> Sv("k")), <<>>)
U4 == N(("keep" :> Sv("k")), <<>>)
Us == {U1, U2, U3, U4}
V1 == N(("hosts" :> L(<<Sv("z")>>)) @@ ("output" :> N(("port" :> Sv("q")), <<>>)), <<>>)
V2 == N(("hosts" :> L(<<Sv("z1"), Sv("z2"), Sv("z3"), Sv("z4")>>)) @@ ("new" :> L(<<Sv("n")>>)), <<>>)
V3 == N(("hosts" :> L(<<N(("x" :> Sv("z")), <<>>)>>)) @@ ("output" :> N(("in" :> N(("deep" :> Sv("e")), <<>>)), <<>>)), <<>>)
V4 == N(("hosts" :> L(<<L(<<Sv("z")>>)>>)) @@ ("keep" :> Sv("k2")), <<>>)
V5 == N(("new" :> N(("deep" :> L(<<Sv("n")>>)), <<>>)), <<>>)
V6 == N(("hosts" :> L(<<N(("x" :> Sv("z")), <<>>), N(("y" :> Sv("w")), <<>>), N(("x" :> Sv("v")), <<>>)>>)), <<>>)
Vs == {V1, V2, V3, V4, V5, V6}
Pols == {"default", "append", "prepend", "replace"}

VARIABLES pol, cs
vars == <<pol, cs>>
Init == pol \in Pols /\ cs = <<>>
Next == /\ cs = <<>> /\ UNCHANGED pol
        /\ \E u \in Us, v \in Vs : Compatible(u, v) /\ cs' = <<u, v>>
              /\ PrintT(ToJson([pol |-> pol, u |-> u, v |-> v, exp |-> [ideal |-> [ok |-> Obs(GM(pol, u, v))], alts |-> <<>>]]))
View == <<pol, cs = <<>> >>

(* C13 at the model level *)
RECURSIVE Untouched(_,_,_)
\* every part of U the configuration does not mention is in the result unchanged (dictionaries: at every depth)
Untouched(u, v, r) ==
  IF IsDictN(u) /\ IsDictN(v) THEN
       /\ IsDictN(r)
       /\ \A key \in DOMAIN u.d : key \in DOMAIN r.d /\ (IF key \in DOMAIN v.d THEN Untouched(u.d[key], v.d[key], r.d[key]) ELSE r.d[key] = u.d[key])
  ELSE TRUE
OnlyMentioned == cs # <<>> => Untouched(cs[1], cs[2], GM(pol, cs[1], cs[2]))
\* nothing is lost under the list policies that keep the old elements
RECURSIVE Leaves(_)
Leaves(t) == IF t.k = "p" THEN {t.v} ELSE UNION ({Leaves(t.d[key]) : key \in DOMAIN t.d} \cup {Leaves(t.a[i]) : i \in 1..Len(t.a)})
AppendKeepsAll == (cs # <<>> /\ pol \in {"append", "prepend"}) =>
   \A x \in Leaves(cs[2]) : x \in Leaves(GM(pol, cs[1], cs[2]))
==========================================================================
