----------------------------- MODULE UcfgVarExp -----------------------------
(* Variable expansion (C02, C08): variables.go (resolveRef, resolveEnv, resolve,
   eval of references, splices and the :  :+  :? operators), types.go
   (cfgDynamic.withValue / getValue, refDynValue, spliceDynValue, parseValue)
   and ucfg.go FlattenedKeys, on abstract trees.

   A configuration tree may hold, besides the values of UcfgValues, unevaluated
   leaves [k |-> "dyn", e |-> Expr]:
     Expr ::= [t |-> "lit", s]                 literal text
            | [t |-> "ref", n]                 ${n}            (n: name string)
            | [t |-> "cat", ps |-> Seq(Expr)]  concatenation (a splice)
            | [t |-> "def", l, r]              ${l:r}   default when unset or empty
            | [t |-> "alt", l, r]              ${l:+r}  alternative when set
            | [t |-> "err", l, r]              ${l:?r}  error r when unset or empty
            | [t |-> "ind", e]                 ${<e>}   the name is itself computed
   A leaf whose expression is exactly one "ref" is a REFERENCE VALUE (it takes
   the referenced value with its type); every other dyn leaf is a splice (text).

   A world W is [root, envs, res]: the owning root tree, the Env configs (the
   last added is consulted first) and the resolvers (finite maps name -> text,
   the last added first).  Names are strings; NameTab maps a dotted name to its
   path (TLC cannot split strings).

   Evaluation is late bound and per call: nothing is stored in the tree.  The
   set A of names under evaluation is a STACK (passed down, never threaded):
   re-entering a name that is in A is a cyclic-reference error at that point;
   using a name twice, or reaching it along two paths, is not.

   Deviations
     "FlattenFreshActiveSet"  FlattenedKeys (and CompareConfigs) start every level
          of the descent with fresh options, so a reference cycle that passes
          through a sub-dictionary is never detected: unbounded recursion, the
          process dies with a stack overflow (open finding)
     "NoResolverSilentEmpty", "EnvSkippedForSingleSegment", "ActiveKeyedByName"
          earlier behaviours, repaired by fix: commits, kept so that TLC and the
          harness show they would be caught.  (The third repaired one - the set of
          active names was never popped - needs the set THREADED through the
          evaluation; its code-exact model is the prototype VarProto of DESIGN.md
          appendix C, which matched 1.76 M reads of the unrepaired code.)       *)
EXTENDS UcfgNormalize

StrV(s) == P("s", s)     \* (A below is the set of names under evaluation)

CONSTANT NameTab         \* [NameString -> path (Seq of NF/IX steps)] for multi-segment names

Lit(s)      == [t |-> "lit", s |-> s]
Ref(n)      == [t |-> "ref", n |-> n]
Cat(ps)     == [t |-> "cat", ps |-> ps]
Def(l, r)   == [t |-> "def", l |-> l, r |-> r]
Alt(l, r)   == [t |-> "alt", l |-> l, r |-> r]
ErrOp(l, r) == [t |-> "err", l |-> l, r |-> r]
Ind(e)      == [t |-> "ind", e |-> e]
Dyn(e)      == [k |-> "dyn", e |-> e]
IsDyn(v)    == v.k = "dyn"
IsRefVal(v) == v.k = "dyn" /\ v.e.t = "ref"

PathOfName(n) == IF n \in DOMAIN NameTab THEN NameTab[n] ELSE <<NF(n)>>

EOk(s)  == [ok |-> s]
EErr(e) == [err |-> e]
IsE(r)  == "err" \in DOMAIN r
Cyc     == EErr("cyclic")
Missing == EErr("missing")

\* results of a lookup: Found(value, owner tree index) / NotFound / error
Found(v, o) == [f |-> "found", v |-> v, o |-> o]
NotFound    == [f |-> "notfound"]
LErr(e)     == [f |-> "err", e |-> e]
TextRes(s)  == [f |-> "text", s |-> s]

\* owner 0 = root, j = envs[j]
TreeOf(W, o) == IF o = 0 THEN W.root ELSE W.envs[o]

PrimText(v) == IF v.k = "nil" THEN "null" ELSE v.v

(* ---- the evaluator (Ideal: A is a stack) --------------------------------------------
   D is threaded only to select the repaired behaviours.                               *)
RECURSIVE GetPath(_,_,_,_,_,_), ResolveRef(_,_,_,_,_), Resolve(_,_,_,_,_), ToValue(_,_,_,_,_),
          ToText(_,_,_,_,_), RefEval(_,_,_,_,_), EvalText(_,_,_,_,_), CatText(_,_,_,_,_,_), TryLayers(_,_,_,_,_,_)

\* value.toConfig for an intermediate step: a node, nil -> empty, a reference value is followed
AsNodeV(D, W, v, o, A) ==
  IF v.k = "n" THEN [ok |-> v, o |-> o]
  ELSE IF v.k = "nil" THEN [ok |-> Empty, o |-> o]
  ELSE IF IsDyn(v) THEN
         LET r == ToValue(D, W, v, o, A) IN
         IF IsE(r) THEN r
         ELSE IF r.ok.k = "n" THEN [ok |-> r.ok, o |-> r.o]
         ELSE IF r.ok.k = "nil" THEN [ok |-> Empty, o |-> r.o]
         ELSE EErr("object")
  ELSE EErr("object")

\* cfgPath.GetValue from node cur of tree o: [ok |-> value or None, o] / error
GetPath(D, W, cur, o, fs, A) ==
  IF fs = <<>> THEN [ok |-> cur, o |-> o]
  ELSE LET c == AsNodeV(D, W, cur, o, A) IN
       \* a step whose element does not convert to a config: cfgPath.GetValue reports the LAST step as "missing" and an
       \* earlier one as "expected object", whatever made the conversion fail (also a cyclic reference met while
       \* evaluating a reference-valued intermediate: the cycle is reported at that point, the enclosing lookup fails)
       IF IsE(c) THEN (IF Len(fs) = 1 /\ fs[1].t = "i" /\ fs[1].i = 0 /\ c.err = "object" THEN [ok |-> cur, o |-> o]
                       ELSE IF Len(fs) = 1 THEN Missing ELSE EErr("object"))
       ELSE LET nxt == StepGet(c.ok, fs[1]) IN
            IF nxt = None THEN (IF Len(fs) = 1 THEN [ok |-> None, o |-> c.o] ELSE Missing)
            ELSE GetPath(D, W, nxt, c.o, Tail(fs), A)

\* reference.resolveRef: cycle check, then the owning root, then the Env configs last-to-first
TryLayers(D, W, n, layers, A, lastErr) ==
  IF layers = <<>> THEN (IF lastErr = "" THEN NotFound ELSE LErr(lastErr))
  ELSE LET o == Head(layers)
           g == GetPath(D, W, TreeOf(W, o), o, PathOfName(n), A) IN
       IF ~IsE(g) /\ g.ok # None THEN Found(g.ok, g.o)
       ELSE IF ~IsE(g) /\ "EnvSkippedForSingleSegment" \in D THEN NotFound
       ELSE TryLayers(D, W, n, Tail(layers), A, IF IsE(g) THEN g.err ELSE "")
EnvOrder(W) == [j \in 1..Len(W.envs) |-> Len(W.envs) + 1 - j]
\* A reference is identified by its name AND the tree its setting lives in (owner o): the same name looked up
\* from inside an Env configuration is another reference.  (Deviation "ActiveKeyedByName": only the name - repaired.)
Active(D, o, n, A) == IF "ActiveKeyedByName" \in D THEN \E p \in A : p[2] = n ELSE <<o, n>> \in A
ResolveRef(D, W, o, n, A) ==
  IF Active(D, o, n, A) THEN LErr("cyclic")
  \* the reference is active WHILE its path is walked: an intermediate step that is itself a reference
  \* (a: ${a.k}) is evaluated under it and re-entering the name there is a cycle
  ELSE TryLayers(D, W, n, <<o>> \o EnvOrder(W), A \cup {<<o, n>>}, "")

\* the resolvers, last added first; a resolver error moves on to the next one
\* A resolver is a finite map name -> text (Resolve(fn)), or one of the two built-in ones:
\*   [kind |-> "osenv", tab]  ResolveEnv: the process environment (an empty variable counts as unset)
\*   [kind |-> "noop"]        ResolveNOOP: knows EVERY name and answers with the reference itself, "${name}", taken literally
\* whatever the kind, they are asked in the reverse order of the options that added them
IsKinded(r)  == "kind" \in DOMAIN r
Knows(r, n)  == IF IsKinded(r) THEN (r.kind = "noop" \/ (n \in DOMAIN r.tab /\ r.tab[n] # "")) ELSE n \in DOMAIN r
Answer(r, n) == IF IsKinded(r) THEN (IF r.kind = "noop" THEN "${" \o n \o "}" ELSE r.tab[n]) ELSE r[n]
ResolverText(W, n) ==
  LET known == {j \in 1..Len(W.res) : Knows(W.res[j], n)} IN
  IF known = {} THEN [known |-> FALSE] ELSE [known |-> TRUE, s |-> Answer(W.res[CHOOSE j \in known : \A x \in known : x <= j], n)]

\* reference.resolve / refDynValue.getValue: Found / TextRes / error
Resolve(D, W, o, n, A) ==
  LET r == ResolveRef(D, W, o, n, A) IN
  IF r.f = "found" THEN r
  ELSE IF r.f = "err" /\ r.e \notin {"cyclic", "missing"} THEN r              \* critical
  ELSE IF W.res = <<>> /\ "NoResolverSilentEmpty" \in D THEN TextRes("")
  ELSE LET t == ResolverText(W, n) IN
       IF t.known THEN TextRes(t.s)
       ELSE IF r.f = "err" /\ r.e = "cyclic" THEN r ELSE LErr("missing")

\* The TEXT a resolver provides, or a splice evaluates to, is handed to the value parser (parseValue): it becomes a
\* number, a bool, nil or - through a top-level comma - a list.  TLC cannot take strings apart, so the texts of
\* the universes that are not plain words are listed here (the parser itself is UcfgParseValue's subject, C17).
TextVal(s) == CASE s = "7"    -> P("n", "7")
                [] s = "true" -> P("b", "true")
                [] s = "null" -> Nil
                [] s = "p,q"  -> N(<<>>, <<StrV("p"), StrV("q")>>)
                \* a text is expanded ONCE: what looks like a reference in a parsed text is a literal, alone (OTHER) and as
                \* the element of a list alike - in particular a resolver whose answer mentions its own name is no cycle
                [] s = "${m},q"   -> N(<<>>, <<StrV("${m}"), StrV("q")>>)
                [] s = "[${zz}]"  -> N(<<>>, <<StrV("${zz}")>>)
                [] OTHER      -> StrV(s)

\* the value a dyn leaf stands for: [ok |-> non-dyn value, o] / error   (cfgDynamic.getValue, followed
\* through chains of reference values; the text of a splice / resolver is a string value here)
ToValue(D, W, v, o, A) ==
  IF ~IsDyn(v) THEN [ok |-> v, o |-> o, s |-> A]
  ELSE IF v.e.t = "ref" THEN
         LET r == Resolve(D, W, o, v.e.n, A) IN
         CASE r.f = "err"   -> EErr(r.e)
           [] r.f = "text"  -> [ok |-> TextVal(r.s), o |-> o, s |-> A]
           [] r.f = "found" -> ToValue(D, W, r.v, r.o, A \cup {<<o, v.e.n>>})
  ELSE LET t == EvalText(D, W, o, v.e, A) IN
       IF IsE(t) THEN t ELSE [ok |-> TextVal(t.ok), o |-> o, s |-> A]

\* value.toString
ToText(D, W, v, o, A) ==
  LET r == ToValue(D, W, v, o, A) IN
  IF IsE(r) THEN r
  ELSE IF r.ok.k = "n" THEN EErr("type")
  ELSE EOk(PrimText(r.ok))

\* reference.eval: resolve + toString
RefEval(D, W, o, n, A) ==
  LET r == Resolve(D, W, o, n, A) IN
  CASE r.f = "err"   -> EErr(r.e)
    [] r.f = "text"  -> IF r.s = "" THEN EErr("unresolved") ELSE EOk(r.s)
    [] r.f = "found" -> ToText(D, W, r.v, r.o, A \cup {<<o, n>>})

CatText(D, W, o, ps, acc, A) ==
  IF ps = <<>> THEN EOk(acc)
  ELSE LET r == EvalText(D, W, o, Head(ps), A) IN
       IF IsE(r) THEN r ELSE CatText(D, W, o, Tail(ps), acc \o r.ok, A)

EvalText(D, W, o, e, A) ==
  CASE e.t = "lit" -> EOk(e.s)
    [] e.t = "ref" -> RefEval(D, W, o, e.n, A)
    [] e.t = "cat" -> CatText(D, W, o, e.ps, "", A)
    [] e.t = "ind" -> LET p == EvalText(D, W, o, e.e, A) IN IF IsE(p) THEN p ELSE RefEval(D, W, o, p.ok, A)
    [] e.t = "def" -> LET p == EvalText(D, W, o, e.l, A) IN
                      IF IsE(p) \/ p.ok = "" THEN EvalText(D, W, o, e.r, A)
                      ELSE LET v == RefEval(D, W, o, p.ok, A) IN
                           IF IsE(v) \/ v.ok = "" THEN EvalText(D, W, o, e.r, A) ELSE v
    [] e.t = "alt" -> LET p == EvalText(D, W, o, e.l, A) IN
                      IF IsE(p) \/ p.ok = "" THEN EOk("")
                      ELSE LET r == Resolve(D, W, o, p.ok, A) IN
                           IF r.f = "err" \/ (r.f = "text" /\ r.s = "") THEN EOk("") ELSE EvalText(D, W, o, e.r, A)
    [] e.t = "err" -> LET p == EvalText(D, W, o, e.l, A)
                          v == IF IsE(p) \/ p.ok = "" THEN EErr("x") ELSE RefEval(D, W, o, p.ok, A) IN
                      IF ~IsE(v) /\ v.ok # "" THEN v
                      ELSE LET m == EvalText(D, W, o, e.r, A) IN IF IsE(m) THEN m ELSE EErr("custom:" \o m.ok)

(* ---- read entry points ---------------------------------------------------------------- *)
\* String(name): text or error class
GetString(D, W, n) ==
  LET g == GetPath(D, W, W.root, 0, PathOfName(n), {}) IN
  IF IsE(g) THEN g ELSE IF g.ok = None THEN Missing ELSE ToText(D, W, g.ok, g.o, {})

\* the typed value of a setting (Unpack of one field): a tree without dyn leaves, or an error
RECURSIVE Reify(_,_,_,_,_)
Reify(D, W, v, o, A) ==
  LET r == ToValue(D, W, v, o, A) IN
  IF IsE(r) THEN r
  ELSE IF r.ok.k # "n" THEN EOk(r.ok)
  ELSE LET S2 == r.s            \* the references followed to reach the node stay active below it
           dd == [key \in DOMAIN r.ok.d |-> Reify(D, W, r.ok.d[key], r.o, S2)]
           aa == [i \in 1..Len(r.ok.a) |-> Reify(D, W, r.ok.a[i], r.o, S2)]
           bad == {dd[key] : key \in {x \in DOMAIN dd : IsE(dd[x])}} \cup {aa[i] : i \in {x \in 1..Len(aa) : IsE(aa[x])}}
       IN IF bad # {} THEN [err |-> "any", errs |-> UNION {IF "errs" \in DOMAIN b THEN b.errs ELSE {b.err} : b \in bad}]
          ELSE EOk(N([key \in DOMAIN dd |-> dd[key].ok], [i \in 1..Len(aa) |-> aa[i].ok]))
GetTyped(D, W, n) ==
  LET g == GetPath(D, W, W.root, 0, PathOfName(n), {}) IN
  \* a struct field whose setting is absent is left alone: the typed read of an absent name is nil
  IF IsE(g) THEN (IF g.err = "missing" THEN EOk(Nil) ELSE g) ELSE IF g.ok = None THEN EOk(Nil) ELSE Reify(D, W, g.ok, g.o, {})
UnpackAll(D, W) == Reify(D, W, W.root, 0, {})

\* Has(name): TRUE / FALSE / error
Has(D, W, n) ==
  LET g == GetPath(D, W, W.root, 0, PathOfName(n), {}) IN
  IF IsE(g) THEN (IF g.err = "missing" THEN EOk(FALSE) ELSE g) ELSE EOk(g.ok # None)

\* FlattenedKeys: "returns" or "overflow".  Every level is a fresh call (fresh A); a value that
\* converts to a config is descended into.  depth bounds the descent of the model.
RECURSIVE FlatReturns(_,_,_,_,_)
FlatReturns(D, W, node, o, depth) ==
  IF depth = 0 THEN FALSE
  ELSE LET vals == (IF DOMAIN node.d # {} THEN {node.d[key] : key \in DOMAIN node.d} ELSE {node.a[i] : i \in 1..Len(node.a)})
       IN \A v \in vals :
            LET c == AsNodeV(D, W, v, o, {}) IN
            IF IsE(c) THEN TRUE
            ELSE IF v.k = "nil" THEN TRUE
            ELSE FlatReturns(D, W, c.ok, c.o, depth - 1)
\* (ideal) the traversal remembers the configurations on its path: it always returns
Flatten(D, W, bound) ==
  IF "FlattenFreshActiveSet" \in D /\ ~FlatReturns(D, W, W.root, 0, bound) THEN "overflow" ELSE "returns"
==========================================================================
