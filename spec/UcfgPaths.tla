----------------------------- MODULE UcfgPaths -----------------------------
(* Which path segments are list indices (C20): path.go:69-107 (parsePath,
   parseField) and opts.go MaxIdx / EnableNumKeys.

   A spelling is [s |-> text, lit |-> BOOLEAN, val |-> Int]: `lit` says that
   strconv.ParseInt(text, 0, 64) accepts the text and `val` is its value
   (values above 100000 are carried as 100000, below -100000 as -100000; the
   harness checks this table against strconv when it starts).  The RULE is
   the specification's:

     a segment is an index  iff  it is an integer literal with 0 <= val <= MaxIdx
                                 and (EnableNumKeys is off or the key has more
                                 than one segment)

   Deviation "NegativeIndexPanics": the implementation omitted `0 <=` (fixed). *)
EXTENDS UcfgNormalize

IsIndex(D, sp, nsegs, maxIdx, numKeys) ==
  /\ ~(numKeys /\ nsegs = 1)
  /\ sp.lit
  /\ sp.val <= maxIdx
  /\ (sp.val >= 0 \/ "NegativeIndexPanics" \in D)

\* classified key: the segments handed to UcfgNormalize / UcfgStore
Classify(D, key, maxIdx, numKeys) ==
  [j \in 1..Len(key) |-> [s |-> key[j].s, i |-> IF IsIndex(D, key[j], Len(key), maxIdx, numKeys) THEN key[j].val ELSE -1]]

\* the config created from the single setting  key = "v"
TreeOfKey(D, key, maxIdx, numKeys) ==
  LET ck == Classify(D, key, maxIdx, numKeys) IN
  IF \E j \in 1..Len(ck) : ck[j].i < -1 \/ (key[j].lit /\ key[j].val < 0 /\ ck[j].i # -1)
  THEN [err |-> "panic"]
  ELSE SeqVal(NoOpts("default"), GMap(<< <<ck, GPrim("s", "v")>> >>))

RECURSIVE MaxListLen(_)
MaxListLen(t) == IF t.k # "n" THEN 0
                 ELSE LET sub == {MaxListLen(t.d[key]) : key \in DOMAIN t.d} \cup {MaxListLen(t.a[i]) : i \in 1..Len(t.a)} \cup {Len(t.a)}
                      IN CHOOSE m \in sub : \A x \in sub : x <= m
==========================================================================
