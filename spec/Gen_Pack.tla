------------------------------- MODULE Gen_Pack -------------------------------
(* C06: two-field structs over 15 field types x tags {default, renamed, dotted,
   inline, ignore} x extreme values; types are WELL-FORMED (no two fields that
   resolve to the same or a prefix-related name: that is a separate, expected
   duplicate error).  Every fifth type again with its tags written under a custom
   key and / or the StructTag option (tags that the option does not name are
   ignored: every field is a plain setting under its lower-cased name).        *)
EXTENDS UcfgPack, Layers, Json, SequencesExt

Tags == {<<>>, <<"n">>, <<"p", "q">>}
Modes(t) == IF t.k \in {"struct", "map"} THEN {"", "inline", "ignore"} ELSE {"", "ignore"}
WellFormed(t0, g0, m0, t1, g1, m1) ==
  /\ (m0 = "" \/ g0 = <<>>) /\ (m1 = "" \/ g1 = <<>>)
  /\ (m0 = "" /\ m1 = "" => LET p0 == IF g0 = <<>> THEN <<"f0">> ELSE g0
                                p1 == IF g1 = <<>> THEN <<"f1">> ELSE g1 IN p0 # p1)
  /\ ~(m0 = "inline" /\ m1 = "inline")
  \* positional fields inlined at the top level would land in the ROOT's list part, which the map-typed generic
  \* view of the whole config does not show (the pair observation of the other families does; here they stay nested)
  /\ (m0 = "inline" => t0 \notin {Pos, PosMix}) /\ (m1 = "inline" => t1 \notin {Pos, PosMix})
  /\ (m0 = "inline" /\ t0.k = "map" => t0.e = T("string"))
  /\ (m1 = "inline" /\ t1.k = "map" => t1.e = T("string"))
  /\ (m0 = "inline" /\ m1 = "" => g1 \notin {<<"x">>, <<"y">>, <<"k">>})
  /\ (m1 = "inline" /\ m0 = "" => g0 \notin {<<"x">>, <<"y">>, <<"k">>})
StructTypes ==
  { TStruct(<<Fld("F0", g0, m0, t0), Fld("F1", g1, m1, t1)>>) :
      t0 \in FieldTypes, t1 \in FieldTypes, g0 \in Tags, g1 \in Tags,
      m0 \in {"", "inline", "ignore"}, m1 \in {"", "inline", "ignore"} }
TypeSeq == SetToSeq({t \in StructTypes :
              /\ t.f[1].mode \in Modes(t.f[1].t) /\ t.f[2].mode \in Modes(t.f[2].t)
              /\ WellFormed(t.f[1].t, t.f[1].tag, t.f[1].mode, t.f[2].t, t.f[2].tag, t.f[2].mode)})

\* every numeric kind x its boundaries, as a plain field, behind a pointer, in a slice, an array and a map
NumWraps(k) == {T(k), TPtr(T(k)), TSlice(T(k)), TArr(T(k)), TMap(T(k))}
NumType(w) == TStruct(<<Fld("F0", <<>>, "", w), Fld("F1", <<"n">>, "", T("bool"))>>)
NumWrapVal(w, x, y) ==
  CASE w.k = "ptr" -> [k |-> "ptr", p |-> x]
    [] w.k = "slice" -> [k |-> "slice", xs |-> <<x, y>>]
    [] w.k = "array" -> [k |-> "array", xs |-> <<x, y>>]
    [] w.k = "map" -> [k |-> "map", m |-> [q \in {"k"} |-> x]]
    [] OTHER -> x
NumCases == UNION {{<<NumType(w), [k |-> "struct", f |-> <<NumWrapVal(w, x, y), V("bool", TRUE)>>]>> :
                        w \in NumWraps(k), x \in NumV(k), y \in NumV(k)} : k \in NumKinds}
NumCaseSeq == SetToSeq(NumCases)

\* exported field names of every legal form (a non-ASCII upper-case initial, non-ASCII letters inside, underscore and
\* digits, one letter), without tag and with a rename, holding a primitive, a list and a pointer to a struct
OddNames == {"Übrig", "Étage", "Größe", "X_1", "Q", "ÄÖ"}
NameCases == UNION {{<<TStruct(<<Fld(n, g, "", t), Fld("F1", <<"f1">>, "", T("bool"))>>), [k |-> "struct", f |-> <<x, V("bool", TRUE)>>]>> :
                        x \in Vals(t)} : n \in OddNames, g \in {<<>>, <<"n">>}, t \in {T("string"), TSlice(T("int64")), TPtr(Inner)}}
NameCaseSeq == SetToSeq(NameCases)

VARIABLES bk, cs
vars == <<bk, cs>>
\* tagkey: the key the type's tags are written under; structtag: the StructTag option ("" = not given)
CaseT(ty, val, tagkey, structtag) ==
  LET ety   == EffType(ty, tagkey, structtag)
      ideal == RoundTrip({}, ety, val)
      alts  == {[devs |-> DS, out |-> RoundTrip(DS, ety, val)] : DS \in DevSets}
      diff  == {x \in alts : x.out # ideal}
  IN [ty |-> ty, val |-> val, tagkey |-> tagkey, structtag |-> structtag, tree |-> Pack(ety, val), exp |-> [ideal |-> ideal, alts |-> SetToSeq(diff)]]
Case(ty, val) == CaseT(ty, val, "config", "")
\* the custom tag honoured, the default tags ignored under the option, the custom tags ignored without it
TagCombos == {<<"cfg", "cfg">>, <<"config", "cfg">>, <<"cfg", "">>}
Init == bk \in 0..63 /\ cs = <<>>
Next == /\ cs = <<>> /\ UNCHANGED bk
        /\ \/ \E i \in {j \in 1..Len(TypeSeq) : j % 64 = bk} : \E val \in Vals(TypeSeq[i]) :
                 cs' = <<i, val>> /\ PrintT(ToJson(Case(TypeSeq[i], val)))
           \/ \E i \in {j \in 1..Len(TypeSeq) : j % 64 = bk /\ j % 5 = 0} : \E val \in Vals(TypeSeq[i]), tc \in TagCombos :
                 cs' = <<i, val, tc>> /\ PrintT(ToJson(CaseT(TypeSeq[i], val, tc[1], tc[2])))
           \/ \E i \in {j \in 1..Len(NumCaseSeq) : j % 64 = bk} :
                 cs' = <<0, i>> /\ PrintT(ToJson(Case(NumCaseSeq[i][1], NumCaseSeq[i][2])))
           \/ \E i \in {j \in 1..Len(NameCaseSeq) : j % 64 = bk} :
                 cs' = <<-1, i>> /\ PrintT(ToJson(Case(NameCaseSeq[i][1], NameCaseSeq[i][2])))
View == <<bk, cs = <<>> >>
\* C06 at the model level: the round trip is the identity on the Ideal layer
CsTy  == IF cs[1] = 0 THEN NumCaseSeq[cs[2]][1] ELSE IF cs[1] = -1 THEN NameCaseSeq[cs[2]][1] ELSE TypeSeq[cs[1]]
CsVal == IF cs[1] = 0 THEN NumCaseSeq[cs[2]][2] ELSE IF cs[1] = -1 THEN NameCaseSeq[cs[2]][2] ELSE cs[2]
CsETy == IF Len(cs) = 3 THEN EffType(CsTy, cs[3][1], cs[3][2]) ELSE CsTy
Identity == cs # <<>> => RoundTrip({}, CsETy, CsVal) = [ok |-> CsVal]
\* ... and the packed tree never is a duplicate-key error for a well-formed type
PackOK == cs # <<>> => ~IsErr(Pack(CsETy, CsVal))
==========================================================================
