------------------------------ MODULE UcfgFaults ------------------------------
(* C14: single faults injected into valid configurations.

   A valid configuration is Pack(t, v) for a struct type t and a value v
   (UcfgPack).  Sites(t, v) are the settings of that configuration together with
   the Go type that receives each of them on Unpack: primitives, list elements,
   map entries, nested / inline / pointed-to structs, fixed-size arrays, fields
   with a custom Unpack method - at every depth the type universe has.
   FaultsFor(t) are the faulty settings that can be put at a site of receiving
   type t, by fault kind:
     conversion  a text that does not convert ("x" into a number, a bool, a duration)
     type        an object or a list where a primitive is expected, a primitive where
                 an object is expected
     range       a number outside the range of the kind (300 -> int8, -1 -> uint64 ...)
     reference   "${nope}": a reference nothing resolves (VarExp is on)
     cycle       "${<the setting itself>}"
     length      three elements for a [2]T
     custom      the text the custom Unpack method rejects
   The specification of C14 is then one line: Unpack of Inject(Pack(t, v), site,
   fault) into a zero t is an error that names site.p - the full dotted path of
   exactly that setting - and the source the configuration was loaded with.     *)
EXTENDS UcfgPack

Nm(s) == [n |-> s]
Ix(i) == [i |-> i]
\* (a tag segment that is an integer literal is a list index: positional binding)
Names(segs) == [j \in 1..Len(segs) |-> IF IsIdxSeg(segs[j]) THEN Ix(IdxSegs[segs[j]]) ELSE Nm(segs[j])]

FieldPath(f) == IF f.tag = <<>> THEN <<DefaultName(f.n)>> ELSE f.tag

RECURSIVE Sites(_,_,_)
Sites(t, v, path) ==
  IF "nil" \in DOMAIN v THEN {}
  ELSE CASE IsPrimT(t) -> {[p |-> path, t |-> t]}
    [] t.k = "ptr" -> Sites(t.e, v.p, path)
    [] t.k \in {"slice", "array"} ->
         (IF path = <<>> THEN {} ELSE {[p |-> path, t |-> t]})
         \cup UNION {Sites(t.e, v.xs[i], Append(path, Ix(i-1))) : i \in 1..Len(v.xs)}
    [] t.k = "map" ->
         (IF path = <<>> \/ DOMAIN v.m = {} THEN {} ELSE {[p |-> path, t |-> t]})
         \cup UNION {Sites(t.e, v.m[q], Append(path, Nm(q))) : q \in DOMAIN v.m}
    [] t.k = "struct" ->
         (IF path = <<>> THEN {} ELSE {[p |-> path, t |-> t]})
         \cup UNION {LET f == t.f[i] IN
                     CASE f.mode = "ignore" -> {}
                       [] f.mode = "inline" -> Sites(f.t, v.f[i], path)
                       [] OTHER -> Sites(f.t, v.f[i], path \o Names(FieldPath(f))) : i \in 1..Len(t.f)}

Obj  == N([q \in {"zz"} |-> PN("1")], <<>>)
List1 == N(<<>>, <<PN("1")>>)
Flt(kind, tree) == [kind |-> kind, tree |-> tree]
RangeFault(k) ==
  CASE k = "int8" -> {PN("300"), PN("-129")}
    [] k = "int16" -> {PN("32768")}
    [] k = "int32" -> {PN("-2147483649")}
    [] k \in {"int64", "int"} -> {PN("9223372036854775808")}
    [] k = "uint8" -> {PN("256"), PN("-1")}
    [] k = "uint16" -> {PN("65536")}
    [] k = "uint32" -> {PN("4294967296")}
    [] k \in {"uint64", "uint"} -> {PN("-1")}
    [] k = "float32" -> {PN("1e+39")}
    [] OTHER -> {}
RefFaults == {Flt("reference", PS("${nope}")), Flt("reference", PS("x${nope.deeper}y"))}
FaultsFor(t, elemCount) ==
  CASE t.k \in NumKinds ->
         {Flt("conversion", PS("x")), Flt("type", Obj), Flt("type", List1 ) } \cup {Flt("range", x) : x \in RangeFault(t.k)} \cup RefFaults
    [] t.k = "bool" -> {Flt("conversion", PS("x")), Flt("type", PN("7")), Flt("type", Obj)} \cup RefFaults
    [] t.k = "string" -> {Flt("type", Obj)} \cup RefFaults
    [] t.k = "dur" -> {Flt("conversion", PS("x")), Flt("type", PB(TRUE)), Flt("type", Obj)} \cup RefFaults
    [] t.k = "re"  -> {Flt("conversion", PS("a(b")), Flt("type", Obj)} \cup RefFaults
    [] t.k = "ustr" -> {Flt("custom", PS("bad")), Flt("type", Obj)} \cup RefFaults
    [] t.k = "uany" -> {Flt("custom", PS("bad")), Flt("custom", Obj)} \cup RefFaults
    [] t.k = "struct" -> {Flt("type", PS("x")), Flt("type", PN("1"))}
    [] t.k = "map" -> {Flt("type", PS("x")), Flt("type", PB(TRUE))}
    [] t.k = "array" -> {Flt("length", N(<<>>, <<PN("1"), PN("2"), PN("3")>>))}
    [] t.k = "slice" -> {}
    [] OTHER -> {}

\* replace the setting at path p of tree
RECURSIVE Inject(_,_,_)
Inject(tree, p, new) ==
  IF p = <<>> THEN new
  ELSE IF "i" \in DOMAIN p[1]
       THEN N(tree.d, [j \in 1..Len(tree.a) |-> IF j = p[1].i + 1 THEN Inject(tree.a[j], Tail(p), new) ELSE tree.a[j]])
       ELSE N([q \in DOMAIN tree.d |-> IF q = p[1].n THEN Inject(tree.d[q], Tail(p), new) ELSE tree.d[q]], tree.a)
RECURSIVE HasPath(_,_)
HasPath(tree, p) ==
  IF p = <<>> THEN TRUE
  ELSE IF tree.k # "n" THEN FALSE
  ELSE IF "i" \in DOMAIN p[1] THEN p[1].i + 1 <= Len(tree.a) /\ HasPath(tree.a[p[1].i + 1], Tail(p))
  ELSE p[1].n \in DOMAIN tree.d /\ HasPath(tree.d[p[1].n], Tail(p))

\* the dotted path text of a site
RECURSIVE PathStr(_)
SegStr(sg) == IF "i" \in DOMAIN sg THEN ToString(sg.i) ELSE sg.n
PathStr(p) == IF p = <<>> THEN "" ELSE IF Len(p) = 1 THEN SegStr(p[1]) ELSE SegStr(p[1]) \o "." \o PathStr(Tail(p))

\* C14's statement
Outcome(site) == [err |-> [path |-> site.p, typed |-> TRUE, source |-> TRUE]]
==========================================================================
