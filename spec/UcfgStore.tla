---------------------------- MODULE UcfgStore ----------------------------
(* THE state machine of go-ucfg: a heap of Config nodes, the handles a client
   holds, and one transition function per public call (C10, C12, C15).

   heap : Id -> [d, a, dm, am, par, fld]
     d   dictionary part  [Key -> Val]         (fields.d)
     a   list part        Seq(Val)             (fields.a)
     dm  the dictionary map has been allocated (IsDict;  ucfg.go:112)
     am  the list has been allocated           (IsArray; ucfg.go:117)
     par, fld   Config.ctx: parent node id (0 = root) and stored field name
   Val : [k |-> "sub", id]                      a sub-config (by reference)
         [k |-> "p", ty, v, f]                  primitive with its stored field name
         [k |-> "nil", f]                       explicit nil with its stored field name
   handles : Seq(Id) -- the *Config pointers the client holds; aliasing between a
   child handle and its parent is two handles reaching the same id.

   Transcribes path.go (parsePathIdx, GetValue/Has/SetValue/Remove and the
   field accessors), getset.go, ucfg.go (fields.*, Path, Parent, FlattenedKeys),
   merge.go (mergeConfig* on the heap, normalize of embedded *Config),
   types.go (cfgSub.cpy, cfgSub.SetContext, cfgNil.toConfig), diff/keys.go.

   Deviations (D):
     "DetachKeepsCtx"        a removed / overwritten sub-config keeps its parent link
     "SetCtxOnlyIfEmpty"     attaching an already-parented config does not update its
                             position (cfgSub.SetContext's else branch has no effect)
     "CopyKeepsStoredFld"    cfgSub.cpy gives copied children the ORIGINAL's stored
                             field name instead of the key they are stored under
     "DelAtNoRenumber"       Remove from a list shifts elements without renumbering
     "MergeCopiesMergedNode" Merge stores a copy of the node it merged INTO: earlier
                             Child() handles are silently detached
     "PrependCopiesOld"      PrependValues rebuilds the list from copies of the old
                             elements too (same loss of the live view)
     "EmbedReparentsSource"  a root *Config embedded in a merged map/slice is
                             re-parented into the temporary normalised tree
     "NegativeIndexPanics"   a negative index reaches a slice access
     "RemoveBareError"       Remove through a primitive returns a bare error value
     "FlattenStickyDict"     FlattenedKeys lists only the dictionary part once a
                             dictionary was ever allocated (IsDict), even when the
                             node now only has list entries                      *)
EXTENDS UcfgValues

CONSTANTS MaxNodes, MaxArr        \* bounds used by the generators only

NoId == 0
Sub(id)         == [k |-> "sub", id |-> id]
LPrim(ty, v, f) == [k |-> "p", ty |-> ty, v |-> v, f |-> f]
LNil(f)         == [k |-> "nil", f |-> f]
EmptyNode       == [d |-> <<>>, a |-> <<>>, dm |-> FALSE, am |-> FALSE, par |-> NoId, fld |-> ""]
NodeAt(par, fld) == [EmptyNode EXCEPT !.par = par, !.fld = fld]
WithFld(v, f)   == IF v.k = "sub" THEN v ELSE [v EXCEPT !.f = f]
SameVal(x, y)   == IF x.k = "sub" \/ y.k = "sub" THEN x = y ELSE x.k = y.k /\ (x.k = "p" => x.ty = y.ty /\ x.v = y.v)

Err(e)   == [err |-> e]
Ok(v)    == [ok |-> v]
IsErr(r) == "err" \in DOMAIN r

(* ---- paths (path.go:47-107).  A name is a sequence of segments; whether a
   segment is an index is decided by UcfgPaths (C20); here a segment is given
   already classified: [s |-> text, i |-> n] with i = -1 for a plain name.     *)
SegField(sg) == IF sg.i >= 0 THEN IX(sg.i) ELSE NF(sg.s)
PathOf(name, idx) ==
  IF name = <<>> THEN <<IX(idx)>>
  ELSE LET fs == [j \in 1..Len(name) |-> SegField(name[j])]
       IN IF idx >= 0 THEN Append(fs, IX(idx)) ELSE fs
FldStr(f) == IF f.t = "n" THEN f.n ELSE ToString(f.i)

(* ---- reads ----------------------------------------------------------------- *)
\* field.GetValue (path.go:190-215): Ok(value) / Ok(None) / Err
FieldGet(D, H, f, elem) ==
  IF f.t = "n" THEN
     IF elem.k = "sub" THEN (IF f.n \in DOMAIN H[elem.id].d THEN Ok(H[elem.id].d[f.n]) ELSE Ok(None))
     ELSE IF elem.k = "nil" THEN Ok(None)
     ELSE Err("object")
  ELSE
     IF elem.k \in {"sub", "nil"} THEN
        LET arr == IF elem.k = "sub" THEN H[elem.id].a ELSE <<>> IN
        IF f.i < 0 THEN (IF "NegativeIndexPanics" \in D THEN Err("panic") ELSE Err("missing"))
        ELSE IF f.i >= Len(arr) THEN Err("missing")
        ELSE Ok(arr[f.i + 1])
     ELSE IF f.i = 0 THEN Ok(elem) ELSE Err("object")      \* a primitive is a list of length one

RECURSIVE GetWalk(_,_,_,_)
GetWalk(D, H, fs, cur) ==                \* all but the last field
  IF Len(fs) <= 1 THEN Ok(cur)
  ELSE LET r == FieldGet(D, H, fs[1], cur) IN
       IF IsErr(r) THEN r
       ELSE IF r.ok = None THEN Err("missing")
       ELSE GetWalk(D, H, Tail(fs), r.ok)

GetValue(D, H, root, fs) ==
  LET w == GetWalk(D, H, fs, Sub(root)) IN
  IF IsErr(w) THEN w
  ELSE LET r == FieldGet(D, H, fs[Len(fs)], w.ok) IN
       IF IsErr(r) THEN (IF r.err = "panic" THEN r ELSE Err("missing")) ELSE r

GetField(D, H, root, fs) ==
  LET r == GetValue(D, H, root, fs) IN
  IF IsErr(r) THEN r ELSE IF r.ok = None THEN Err("missing") ELSE r

RECURSIVE HasWalk(_,_,_,_)
HasWalk(D, H, fs, cur) ==
  IF fs = <<>> THEN Ok(TRUE)
  ELSE LET r == FieldGet(D, H, fs[1], cur) IN
       IF IsErr(r) THEN (IF r.err = "missing" THEN Ok(FALSE) ELSE r)
       ELSE IF r.ok = None THEN Ok(FALSE)
       ELSE HasWalk(D, H, Tail(fs), r.ok)
Has(D, H, root, fs) == HasWalk(D, H, fs, Sub(root))

\* String getter: the text of a primitive, "null" for nil, a conversion error for a sub-config
GetString(D, H, root, fs) ==
  LET r == GetField(D, H, root, fs) IN
  IF IsErr(r) THEN r
  ELSE IF r.ok.k = "p" THEN Ok(r.ok.v)
  ELSE IF r.ok.k = "nil" THEN Ok("null")
  ELSE Err("type")

\* CountField (getset.go:37-46): one top-level key, no path parsing
CountField(H, id, key) ==
  IF key = "" THEN Ok(Len(H[id].a) + Cardinality(DOMAIN H[id].d))
  ELSE IF key \notin DOMAIN H[id].d THEN Err("missing")
  ELSE LET v == H[id].d[key] IN
       IF v.k = "nil" THEN Ok(0)
       ELSE IF v.k = "p" THEN Ok(1)
       ELSE IF H[v.id].am THEN Ok(Len(H[v.id].a)) ELSE Ok(1)

(* ---- writes ---------------------------------------------------------------- *)
NextId(H) == Cardinality(DOMAIN H) + 1
WithNode(H, id, node) == [x \in DOMAIN H \cup {id} |-> IF x = id THEN node ELSE H[x]]

PadTo(a, n) == [i \in 1..n |-> IF i <= Len(a) THEN a[i] ELSE LNil(ToString(i-1))]
SetAtSeq(a, i, v) == LET b == IF i + 1 > Len(a) THEN PadTo(a, i+1) ELSE a IN [b EXCEPT ![i+1] = v]

Detach(D, H, oldv, newv) ==
  IF oldv.k = "sub" /\ oldv # newv /\ "DetachKeepsCtx" \notin D
  THEN [H EXCEPT ![oldv.id].par = NoId, ![oldv.id].fld = ""] ELSE H

\* fields.set / fields.setAt + v.SetContext (path.go:256-276)
FieldSet(D, H0, f, id, v0) ==
  LET oldv == IF f.t = "n" THEN (IF f.n \in DOMAIN H0[id].d THEN H0[id].d[f.n] ELSE LNil(""))
              ELSE (IF f.i < Len(H0[id].a) THEN H0[id].a[f.i+1] ELSE LNil(""))
      v  == WithFld(v0, FldStr(f))
      H  == Detach(D, H0, oldv, v)
      H1 == IF f.t = "n"
            THEN [H EXCEPT ![id].d = [key \in DOMAIN @ \cup {f.n} |-> IF key = f.n THEN v ELSE @[key]], ![id].dm = TRUE]
            ELSE [H EXCEPT ![id].a = SetAtSeq(@, f.i, v), ![id].am = TRUE]
  IN IF v.k = "sub" /\ ~("SetCtxOnlyIfEmpty" \in D /\ H1[v.id].par # NoId)
     THEN [H1 EXCEPT ![v.id].par = id, ![v.id].fld = FldStr(f)] ELSE H1

RECURSIVE SetWalk(_,_,_,_)
SetWalk(D, H, fs, node) ==          \* 1. walk while the next node exists and is not nil
  IF Len(fs) <= 1 THEN [node |-> node, rest |-> fs]
  ELSE LET r == FieldGet(D, H, fs[1], node) IN
       IF IsErr(r) THEN (IF r.err = "missing" THEN [node |-> node, rest |-> fs] ELSE r)
       ELSE IF r.ok = None \/ r.ok.k = "nil" THEN [node |-> node, rest |-> fs]
       ELSE SetWalk(D, H, Tail(fs), r.ok)

RECURSIVE Build(_,_,_,_)
Build(D, H, fs, v) ==               \* 2. intermediate nodes bottom-up
  IF Len(fs) <= 1 THEN [H |-> H, v |-> v]
  ELSE LET id == NextId(H)
           H1 == WithNode(H, id, EmptyNode)
           H2 == FieldSet(D, H1, fs[Len(fs)], id, v)
       IN Build(D, H2, SubSeq(fs, 1, Len(fs)-1), Sub(id))

\* an index step must lie in 0..MaxIdx (the default of the MaxIdx option): a negative or huge idx ARGUMENT of a setter
\* is an index error, never a list of that length ("SetIdxUnbounded": repaired)
DefaultMaxIdx == 1024
NegIdx(fs) == \E j \in 1..Len(fs) : fs[j].t = "i" /\ (fs[j].i < 0 \/ fs[j].i > DefaultMaxIdx)
SetValue(D, H, root, fs, v) ==
  LET w == SetWalk(D, H, fs, Sub(root)) IN
  IF IsErr(w) THEN [H |-> H, err |-> w.err]
  ELSE IF NegIdx(Tail(w.rest)) THEN [H |-> H, err |-> IF "NegativeIndexPanics" \in D THEN "panic" ELSE "index"]
  ELSE IF w.node.k # "sub" THEN [H |-> H, err |-> "object"]
  ELSE IF NegIdx(w.rest) THEN [H |-> H, err |-> IF "NegativeIndexPanics" \in D THEN "panic" ELSE "index"]
  ELSE LET b == Build(D, H, w.rest, v) IN
       [H |-> FieldSet(D, b.H, w.rest[1], w.node.id, b.v), err |-> "none"]
\* size of the result, for the generators' bounds
SetGrowth(D, H, root, fs) ==
  LET w == SetWalk(D, H, fs, Sub(root)) IN IF IsErr(w) THEN 0 ELSE Len(w.rest) - 1
SetMaxIdx(fs) == LET is == {fs[j].i : j \in {x \in 1..Len(fs) : fs[x].t = "i"}} IN
                 IF is = {} THEN -1 ELSE CHOOSE m \in is : \A x \in is : x <= m

DelAt(a, i) == [j \in 1..(Len(a)-1) |-> IF j <= i THEN a[j] ELSE a[j+1]]
Renumber(D, H, id, from) ==  \* after delAt(from): the shifted elements record their new index
  IF "DelAtNoRenumber" \in D THEN H
  ELSE LET a  == H[id].a
           \* an element is renumbered when it recorded the position it moved away from (for a
           \* sub-config that is attached here this is exactly "its parent is this node")
           mv(j) == j > from /\ (IF a[j].k = "sub" THEN H[a[j].id].fld ELSE a[j].f) = ToString(j)
           H1 == [H EXCEPT ![id].a = [j \in 1..Len(a) |-> IF mv(j) THEN WithFld(a[j], ToString(j-1)) ELSE a[j]]]
       IN [x \in DOMAIN H1 |->
             IF \E j \in 1..Len(a) : a[j] = Sub(x) /\ mv(j)
             THEN [H1[x] EXCEPT !.fld = ToString((CHOOSE j \in 1..Len(a) : a[j] = Sub(x) /\ mv(j)) - 1)]
             ELSE H1[x]]

Remove(D, H, root, fs) ==
  LET w == GetWalk(D, H, fs, Sub(root)) IN
  IF IsErr(w) THEN (IF w.err = "missing" THEN [H |-> H, r |-> Ok(FALSE)] ELSE [H |-> H, r |-> w])
  ELSE LET cur == w.ok f == fs[Len(fs)] IN
     IF cur.k = "p" THEN [H |-> H, r |-> Err(IF "RemoveBareError" \in D THEN "bare" ELSE "object")]
     ELSE IF cur.k = "nil" THEN [H |-> H, r |-> Ok(FALSE)]
     ELSE LET id == cur.id IN
       IF f.t = "n" THEN
          IF f.n \in DOMAIN H[id].d
          THEN LET old == H[id].d[f.n]
                   H1  == [H EXCEPT ![id].d = [key \in DOMAIN @ \ {f.n} |-> @[key]]]
               IN [H |-> Detach(D, H1, old, LNil("")), r |-> Ok(TRUE)]
          ELSE [H |-> H, r |-> Ok(FALSE)]
       ELSE
          IF f.i >= 0 /\ f.i < Len(H[id].a)
          THEN LET old == H[id].a[f.i+1]
                   H1  == [H EXCEPT ![id].a = DelAt(@, f.i)]
                   H2  == Detach(D, H1, old, LNil(""))
               IN [H |-> Renumber(D, H2, id, f.i), r |-> Ok(TRUE)]
          ELSE [H |-> H, r |-> Ok(FALSE)]

(* ---- deep copy (types.go:328-354) -------------------------------------------- *)
RECURSIVE CopyVal(_,_,_,_,_), CopyDict(_,_,_,_,_), CopyArr(_,_,_,_,_)
CopyVal(D, H, v, par, fld) ==
  IF v.k # "sub" THEN [H |-> H, v |-> WithFld(v, fld)]
  ELSE LET id == NextId(H)
           H1 == WithNode(H, id, [NodeAt(par, fld) EXCEPT !.am = H[v.id].am])
           H2 == CopyDict(D, H1, v.id, id, DOMAIN H[v.id].d)
           H3 == CopyArr(D, H2, v.id, id, 1)
       IN [H |-> H3, v |-> Sub(id)]
StoredFld(H, child) == IF child.k = "sub" THEN H[child.id].fld ELSE child.f
CopyDict(D, H, src, dst, keys) ==
  IF keys = {} THEN H
  ELSE LET key   == CHOOSE x \in keys : TRUE
           child == H[src].d[key]
           cfld  == IF "CopyKeepsStoredFld" \in D THEN StoredFld(H, child) ELSE key
           c     == CopyVal(D, H, child, dst, cfld)
           H2    == [c.H EXCEPT ![dst].d = [x \in DOMAIN @ \cup {key} |-> IF x = key THEN c.v ELSE @[x]], ![dst].dm = TRUE]
       IN CopyDict(D, H2, src, dst, keys \ {key})
CopyArr(D, H, src, dst, i) ==
  IF i > Len(H[src].a) THEN H
  ELSE LET child == H[src].a[i]
           cfld  == IF "CopyKeepsStoredFld" \in D THEN StoredFld(H, child) ELSE ToString(i-1)
           c     == CopyVal(D, H, child, dst, cfld)
           H2    == [c.H EXCEPT ![dst].a = Append(@, c.v)]
       IN CopyArr(D, H2, src, dst, i+1)

(* ---- merge on the heap (merge.go:86-253) ------------------------------------- *)
HToCfgOk(v) == v.k \in {"sub", "nil"}
\* value.toConfig: a sub-config itself; nil -> a FRESH empty config carrying the nil's position
AsNode(H, v, par) ==
  IF v.k = "sub" THEN [H |-> H, id |-> v.id]
  ELSE LET id == NextId(H) IN [H |-> WithNode(H, id, NodeAt(par, v.f)), id |-> id]

StoreAt(H, to, pos, v) ==
  IF pos.t = "n" THEN [H EXCEPT ![to].d = [x \in DOMAIN @ \cup {pos.n} |-> IF x = pos.n THEN v ELSE @[x]], ![to].dm = TRUE]
  ELSE [H EXCEPT ![to].a = SetAtSeq(@, pos.i, v), ![to].am = TRUE]

RECURSIVE MergeNodes(_,_,_,_,_), MergeKeys(_,_,_,_,_,_), MergeIdx(_,_,_,_,_,_)
\* mergeValues + `to.fields.set(k, merged.cpy(ctx))`
MergeOne(D, H, to, pos, old, v, pol) ==
  \* (two nils are no containers: the new nil replaces the old one - "NilNilBecomesObject", repaired)
  IF old = None \/ ~HToCfgOk(old) \/ ~HToCfgOk(v) \/ (old.k = "nil" /\ v.k = "nil") THEN
       LET c  == CopyVal(D, H, v, to, FldStr(pos))
           H1 == IF old = None THEN c.H ELSE Detach(D, c.H, old, c.v)
       IN StoreAt(H1, to, pos, c.v)
  ELSE LET o  == AsNode(H, old, to)
           s  == AsNode(o.H, v, NoId)
           Hm == MergeNodes(D, s.H, o.id, s.id, pol)
       IN IF old.k = "sub" /\ "MergeCopiesMergedNode" \notin D
          THEN Hm                                                   \* merged in place, node kept
          ELSE LET c  == CopyVal(D, Hm, Sub(o.id), to, FldStr(pos))
                   H1 == IF old.k = "sub" THEN Detach(D, c.H, old, c.v) ELSE c.H
               IN StoreAt(H1, to, pos, c.v)

MergeKeys(D, H, to, fd, keys, pol) ==
  IF keys = {} THEN H
  ELSE LET key == CHOOSE x \in keys : TRUE
           old == IF key \in DOMAIN H[to].d THEN H[to].d[key] ELSE None
           H2  == MergeOne(D, H, to, NF(key), old, fd[key], pol)
       IN MergeKeys(D, H2, to, fd, keys \ {key}, pol)

MergeIdx(D, H, to, fa, i, pol) ==         \* index-wise on the common prefix
  IF i > Len(fa) \/ i > Len(H[to].a) THEN H
  ELSE MergeIdx(D, MergeOne(D, H, to, IX(i-1), H[to].a[i], fa[i], pol), to, fa, i+1, pol)

RECURSIVE AppendAll(_,_,_,_,_)
AppendAll(D, H, to, vals, i) ==           \* fields.append: copies with fresh positions
  IF i > Len(vals) THEN H
  ELSE LET c == CopyVal(D, H, vals[i], to, ToString(Len(H[to].a)))
       IN AppendAll(D, [c.H EXCEPT ![to].a = Append(@, c.v), ![to].am = TRUE], to, vals, i+1)

RECURSIVE DetachAll(_,_,_,_)
DetachAll(D, H, vals, i) == IF i > Len(vals) THEN H ELSE DetachAll(D, Detach(D, H, vals[i], LNil("")), vals, i+1)

\* old elements on prepend: (code) copied like the new ones; (ideal) kept, renumbered
RECURSIVE MoveAll(_,_,_,_)
MoveAll(H, to, vals, i) ==
  IF i > Len(vals) THEN H
  ELSE LET pos  == Len(H[to].a)
           v0   == vals[i]
           mv   == (IF v0.k = "sub" THEN H[v0.id].fld ELSE v0.f) = ToString(i-1)
           v    == IF mv THEN WithFld(v0, ToString(pos)) ELSE v0
           H1   == [H EXCEPT ![to].a = Append(@, v)]
           H2   == IF v.k = "sub" /\ mv THEN [H1 EXCEPT ![v.id].fld = ToString(pos)] ELSE H1
       IN MoveAll(H2, to, vals, i+1)

EffPol(p) == IF p = "merge" THEN "default" ELSE p
MergeNodes(D, H, to, from, pol0) ==
  LET pol == EffPol(pol0)
      fd  == H[from].d              \* snapshot of the source (self-merge!)
      fa  == H[from].a
      \* dictionary step
      H0  == IF DOMAIN fd # {} /\ pol = "replace"
             THEN LET olds == H[to].d IN
                  [x \in DOMAIN H |->
                     IF x = to THEN [H[x] EXCEPT !.d = <<>>]
                     ELSE IF "DetachKeepsCtx" \notin D /\ \E key \in DOMAIN olds : olds[key] = Sub(x)
                          THEN [H[x] EXCEPT !.par = NoId, !.fld = ""] ELSE H[x]]
             ELSE H
      H1  == MergeKeys(D, H0, to, fd, DOMAIN fd, pol)
      ta  == H1[to].a
  IN \* list step
     CASE pol \in {"replace", "arrreplace"} ->
            IF fa = <<>> THEN H1
            ELSE AppendAll(D, DetachAll(D, [H1 EXCEPT ![to].a = <<>>], ta, 1), to, fa, 1)
       [] pol = "append"  -> AppendAll(D, H1, to, fa, 1)
       [] pol = "prepend" ->
            IF fa = <<>> THEN H1
            ELSE LET H2 == AppendAll(D, [H1 EXCEPT ![to].a = <<>>], to, fa, 1) IN
                 IF "PrependCopiesOld" \in D
                 THEN DetachAll(D, AppendAll(D, H2, to, ta, 1), ta, 1)
                 ELSE MoveAll(H2, to, ta, 1)
       [] OTHER ->
            LET H2 == MergeIdx(D, H1, to, fa, 1, pol) IN
            IF Len(fa) > Len(ta) THEN AppendAll(D, H2, to, SubSeq(fa, Len(ta)+1, Len(fa)), 1) ELSE H2

(* ---- fragments: the Go values handed to Merge; may embed a held *Config ------
   [f |-> "p", ty, v] | [f |-> "nil"] | [f |-> "m", m |-> [Key -> frag]]
   | [f |-> "l", l |-> Seq(frag)] | [f |-> "cfg", h |-> handle index]
   | [f |-> "cs", h, key, sub, v]  an ordered struct: embedded config + dotted sibling below it   *)
RECURSIVE NormFrag(_,_,_,_,_,_), NormMap(_,_,_,_,_,_), NormList(_,_,_,_,_,_)
NormFrag(D, H, handles, fr, par, fld) ==
  CASE fr.f = "p"   -> [H |-> H, v |-> LPrim(fr.ty, fr.v, fld)]
    [] fr.f = "nil" -> [H |-> H, v |-> LNil(fld)]
    [] fr.f = "cfg" ->
         LET id == handles[fr.h] IN
         IF "EmbedReparentsSource" \in D
         THEN (IF H[id].par = NoId /\ par # NoId
               THEN [H |-> [H EXCEPT ![id].par = par, ![id].fld = fld], v |-> Sub(id)]
               ELSE [H |-> H, v |-> Sub(id)])
         ELSE CopyVal(D, H, Sub(id), par, fld)          \* (ideal) an independent copy is embedded
    [] fr.f = "cs" ->
         \* struct{ F0 *Config `config:"<key>"`; F1 string `config:"<key>.<sub>"` }: the embedded config is
         \* visited first, then a dotted sibling that lands INSIDE it - inside the embedded COPY, never in
         \* the caller's config
         LET id == NextId(H)
             H1 == WithNode(H, id, NodeAt(par, fld))
             c  == CopyVal(D, H1, Sub(handles[fr.h]), id, fr.key)
             H2 == [c.H EXCEPT ![id].d = (fr.key :> c.v), ![id].dm = TRUE]
             H3 == [H2 EXCEPT ![c.v.id].d = [x \in DOMAIN @ \cup {fr.sub} |-> IF x = fr.sub THEN LPrim("s", fr.v, fr.sub) ELSE @[x]],
                              ![c.v.id].dm = TRUE]
         IN [H |-> H3, v |-> Sub(id)]
    [] fr.f = "dk" ->
         \* map{ "<k1>.<k2>": v } under a path separator: the dotted key creates the intermediate k1; the value
         \* is recorded under the name k2 with the intermediate as its parent
         LET id  == NextId(H)
             H1  == WithNode(H, id, NodeAt(par, fld))
             mid == NextId(H1)
             H2  == WithNode(H1, mid, NodeAt(id, fr.k1))
             r   == NormFrag(D, H2, handles, fr.val, mid, fr.k2)
             H3  == [r.H EXCEPT ![mid].d = (fr.k2 :> r.v), ![mid].dm = TRUE, ![id].d = (fr.k1 :> Sub(mid)), ![id].dm = TRUE]
         IN [H |-> H3, v |-> Sub(id)]
    [] fr.f = "m" ->
         LET id == NextId(H) IN
         [H |-> NormMap(D, WithNode(H, id, NodeAt(par, fld)), handles, fr.m, id, DOMAIN fr.m), v |-> Sub(id)]
    [] fr.f = "l" ->
         LET id == NextId(H) IN
         [H |-> NormList(D, WithNode(H, id, [NodeAt(par, fld) EXCEPT !.am = TRUE]), handles, fr.l, id, 1), v |-> Sub(id)]
NormMap(D, H, handles, m, id, keys) ==
  IF keys = {} THEN H
  ELSE LET key == CHOOSE x \in keys : TRUE
           r   == NormFrag(D, H, handles, m[key], id, key)
           H2  == [r.H EXCEPT ![id].d = [x \in DOMAIN @ \cup {key} |-> IF x = key THEN r.v ELSE @[x]], ![id].dm = TRUE]
       IN NormMap(D, H2, handles, m, id, keys \ {key})
NormList(D, H, handles, l, id, i) ==
  IF i > Len(l) THEN H
  ELSE LET r == NormFrag(D, H, handles, l[i], id, ToString(i-1))
       IN NormList(D, [r.H EXCEPT ![id].a = Append(@, r.v)], handles, l, id, i+1)

\* dst.Merge(fragment): a *Config is used as is, anything else is normalised first
MergeFrag(D, H, handles, dst, fr, pol) ==
  IF fr.f = "cfg" THEN MergeNodes(D, H, handles[dst], handles[fr.h], pol)
  ELSE LET r == NormFrag(D, H, handles, fr, NoId, "") IN MergeNodes(D, r.H, handles[dst], r.v.id, pol)

(* ---- Path / Parent / FlattenedKeys / diff ------------------------------------ *)
RECURSIVE PathB(_,_,_)
PathB(H, id, n) ==
  IF H[id].fld = "" THEN <<>>
  ELSE IF H[id].par = NoId THEN <<H[id].fld>>
  ELSE IF n = 0 THEN <<"CYCLE">>
  ELSE Append(PathB(H, H[id].par, n-1), H[id].fld)
\* context.path (types.go:137-150): empty stored field => "" ; parent path + field
PathSegs(H, id) == PathB(H, id, Cardinality(DOMAIN H))
RECURSIVE JoinDot(_)
JoinDot(p) == IF p = <<>> THEN "" ELSE IF Len(p) = 1 THEN p[1] ELSE p[1] \o "." \o JoinDot(Tail(p))

RECURSIVE Flat(_,_,_,_)
Flat(D, H, id, n) ==
  IF n = 0 THEN {"CYCLE"} ELSE
  LET vals == IF "FlattenStickyDict" \in D
              THEN (IF H[id].dm THEN {H[id].d[key] : key \in DOMAIN H[id].d}
                    ELSE {H[id].a[i] : i \in 1..Len(H[id].a)})
              ELSE (IF DOMAIN H[id].d # {} THEN {H[id].d[key] : key \in DOMAIN H[id].d}
                    ELSE {H[id].a[i] : i \in 1..Len(H[id].a)})
  IN UNION { IF v.k = "sub" THEN Flat(D, H, v.id, n-1)
             ELSE IF v.k = "nil" THEN {}
             ELSE {JoinDot(Append(PathSegs(H, id), v.f))} : v \in vals }
FlattenedKeys(D, H, id) == Flat(D, H, id, Cardinality(DOMAIN H))
Compare(D, H, old, new) ==
  LET o == FlattenedKeys(D, H, old) n == FlattenedKeys(D, H, new) IN
  [removed |-> o \ n, added |-> n \ o, kept |-> o \cap n]

(* ---- projection: what the harness can observe through the public API ---------- *)
RECURSIVE Tree(_,_,_)
Tree(H, v, n) ==
  IF v.k = "nil" THEN Nil
  ELSE IF v.k = "p" THEN P(v.ty, v.v)
  ELSE IF n = 0 THEN S("CYCLE")
  ELSE N([key \in DOMAIN H[v.id].d |-> Tree(H, H[v.id].d[key], n-1)],
         [i \in 1..Len(H[v.id].a) |-> Tree(H, H[v.id].a[i], n-1)])
TreeOf(H, id) == Tree(H, Sub(id), Cardinality(DOMAIN H))

\* access paths (sequences of field strings) at which node `target` is reachable from `from`
RECURSIVE PathsTo(_,_,_,_)
PathsTo(H, from, target, depth) ==
  (IF from = target THEN {<<>>} ELSE {}) \cup
  (IF depth = 0 THEN {}
   ELSE UNION ({ {<<key>> \o p : p \in PathsTo(H, H[from].d[key].id, target, depth-1)} :
                    key \in {x \in DOMAIN H[from].d : H[from].d[x].k = "sub"} }
        \cup { {<<ToString(i-1)>> \o p : p \in PathsTo(H, H[from].a[i].id, target, depth-1)} :
                    i \in {x \in 1..Len(H[from].a) : H[from].a[x].k = "sub"} }))

\* sub-configs reachable from id (by dotted access path) whose recorded parent is NOT the node that holds them:
\* Parent() "is the node that actually contains it" (C15), and a copy made by Merge belongs to the destination (C10)
RECURSIVE BadUp(_,_,_,_)
BadUp(H, id, pre, depth) ==
  IF depth = 0 THEN {}
  ELSE UNION ({ LET x == H[id].d[key].id
                    p == IF pre = "" THEN key ELSE pre \o "." \o key IN
                (IF H[x].par # id THEN {p} ELSE {}) \cup BadUp(H, x, p, depth - 1) :
                   key \in {y \in DOMAIN H[id].d : H[id].d[y].k = "sub"} }
         \cup { LET x == H[id].a[i].id
                    p == IF pre = "" THEN ToString(i - 1) ELSE pre \o "." \o ToString(i - 1) IN
                (IF H[x].par # id THEN {p} ELSE {}) \cup BadUp(H, x, p, depth - 1) :
                   i \in {y \in 1..Len(H[id].a) : H[id].a[y].k = "sub"} })

(* ---- operations and the transition function ------------------------------------
   st = [H, hs]; Apply returns [st, res]                                           *)
ResOfErr(e) == IF e = "none" THEN "ok" ELSE IF e = "panic" THEN "panic" ELSE "err:" \o e
Apply(D, st, op) ==
  LET H == st.H hs == st.hs IN
  CASE op.op = "set" ->
         LET r == SetValue(D, H, hs[op.h], PathOf(op.name, op.idx), LPrim(op.ty, op.v, "")) IN
         [st |-> [H |-> r.H, hs |-> hs], res |-> ResOfErr(r.err)]
    [] op.op = "setchild" ->
         LET r == SetValue(D, H, hs[op.h], PathOf(op.name, op.idx), Sub(hs[op.j])) IN
         [st |-> [H |-> r.H, hs |-> hs], res |-> ResOfErr(r.err)]
    [] op.op = "remove" ->
         LET r == Remove(D, H, hs[op.h], PathOf(op.name, op.idx)) IN
         [st |-> [H |-> r.H, hs |-> hs],
          res |-> IF IsErr(r.r) THEN ResOfErr(r.r.err) ELSE IF r.r.ok THEN "true" ELSE "false"]
    [] op.op = "child" ->
         LET r == GetField(D, H, hs[op.h], PathOf(op.name, op.idx)) IN
         \* on failure the handle list still grows (by an alias of h) so that indices stay aligned
         IF IsErr(r) THEN [st |-> [H |-> H, hs |-> Append(hs, hs[op.h])], res |-> ResOfErr(r.err)]
         ELSE IF r.ok.k = "p" THEN [st |-> [H |-> H, hs |-> Append(hs, hs[op.h])], res |-> "err:type"]
         ELSE LET w == GetWalk(D, H, PathOf(op.name, op.idx), Sub(hs[op.h]))
                  o == AsNode(H, r.ok, IF w.ok.k = "sub" THEN w.ok.id ELSE NoId)
              IN [st |-> [H |-> o.H, hs |-> Append(hs, o.id)], res |-> "ok"]
    [] op.op = "parent" ->
         IF H[hs[op.h]].par = NoId THEN [st |-> [H |-> H, hs |-> Append(hs, hs[op.h])], res |-> "nil"]
         ELSE [st |-> [H |-> H, hs |-> Append(hs, H[hs[op.h]].par)], res |-> "ok"]
    [] op.op = "merge" ->
         \* the dotted sibling of a "cs" fragment meets a setting the embedded config already has: duplicate key
         IF op.fr.f = "cs" /\ op.fr.sub \in DOMAIN H[hs[op.fr.h]].d /\ H[hs[op.fr.h]].d[op.fr.sub].k # "nil"
         THEN [st |-> st, res |-> "err:duplicate"]
         ELSE [st |-> [H |-> MergeFrag(D, H, hs, op.h, op.fr, op.pol), hs |-> hs], res |-> "ok"]

(* projection of a state.  Components are selected by the property under check. *)
AllComps == {"obs", "path", "kind", "flat", "at", "sweep", "count", "cmp", "up"}
HandleProj(D, H, hs, i, addrs, comps) ==
  LET id == hs[i]
      on(c, v, dflt) == IF c \in comps THEN v ELSE dflt IN
  [ obs    |-> IF "obs" \in comps THEN ObsTop(TreeOf(H, id)) ELSE <<>>,
    path   |-> IF "path" \in comps THEN JoinDot(PathSegs(H, id)) ELSE "",
    isroot |-> IF "path" \in comps THEN H[id].par = NoId ELSE FALSE,
    isdict |-> IF "kind" \in comps THEN H[id].dm ELSE FALSE,
    isarr  |-> IF "kind" \in comps THEN H[id].am ELSE FALSE,
    flat   |-> IF "flat" \in comps THEN FlattenedKeys(D, H, id) ELSE {},
    at     |-> IF "at" \in comps THEN [j \in 1..Len(hs) |-> PathsTo(H, id, hs[j], 4)] ELSE <<>>,
    up     |-> IF "up" \in comps THEN BadUp(H, id, "", 4) ELSE {},
    sweep  |-> IF "sweep" \notin comps THEN <<>> ELSE
               LET full == [x \in DOMAIN addrs |->
                              LET fs == PathOf(addrs[x].name, addrs[x].idx)
                                  g  == GetString(D, H, id, fs)
                                  h  == Has(D, H, id, fs)
                              IN (IF IsErr(g) THEN "e:" \o g.err ELSE "v:" \o g.ok) \o "|" \o
                                 (IF IsErr(h) THEN "e:" \o h.err ELSE IF h.ok THEN "T" ELSE "F")]
               IN \* only the entries that differ from the default answer are carried
                  [x \in {y \in DOMAIN full : full[y] # "e:missing|F"} |-> full[x]],
    count  |-> IF "count" \notin comps THEN <<>> ELSE
               [key \in {""} \cup DOMAIN H[id].d |->
                  LET c == CountField(H, id, key) IN IF IsErr(c) THEN -1 ELSE c.ok] ]
ProjC(D, st, addrs, comps) ==
  [ h   |-> [i \in 1..Len(st.hs) |-> HandleProj(D, st.H, st.hs, i, addrs, comps)],
    cmp |-> IF "cmp" \in comps /\ Len(st.hs) >= 2 THEN Compare(D, st.H, st.hs[1], st.hs[2])
            ELSE [removed |-> {}, added |-> {}, kept |-> {}] ]
Proj(D, st, addrs) == ProjC(D, st, addrs, AllComps)

(* ---- declarative invariants (C15, C12) ------------------------------------------ *)
Stores(H, p, fld, id) ==
  \/ fld \in DOMAIN H[p].d /\ H[p].d[fld] = Sub(id)
  \/ \E i \in 1..Len(H[p].a) : ToString(i-1) = fld /\ H[p].a[i] = Sub(id)
Reachable(H, roots) ==
  LET RECURSIVE R(_,_)
      R(X, n) == IF n = 0 THEN X
                 ELSE R(X \cup UNION {{H[x].d[key].id : key \in {q \in DOMAIN H[x].d : H[x].d[q].k = "sub"}}
                                       \cup {H[x].a[i].id : i \in {q \in 1..Len(H[x].a) : H[x].a[q].k = "sub"}} : x \in X}, n-1)
  IN R(roots, Cardinality(DOMAIN H))
\* every parent link is true: the parent really stores the node under the recorded field
CtxConsistent(H) == \A id \in DOMAIN H : H[id].par # NoId => Stores(H, H[id].par, H[id].fld, id)
\* every stored sub-config knows its position (no stale or missing links below a held handle)
ChildrenKnowParent(H, hs) ==
  \A p \in Reachable(H, {hs[i] : i \in 1..Len(hs)}) :
     /\ \A key \in DOMAIN H[p].d : LET v == H[p].d[key] IN
           IF v.k = "sub" THEN H[v.id].par = p /\ H[v.id].fld = key ELSE v.f = key
     /\ \A i \in 1..Len(H[p].a) : LET v == H[p].a[i] IN
           IF v.k = "sub" THEN H[v.id].par = p /\ H[v.id].fld = ToString(i-1) ELSE v.f = ToString(i-1)
==========================================================================
