---------------------------- MODULE UcfgMerge ----------------------------
(* Merge policies of go-ucfg on abstract trees (C01) and the per-field policy
   tree (C16).  Transcribes merge.go:86-253 (mergeConfig, mergeConfigDict,
   mergeConfigArr and its four list strategies, mergeValues) and
   merge.go:532-584 + opts.go:344-362 (fieldOptsOverride, includeWildcard,
   fieldHandling).

   Every operator takes the deviation set D: D = {} is the Ideal layer that
   satisfies the listed properties; a named deviation reproduces the
   implementation where it is known not to.

   Deviations of this module
     "PolicyTreeNotDescended"  fieldOptsOverride keeps the current policy tree
          when a named key has no entry in it, so an option for `b` also
          matches `a.b` (observation #16).                                     *)
EXTENDS UcfgValues

Pols  == {"default", "replace", "arrreplace", "append", "prepend"}   \* global options
FPols == {"merge", "replace", "append", "prepend"}                   \* Field*Values options
EffPol(p) == IF p = "merge" THEN "default" ELSE p

(* ---- the per-field policy tree ------------------------------------------
   NoT = no tree (options.fieldHandlingTree == nil).  A tree is a node whose
   "*" entries are policy leaves.                                            *)
NoT    == [k |-> "not"]
Pol(p) == [k |-> "pol", p |-> p]

PadNil(n) == [i \in 1..n |-> Nil]
RECURSIVE MkTree(_,_)
MkTree(path, p) ==
  IF path = <<>> THEN N(("*" :> Pol(p)), <<>>)
  ELSE IF path[1].t = "n" THEN N((path[1].n :> MkTree(Tail(path), p)), <<>>)
  ELSE N(<<>>, Append(PadNil(path[1].i), MkTree(Tail(path), p)))

(* t.child(name, idx): Config.Child -> a sub-config, an empty config for a nil
   entry, an error (NoT) for a missing entry or a primitive                   *)
TEntry(t, s) == IF t = NoT THEN None ELSE StepGet(t, s)
TChild(t, s) ==
  LET e == TEntry(t, s) IN
  IF e = None THEN NoT
  ELSE IF e.k = "n" THEN e
  ELSE IF e.k = "nil" THEN Empty
  ELSE NoT
HasStar(c) == c # NoT /\ "*" \in DOMAIN c.d /\ c.d["*"].k = "pol"

RECURSIVE FieldHandling(_,_)
FieldHandling(t, s) ==
  LET c == TChild(t, s) IN
  IF HasStar(c) THEN [pol |-> c.d["*"].p, child |-> c, ok |-> TRUE]
  ELSE LET w == TChild(t, NF("**")) IN
       IF w = NoT THEN [pol |-> "default", child |-> c, ok |-> FALSE]
       ELSE LET r == FieldHandling(w, s) IN
            IF r.ok THEN r ELSE [pol |-> "default", child |-> c, ok |-> FALSE]

IncludeWildcard(child, parent) ==
  LET w == TChild(parent, NF("**")) IN
  IF w = NoT THEN child
  ELSE IF child = NoT /\ Cardinality(DOMAIN parent.d) = 1 THEN parent
  ELSE LET base == IF child = NoT THEN Empty ELSE child IN
       [base EXCEPT !.d = [key \in DOMAIN base.d \cup {"**"} |-> IF key = "**" THEN w ELSE base.d[key]]]

(* opts = [pol, t].  real = TRUE for a step through an actual key of the data;
   the "*" step of the list strategy and index steps never end the scope.     *)
Override(D, opts, s, real) ==
  IF opts.t = NoT THEN opts
  ELSE LET h     == FieldHandling(opts.t, s)
           child == IncludeWildcard(h.child, opts.t)
       IN IF h.ok THEN [pol |-> h.pol, t |-> child]
          ELSE IF child # NoT THEN [opts EXCEPT !.t = child]
          ELSE IF real /\ s.t = "n" /\ "PolicyTreeNotDescended" \notin D
               THEN [opts EXCEPT !.t = NoT]        \* (ideal) nothing below this key is named
               ELSE opts                             \* (code) keeps matching below

(* ---- merge ---------------------------------------------------------------- *)
RECURSIVE MergeCfg(_,_,_,_)
MergeVal(D, opts, old, v) ==
  IF old = None THEN v
  ELSE IF old.k = "nil" /\ v.k = "nil" THEN v            \* two nils are not containers: nil stays nil ("NilNilBecomesObject": repaired)
  ELSE IF ~ToCfgOk(old) \/ ~ToCfgOk(v) THEN v
  ELSE MergeCfg(D, opts, AsCfg(old), AsCfg(v))

MergeCfg(D, opts, to, from) ==
  LET pol == EffPol(opts.pol)
      fd  == from.d
      td  == to.d
      \* dictionary step (mergeConfigDict)
      nd  == IF DOMAIN fd = {} THEN td
             ELSE LET base == IF pol = "replace" THEN <<>> ELSE td IN
                  [key \in DOMAIN base \cup DOMAIN fd |->
                     IF key \in DOMAIN fd
                       THEN MergeVal(D, Override(D, opts, NF(key), TRUE),
                                     IF key \in DOMAIN base THEN base[key] ELSE None, fd[key])
                       ELSE base[key]]
      \* list step (mergeConfigArr): strategy chosen BEFORE the "*" override
      fa  == from.a
      ta  == to.a
      so  == Override(D, opts, NF("*"), FALSE)
      na  == CASE pol \in {"replace", "arrreplace"} -> IF fa = <<>> THEN ta ELSE fa
               [] pol = "append"  -> ta \o fa
               [] pol = "prepend" -> IF fa = <<>> THEN ta ELSE fa \o ta
               [] OTHER ->
                    [i \in 1..Max(Len(ta), Len(fa)) |->
                       IF i <= Len(ta) /\ i <= Len(fa)
                         THEN MergeVal(D, Override(D, so, IX(i-1), TRUE), ta[i], fa[i])
                       ELSE IF i <= Len(ta) THEN ta[i] ELSE fa[i]]
  IN N(nd, na)

(* options: global policy + list of per-field options [path, pol] (given after
   PathSep, so dotted names are already split into steps)                     *)
NoOpts(pol) == [pol |-> pol, t |-> NoT]
RECURSIVE FoldFieldOpts(_,_)
FoldFieldOpts(t, fos) ==
  IF fos = <<>> THEN t
  ELSE LET one == MkTree(fos[1].path, fos[1].pol)
           t2  == IF t = NoT THEN one ELSE MergeCfg({}, NoOpts("default"), t, one)
       IN FoldFieldOpts(t2, Tail(fos))
MkOpts(pol, fos) == [pol |-> pol, t |-> FoldFieldOpts(NoT, fos)]

Merge(D, pol, fos, a, b) == MergeCfg(D, MkOpts(pol, fos), a, b)
==========================================================================
