---------------------------- MODULE Gen_Merge ----------------------------
(* Direction A for the merge family (C01, C16, C09): TLC enumerates a bounded
   universe of (destination, source, policy, per-field options) and prints one
   replayable case per evaluated transition.  Each case carries the expected
   observation under the Ideal layer and, where they differ, under the sets
   of currently listed deviations (Known, from known_findings.json).        *)
EXTENDS UcfgMerge, MergeUniverses, Layers, Json, SequencesExt

CONSTANTS UA, UB, PolSet, FosSet    \* universe

VARIABLES a, ph, cs
vars == <<a, ph, cs>>
\* cached aliases: a constant bound with `<-` in the .cfg is re-evaluated on every use, a definition is not
cUA == UA
cUB == UB
cPolSet == PolSet
cFosSet == FosSet



\* references are late bound: after the merge a reference denotes what its target holds THEN
RECURSIVE Retarget(_,_)
Retarget(t, root) ==
  IF t.k = "alias" THEN (IF t.to \in DOMAIN root.d THEN Alias(t.to, root.d[t.to]) ELSE t)
  ELSE IF t.k = "n" THEN N([key \in DOMAIN t.d |-> Retarget(t.d[key], root)], [i \in 1..Len(t.a) |-> Retarget(t.a[i], root)])
  ELSE t
Late(t) == IF t.k = "n" THEN Retarget(t, t) ELSE t
Case(b, pol, fos) ==
  LET ideal == ObsTopN(Late(Merge({}, pol, fos, a, b)))
      alts  == {[devs |-> DS, out |-> ObsTopN(Late(Merge(DS, pol, fos, a, b)))] : DS \in DevSets}
      diff  == {x \in alts : x.out # ideal}
  IN [a |-> a, b |-> b, pol |-> pol, fos |-> fos,
      exp |-> [ideal |-> ideal, alts |-> SetToSeq(diff)]]

Init == a \in cUA /\ ph = 0 /\ cs = <<>>
Next == /\ ph = 0 /\ ph' = 1 /\ a' = a
        /\ \E b \in cUB, pol \in cPolSet, fos \in cFosSet :
             cs' = <<b, pol, fos>> /\ PrintT(ToJson(Case(b, pol, fos)))
View == <<ph, IF ph = 0 THEN a ELSE Empty>>

FosNone   == {<<>>}
FosOf(paths) == {<<[path |-> p, pol |-> fp]>> : p \in paths, fp \in FPols}
FosSingle == FosOf(FP_All)
FosNamed  == FosOf(FP_Named)
FosPairs  == {<<[path |-> <<NF("a")>>, pol |-> p1], [path |-> <<NF("a"), NF("b")>>, pol |-> p2]>> : p1, p2 \in FPols}
             \cup {<<[path |-> <<NF("b")>>, pol |-> p1], [path |-> <<NF("b")>>, pol |-> p2]>> : p1, p2 \in FPols}
\* a depth selector (**.b) together with another option that matches a field ABOVE one of its matches (a, **.a): the **
\* entries must stay reachable below a field that has a policy of its own
FosStar   == {<<[path |-> p, pol |-> p1], [path |-> <<NF("**"), NF("b")>>, pol |-> p2]>> :
                 p1, p2 \in FPols, p \in {<<NF("a")>>, <<NF("**"), NF("a")>>, <<NF("a"), NF("a")>>}}
FosAll    == FosSingle \cup FosPairs \cup FosStar
FosIdx    == FosOf({<<NF("a"), IX(1)>>, <<NF("a"), IX(0)>>, <<NF("a"), IX(1), IX(0)>>})
             \cup {<<[path |-> <<NF("a"), IX(1)>>, pol |-> p1], [path |-> <<NF("a"), NF("b")>>, pol |-> p2]>> : p1, p2 \in FPols}
             \* a policy for the LIST itself and another one for a path through one of its indices (the policy node of
             \* a then carries its own handling AND indexed entries)
             \cup {<<[path |-> <<NF("a")>>, pol |-> p1], [path |-> q, pol |-> p2]>> :
                      p1, p2 \in FPols, q \in {<<NF("a"), IX(1)>>, <<NF("a"), IX(1), IX(0)>>, <<NF("a"), IX(1), NF("b")>>}}
PolsTwo   == {"default", "append"}
==========================================================================
