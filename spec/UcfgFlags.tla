------------------------------ MODULE UcfgFlags ------------------------------
(* The -flag key=value collector (C19): flag/value.go, flag/util.go and
   cfgutil/cfgutil.go on top of UcfgParseValue (value syntax), UcfgNormalize
   (the one-setting config, dotted and indexed keys, nested object keys) and
   UcfgMerge (accumulation with the flag's own options).

   State: [cfg |-> tree, err |-> BOOLEAN] -- the collected config and whether a
   first error has been recorded (it is sticky: nothing changes afterwards).

   Deviation "CollectorDropsOptions" (repaired): NewCollector never stored its
   options, so the merge ran with the default policy.                         *)
EXTENDS UcfgNormalize, SequencesExt

PV == INSTANCE UcfgParseValue

(* ---- keys: a character sequence split at the separator and classified ----------- *)
RECURSIVE SplitAt(_,_,_)
SplitAt(cs, sepc, cur) ==
  IF cs = <<>> THEN <<cur>>
  ELSE IF Head(cs) = sepc THEN <<cur>> \o SplitAt(Tail(cs), sepc, <<>>)
  ELSE SplitAt(Tail(cs), sepc, Append(cur, Head(cs)))
DigitVal == [c \in PV!Digits |-> CASE c = "0" -> 0 [] c = "1" -> 1 [] c = "2" -> 2 [] c = "3" -> 3 [] c = "4" -> 4
                                  [] c = "5" -> 5 [] c = "6" -> 6 [] c = "7" -> 7 [] c = "8" -> 8 [] c = "9" -> 9]
RECURSIVE DecVal(_,_)
DecVal(cs, acc) == IF cs = <<>> THEN acc ELSE DecVal(Tail(cs), IF acc > 100000 THEN acc ELSE acc * 10 + DigitVal[Head(cs)])
\* plain decimal literals only (the universes do not contain other integer syntaxes; C20 covers them)
SegOf(cs, maxIdx) ==
  IF PV!IsUInt(cs) /\ DecVal(cs, 0) <= maxIdx THEN [s |-> PV!Join(cs), i |-> DecVal(cs, 0)]
  ELSE [s |-> PV!Join(cs), i |-> -1]
KeyOf(cs, sep, maxIdx) ==
  IF sep THEN LET parts == SplitAt(cs, ".", <<>>) IN [j \in 1..Len(parts) |-> SegOf(parts[j], maxIdx)]
  ELSE <<SegOf(cs, maxIdx)>>

(* ---- parsed value -> Go value handed to NewFrom -------------------------------------- *)
RECURSIVE GoOfParsed(_,_,_)
GoOfParsed(v, sep, maxIdx) ==
  CASE v.k = "nil"  -> GNil
    [] v.k = "bool" -> GPrim("b", v.v)
    [] v.k = "num"  -> GPrim("n", v.v)
    [] v.k = "str"  -> GPrim("s", PV!Join(v.v))
    [] v.k = "l"    -> GList([i \in 1..Len(v.a) |-> GoOfParsed(v.a[i], sep, maxIdx)])
    [] v.k = "o"    -> GMap(SetToSeq({<<KeyOf(v.kc[key], sep, maxIdx), GoOfParsed(v.d[key], sep, maxIdx)>> : key \in DOMAIN v.d}))

(* ---- the collector ---------------------------------------------------------------------- *)
IdxOf(cs, c) == PV!IdxAny(cs, {c})
St0 == [cfg |-> Empty, err |-> FALSE]

\* opts = [sep, pol, autoBool]
SetArg(D, st, arg, opts) ==
  IF st.err THEN st                                   \* the first error is kept, nothing else happens
  ELSE LET eq == IdxOf(arg, "=") IN
  IF eq = 0 THEN
     (IF ~opts.autoBool THEN [st EXCEPT !.err = TRUE]
      ELSE LET r == SeqVal(NoOpts(opts.pol), GMap(<< <<KeyOf(arg, opts.sep, 1024), GPrim("b", "true")>> >>)) IN
           IF IsErr(r) THEN [st EXCEPT !.err = TRUE]
           ELSE [st EXCEPT !.cfg = MergeCfg({}, NoOpts(IF "CollectorDropsOptions" \in D THEN "default" ELSE opts.pol), st.cfg, AsCfg(r.ok))])
  ELSE LET keyc == SubSeq(arg, 1, eq-1)
           valc == SubSeq(arg, eq+1, Len(arg)) IN
       IF valc = <<>> THEN st                          \* a key with an empty value is ignored
       ELSE LET pr == PV!Parse({}, PV!DefaultCfg, valc) IN
            IF PV!IsErr(pr) THEN [st EXCEPT !.err = TRUE]
            ELSE LET gv == GoOfParsed(pr.v, opts.sep, 1024)
                     r  == SeqVal(NoOpts(opts.pol), GMap(<< <<KeyOf(keyc, opts.sep, 1024), gv>> >>)) IN
                 IF IsErr(r) THEN [st EXCEPT !.err = TRUE]
                 ELSE [st EXCEPT !.cfg = MergeCfg({}, NoOpts(IF "CollectorDropsOptions" \in D THEN "default" ELSE opts.pol),
                                                  st.cfg, AsCfg(r.ok))]

RECURSIVE Fold(_,_,_,_)
Fold(D, st, args, opts) == IF args = <<>> THEN st ELSE Fold(D, SetArg(D, st, Head(args), opts), Tail(args), opts)
ObsSt(st) == [cfg |-> ObsTop(st.cfg), err |-> st.err]
==========================================================================
