------------------------------ MODULE UcfgReify ------------------------------
(* Typed Unpack into structs (C04, C13, C14): reify.go (reifyStruct, reifyGetField,
   reifyMergeValue, reifyMap, reifySliceMerge, reifyPrimitive) and validator.go
   on abstract config trees, Go values and a bounded family of target types.

   Target: struct{ G int `config:"g"`; F <ty> `config:"f" validate:"<vs>"`; H int `config:"h"` }
   with G and H pre-filled with 1 and F pre-filled with `old`, where <ty> is one of
     I int | PI *int | S In | PS *In | LI []int | LS []In | MI map[string]int | MS map[string]In
     In = struct{ X int `config:"x" validate:"min=2"`; Y int `config:"y"` }
   H comes AFTER F so that a failure at H happens when G and F have been written
   to the working copy already (atomicity, C13); G before F likewise for a
   failure at F.

   Unpack returns Ok([g, f, h]) - the complete new field values, so the frame
   condition is part of every expectation - or Err(path) with the dotted path
   of the offending setting (C14), or a SET of admissible paths where two map
   entries fail and Go's map order decides which is reported.

   Deviations (all repaired by fix: commits; kept so that TLC shows the
   declarative properties refute them and the harness would flag their return):
     "PtrDefaultSkipsRange"     positive/min/max skipped for a pre-filled pointer
     "DefaultErrPathNotNested"  failing default of an absent nested struct named 'x' not 'f.x'
     "MapElemUnaddressable"     merging into an existing map[string]struct element panicked *)
EXTENDS Integers, Sequences, FiniteSets, TLC
\* ---------- config trees ----------
Nil == [k |-> "nil"]
CI(n) == [k |-> "i", i |-> n]
CS(s) == [k |-> "s", s |-> s]
N(d, a) == [k |-> "n", d |-> d, a |-> a]
Empty == N(<<>>, <<>>)
None == [k |-> "none"]
IsNilC(v) == v = None \/ v.k = "nil"

\* ---------- Go values ----------
IntV(n) == [g |-> "int", i |-> n]
NilPtr == [g |-> "nilptr"]
PtrV(x) == [g |-> "ptr", p |-> x]
InV(x, y) == [g |-> "in", x |-> x, y |-> y]
SliceV(isnil, xs) == [g |-> "slice", isnil |-> isnil, xs |-> xs]
MapV(isnil, m) == [g |-> "map", isnil |-> isnil, m |-> m]

Ok(v) == [ok |-> v]
Err(p) == [err |-> p]
Panic == [panic |-> TRUE]
IsOk(r) == "ok" \in DOMAIN r

\* ---------- validators ----------
\* vs: set of validator names; gv: Go value as seen by runValidators (pointer not chased unless code does)
Val1(v, gv, D) ==
  CASE v = "nonzero" ->
         (CASE gv.g = "int" -> gv.i # 0
            [] gv.g = "ptr" -> (IF gv.p.g = "int" THEN gv.p.i # 0 ELSE TRUE)
            [] gv.g = "slice" -> gv.isnil \/ Len(gv.xs) > 0
            [] gv.g = "map" -> gv.isnil \/ DOMAIN gv.m # {}
            [] OTHER -> TRUE)
    [] v \in {"positive", "min2", "max5"} ->
         LET chk(n) == CASE v = "positive" -> n >= 0 [] v = "min2" -> n >= 2 [] v = "max5" -> n <= 5 IN
         (CASE gv.g = "int" -> chk(gv.i)
            [] gv.g = "ptr" -> (IF "PtrDefaultSkipsRange" \in D \/ gv.p.g # "int" THEN TRUE ELSE chk(gv.p.i))
            [] OTHER -> TRUE)
    [] v = "required" ->
         (CASE gv.g = "int" -> gv.i # 0
            [] gv.g = "nilptr" -> FALSE
            [] gv.g = "slice" -> ~gv.isnil /\ Len(gv.xs) > 0
            [] gv.g = "map" -> ~gv.isnil /\ DOMAIN gv.m # {}
            [] OTHER -> TRUE)
RunV(vs, gv, D) == \A v \in vs : Val1(v, gv, D)

(* Variants of the struct In and of the map type, selected per case and carried in D as pseudo-entries (they
   select the TARGET TYPE; they are not deviations):
     "iv:dgood"  In has a method InitDefaults() that sets X = 5
     "iv:dbad"   In has a method InitDefaults() that sets X = 1   - a default that violates min=2
     "iv:val13"  In has a method Validate() that rejects X = 13
   InitDefaults runs on the working copy every time a struct is unpacked (reifyStruct), before its fields are
   read: it overrides what the caller pre-filled, and what it sets must validate like any other value.      *)
IVs == {"iv:plain", "iv:dgood", "iv:dbad", "iv:val13"}
InitIn(x, D) == IF "iv:dgood" \in D THEN [x EXCEPT !.x = 5] ELSE IF "iv:dbad" \in D THEN [x EXCEPT !.x = 1] ELSE x
InValid(x, D) == x.x >= 2 /\ ("iv:val13" \in D => x.x # 13)   \* struct In: X int `validate:"min=2"`, Y int (+ Validate())
\* map types with InitDefaults: MD inserts d: In{5, 0}, MB inserts d: In{1, 0} (violates min=2)
IsMapTy(ty) == ty \in {"MS", "MD", "MB"}
InitMap(ty, m) == IF ty \in {"MD", "MB"}
                  THEN [k \in DOMAIN m \cup {"d"} |-> IF k = "d" THEN InV(IF ty = "MD" THEN 5 ELSE 1, 0) ELSE m[k]]
                  ELSE m

\* tryRecursiveValidate on a value already in the target (defaults); TRUE = passes
RECURSIVE RecValid(_,_,_)
RecValid(vs, gv, D) ==
  /\ RunV(vs, gv, D)
  /\ CASE gv.g = "ptr" -> RecValid({}, gv.p, D)
       [] gv.g = "in" -> InValid(gv, D)
       [] gv.g = "slice" -> \A i \in 1..Len(gv.xs) : RecValid({}, gv.xs[i], D)
       [] gv.g = "map" -> \A k \in DOMAIN gv.m : RecValid({}, gv.m[k], D)
       [] OTHER -> TRUE

\* ---------- primitives ----------
\* reify an int setting (val is non-nil): conversion + validators; spath = path of the setting
ReifyInt(val, vs, spath, D) ==
  IF val.k = "i" THEN (IF RunV(vs, IntV(val.i), D) THEN Ok(IntV(val.i)) ELSE Err(spath))
  ELSE Err(spath)

\* ---------- struct In ----------
\* sub: config node (tree); subpath: path used for *absent* fields; spath: real path of the node's settings
InField(old, sub, name, vs, subpath, spath, D) ==
  LET val == IF name \in DOMAIN sub.d THEN sub.d[name] ELSE None IN
  IF IsNilC(val) THEN (IF RunV(vs, IntV(old), D) THEN Ok(IntV(old)) ELSE Err(Append(subpath, name)))
  ELSE ReifyInt(val, vs, Append(spath, name), D)

ReifyIn(old0, sub, subpath, spath, D) ==
  LET old == InitIn(old0, D)
      rx  == InField(old.x, sub, "x", {"min2"}, subpath, spath, D) IN
  IF ~IsOk(rx) THEN rx
  ELSE LET ry == InField(old.y, sub, "y", {}, subpath, spath, D) IN
       IF ~IsOk(ry) THEN ry
       ELSE IF "iv:val13" \in D /\ rx.ok.i = 13 THEN Err(subpath)       \* Validate() on the unpacked struct
       ELSE Ok(InV(rx.ok.i, ry.ok.i))

ZeroIn == InV(0, 0)

\* value -> config for struct targets: returns node or "no"
AsCfgNode(val) == IF val.k = "n" THEN val ELSE IF val.k = "nil" THEN Empty ELSE None

\* ---------- castArr ----------
CastArr(val) == IF val.k = "n" THEN val.a ELSE IF val.k = "nil" THEN <<>> ELSE <<val>>

Max(a, b) == IF a > b THEN a ELSE b

\* first failing result in a sequence of results, or none
FirstBad(rs) == IF \E i \in 1..Len(rs) : ~IsOk(rs[i])
                THEN rs[CHOOSE i \in 1..Len(rs) : ~IsOk(rs[i]) /\ \A j \in 1..(i-1) : IsOk(rs[j])]
                ELSE None

\* ---------- slice merge layout (reifySliceMerge): which result slot comes from where ----------
\* default: index-wise into the old elements, the longer tail kept; replace: the new length, still
\* merged INTO the old elements of the same index; append: old then new; prepend: new then old
SliceLayout(pol, ol, al) ==
  CASE pol = "replace" -> [i \in 1..al |-> [src |-> "new", j |-> i, base |-> IF i <= ol THEN i ELSE 0]]
    [] pol = "append"  -> [i \in 1..(ol + al) |-> IF i <= ol THEN [src |-> "old", k |-> i] ELSE [src |-> "new", j |-> i - ol, base |-> 0]]
    [] pol = "prepend" -> [i \in 1..(ol + al) |-> IF i <= al THEN [src |-> "new", j |-> i, base |-> 0] ELSE [src |-> "old", k |-> i - al]]
    [] OTHER -> [i \in 1..Max(ol, al) |-> IF i <= al THEN [src |-> "new", j |-> i, base |-> IF i <= ol THEN i ELSE 0]
                                           ELSE [src |-> "old", k |-> i]]

\* ---------- field unpack by type ----------
\* ty in {"I","PI","S","PS","LI","LS","MI","MS"}; old: Go value; parent: config node; name; ppath: parent's path
UnpackField(ty, vs, old, parent, name, ppath, D, pol) ==
  LET present == name \in DOMAIN parent.d
      val == IF present THEN parent.d[name] ELSE None
      spath == Append(ppath, name)
      absent == IsNilC(val)
  IN
  CASE ty = "I" ->
         IF absent THEN (IF RecValid(vs, old, D) THEN Ok(old) ELSE Err(spath))
         ELSE ReifyInt(val, vs, spath, D)
    [] ty = "PI" ->
         IF absent THEN (IF RecValid(vs, old, D) THEN Ok(old) ELSE Err(spath))
         ELSE LET r == ReifyInt(val, vs, spath, D) IN IF IsOk(r) THEN Ok(PtrV(r.ok)) ELSE r
    [] ty = "S" ->
         IF absent THEN
            \* unpack from an empty config; absent -> paths relative to the parent (deviation), nil-present -> own path
            LET subpath == IF val = None /\ "DefaultErrPathNotNested" \in D THEN ppath ELSE spath IN
            ReifyIn(old, Empty, subpath, spath, D)
         ELSE LET sub == AsCfgNode(val) IN
              IF sub = None THEN Err(spath) ELSE ReifyIn(old, sub, spath, spath, D)
    [] ty = "PS" ->
         IF absent THEN (IF RecValid(vs, old, D) THEN Ok(old) ELSE Err(spath))
         ELSE LET sub == AsCfgNode(val) IN
              IF sub = None THEN Err(spath)
              ELSE LET base == IF old = NilPtr THEN ZeroIn ELSE old.p
                       r == ReifyIn(base, sub, spath, spath, D) IN
                   IF IsOk(r) THEN Ok(PtrV(r.ok)) ELSE r
    [] ty = "LI" ->
         IF absent THEN (IF RecValid(vs, old, D) THEN Ok(old) ELSE Err(spath))
         ELSE LET arr == CastArr(val)
                  lay == SliceLayout(pol, Len(old.xs), Len(arr))
                  rs == [i \in 1..Len(lay) |->
                           IF lay[i].src = "new"
                           THEN (IF IsNilC(arr[lay[i].j]) THEN Ok(IntV(0))        \* a nil entry zeroes a primitive slot
                                 ELSE ReifyInt(arr[lay[i].j], vs, IF val.k = "n" THEN Append(spath, ToString(lay[i].j - 1)) ELSE spath, D))
                           ELSE Ok(old.xs[lay[i].k])]
                  bad == FirstBad(rs) IN
              IF bad # None THEN bad
              ELSE LET res == SliceV(FALSE, [i \in 1..Len(lay) |-> rs[i].ok]) IN
                   IF RunV(vs, res, D) THEN Ok(res) ELSE Err(spath)
    [] ty = "LS" ->
         IF absent THEN (IF RecValid(vs, old, D) THEN Ok(old) ELSE Err(spath))
         ELSE LET arr == CastArr(val)
                  lay == SliceLayout(pol, Len(old.xs), Len(arr))
                  epath(j) == IF val.k = "n" THEN Append(spath, ToString(j-1)) ELSE spath
                  rs == [i \in 1..Len(lay) |->
                           IF lay[i].src = "new"
                           THEN (LET sub  == AsCfgNode(arr[lay[i].j])
                                     base == IF lay[i].base = 0 THEN ZeroIn ELSE old.xs[lay[i].base] IN
                                 IF sub = None THEN Err(epath(lay[i].j)) ELSE ReifyIn(base, sub, epath(lay[i].j), epath(lay[i].j), D))
                           \* elements carried over must still validate ("UncheckedCarriedOver": they are skipped)
                           ELSE (IF "UncheckedCarriedOver" \in D \/ RecValid({}, old.xs[lay[i].k], D) THEN Ok(old.xs[lay[i].k]) ELSE Err(spath))]
                  bad == FirstBad(rs) IN
              IF bad # None THEN bad
              ELSE LET res == SliceV(FALSE, [i \in 1..Len(lay) |-> rs[i].ok]) IN
                   IF RunV(vs, res, D) THEN Ok(res) ELSE Err(spath)
    [] ty = "MI" ->
         IF absent THEN (IF RecValid(vs, old, D) THEN Ok(old) ELSE Err(spath))
         ELSE LET sub == AsCfgNode(val) IN
              IF sub = None THEN Err(spath)
              ELSE IF DOMAIN sub.d = {} THEN
                     (LET to == MapV(FALSE, old.m) IN IF RecValid(vs, to, D) THEN Ok(to) ELSE Err(spath))
              ELSE LET ks == DOMAIN sub.d
                       r(k) == IF IsNilC(sub.d[k]) THEN Ok(IntV(0)) ELSE ReifyInt(sub.d[k], {}, Append(spath, k), D)
                       badks == {k \in ks : ~IsOk(r(k))} IN
                   IF badks # {} THEN [errset |-> {r(k).err : k \in badks}]
                   ELSE LET res == MapV(FALSE, [k \in DOMAIN old.m \cup ks |-> IF k \in ks THEN r(k).ok ELSE old.m[k]]) IN
                        IF RunV(vs, res, D) THEN Ok(res) ELSE Err(spath)
    [] IsMapTy(ty) ->
         \* a map type with InitDefaults is initialised even when the setting is absent; entries it (or the caller)
         \* put there and the configuration does not mention must validate as well
         IF absent THEN
            (IF ty = "MS" THEN (IF RecValid(vs, old, D) THEN Ok(old) ELSE Err(spath))
             ELSE LET to == MapV(FALSE, InitMap(ty, old.m)) IN IF RecValid(vs, to, D) THEN Ok(to) ELSE Err(spath))
         ELSE LET sub == AsCfgNode(val) IN
              IF sub = None THEN Err(spath)
              ELSE LET m0 == InitMap(ty, old.m) IN
              IF DOMAIN sub.d = {} THEN
                     (LET to == MapV(FALSE, m0) IN IF RecValid(vs, to, D) THEN Ok(to) ELSE Err(spath))
              ELSE LET ks == DOMAIN sub.d
                       r(k) == LET s2 == AsCfgNode(sub.d[k])
                                   kp == Append(spath, k) IN
                               IF s2 = None THEN Err(kp)
                               ELSE IF k \in DOMAIN m0 THEN
                                      (LET m == ReifyIn(m0[k], s2, kp, kp, D) IN
                                       IF IsOk(m) /\ "MapElemUnaddressable" \in D THEN Panic ELSE m)
                                    ELSE ReifyIn(ZeroIn, s2, kp, kp, D)
                       badks == {k \in ks : ~IsOk(r(k))}
                       badu  == {k \in DOMAIN m0 \ ks : ~RecValid({}, m0[k], D)} IN
                   IF badks # {} THEN
                        (IF \E k \in badks : "panic" \in DOMAIN r(k) THEN
                             (IF \A k \in badks : "panic" \in DOMAIN r(k) THEN Panic
                              ELSE [errset |-> {r(k).err : k \in {x \in badks : "err" \in DOMAIN r(x)}}, maypanic |-> TRUE])
                         ELSE [errset |-> {r(k).err : k \in badks}])
                   ELSE IF badu # {} THEN [errset |-> {Append(spath, k) : k \in badu}]
                   ELSE LET res == MapV(FALSE, [k \in DOMAIN m0 \cup ks |-> IF k \in ks THEN r(k).ok ELSE m0[k]]) IN
                        IF RunV(vs, res, D) THEN Ok(res) ELSE Err(spath)

\* ---------- outer struct: G int `config:"g"`, F <ty> `config:"f" validate:vs`, H int `config:"h"` ----------
Unpack(ty, vs, oldF, cfg, D, pol) ==
  LET rg == UnpackField("I", {}, IntV(1), cfg, "g", <<>>, D, pol) IN
  IF ~IsOk(rg) THEN rg
  ELSE LET rf == UnpackField(ty, vs, oldF, cfg, "f", <<>>, D, pol) IN
       IF ~IsOk(rf) THEN rf
       ELSE LET rh == UnpackField("I", {}, IntV(1), cfg, "h", <<>>, D, pol) IN
            IF ~IsOk(rh) THEN rh
            ELSE Ok([g |-> rg.ok, f |-> rf.ok, h |-> rh.ok])

(* ---------- the independent oracle of C04 --------------------------------------------
   "every struct field reachable in the result satisfies all validators in its tag and
   every reachable Validate() accepts" - stated on the RESULT only, without looking at
   how Unpack got there.                                                              *)
ChkNum(v, n) == CASE v = "nonzero" -> n # 0 [] v = "positive" -> n >= 0 [] v = "min2" -> n >= 2 [] v = "max5" -> n <= 5
                  [] v = "required" -> n # 0
InOK(x, iv) == x.x >= 2 /\ (iv = "iv:val13" => x.x # 13)
RECURSIVE ValidRes(_,_,_,_)
ValidRes(ty, vs, gv, iv) ==
  CASE ty = "I"  -> \A v \in vs : ChkNum(v, gv.i)
    [] ty = "PI" -> IF gv = NilPtr THEN "required" \notin vs      \* required on a pointer means "is set"
                    ELSE \A v \in vs \ {"required"} : ChkNum(v, gv.p.i)
    [] ty = "S"  -> InOK(gv, iv)
    [] ty = "PS" -> IF gv = NilPtr THEN "required" \notin vs ELSE InOK(gv.p, iv)
    [] ty = "LI" -> /\ ("required" \in vs => ~gv.isnil /\ Len(gv.xs) > 0)
                    /\ ("nonzero" \in vs => gv.isnil \/ Len(gv.xs) > 0)
    [] ty = "LS" -> /\ ("required" \in vs => ~gv.isnil /\ Len(gv.xs) > 0)
                    /\ ("nonzero" \in vs => gv.isnil \/ Len(gv.xs) > 0)
                    /\ \A i \in 1..Len(gv.xs) : InOK(gv.xs[i], iv)
    [] ty = "MI" -> /\ ("required" \in vs => ~gv.isnil /\ DOMAIN gv.m # {})
                    /\ ("nonzero" \in vs => gv.isnil \/ DOMAIN gv.m # {})
    [] ty \in {"MS", "MD", "MB"} ->
                    /\ ("required" \in vs => ~gv.isnil /\ DOMAIN gv.m # {})
                    /\ ("nonzero" \in vs => gv.isnil \/ DOMAIN gv.m # {})
                    /\ \A key \in DOMAIN gv.m : InOK(gv.m[key], iv)
==========================================================================
