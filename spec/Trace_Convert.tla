---------------------------- MODULE Trace_Convert ----------------------------
(* Direction B for C03: random int64/uint64/float64 bit patterns and numeric
   texts unpacked into random primitive targets (struct fields, pointers, named
   types, typed getters, through ${ref}).  The driver records the abstract class
   of the input (greatest named boundary below it, offset capped, fraction) and
   whether the stored value is the exact truncation; the decision table of
   UcfgConvert must allow the recorded outcome.                              *)
EXTENDS UcfgConvert, Layers, Json

Tr  == ndJsonDeserialize("trace_conv.ndjson")
NEv == Len(Tr)
VARIABLES l, known, bad, nviol
vars == <<l, known, bad, nviol>>
\* recorded: "err" | "exact" | "inexact"
Allows(r, o) == IF "err" \in DOMAIN r THEN o = "err"
                ELSE CASE r.ok \in {"val", "same"} -> o = "exact"
                       [] r.ok = "wrapped" -> o = "inexact"
                       [] OTHER -> o \in {"err", "inexact"}
Init == l = 1 /\ known = [d \in Known |-> 0] /\ bad = <<>> /\ nviol = 0
Next ==
  /\ l <= NEv /\ l' = l + 1
  /\ LET ev == Tr[l] IN
     IF Allows(Convert({}, ev.src, ev.n, ev.tgt), ev.out) THEN UNCHANGED <<known, bad, nviol>>
     ELSE LET ms == {DS \in DevSets : Allows(Convert(DS, ev.src, ev.n, ev.tgt), ev.out)} IN
          IF ms # {}
          THEN /\ known' = [d \in Known |-> known[d] + (IF \A DS \in ms : d \in DS THEN 1 ELSE 0)]
               /\ UNCHANGED <<bad, nviol>>
          ELSE /\ nviol' = nviol + 1
               /\ bad' = IF Len(bad) < 5 THEN Append(bad, [l |-> l, want |-> Convert({}, ev.src, ev.n, ev.tgt)]) ELSE bad
               /\ UNCHANGED known
Spec == Init /\ [][Next]_vars
Report == l = NEv + 1 =>
  PrintT(<<"REPORT", ToJson([n |-> NEv, nviol |-> nviol, known |-> known, bad |-> bad])>>)
Accepted == TLCGet("stats").diameter = NEv + 1
==========================================================================
