--------------------------- MODULE Trace_Store ---------------------------
(* Direction B for the store family (C12, C15, C10): sessions recorded by
   `ucfgconf drive store` from the real code -- every public call with its
   arguments, its result and the projected state after it returned -- must be
   behaviours of UcfgStore.

   All layers (Known, Ideal, Known minus one finding) are run side by side;
   `alive` holds the layers that explain every event of the session so far.
   A session is accepted while one layer is alive; it counts as a known finding
   when the Ideal layer dropped out; when no layer is left the event is a
   violation (recorded, the rest of the session is skipped, validation goes on
   with the next session).                                                   *)
EXTENDS UcfgStore, Layers, Json, SequencesExt

CONSTANT Components        \* projection components the property under check constrains
Tr  == ndJsonDeserialize("trace_store.ndjson")
NEv == Len(Tr)

LayerSeq == <<Known>> \o SetToSeq(({{}} \cup DevSets) \ {Known})
NL == Len(LayerSeq)
IdealIx == CHOOSE x \in 1..NL : LayerSeq[x] = {}

VARIABLES l, sts, alive, addrs, dead, known, bad, nviol, sessions
vars == <<l, sts, alive, addrs, dead, known, bad, nviol, sessions>>

RootB == [EmptyNode EXCEPT !.d = ("x" :> LPrim("s", "1", "x")), !.dm = TRUE]
St0 == [H |-> (1 :> EmptyNode) @@ (2 :> RootB), hs |-> <<1, 2>>]

HandleFields == {c \in {"obs", "flat", "sweep", "count"} : c \in Components}
                  \cup (IF "path" \in Components THEN {"path", "isroot"} ELSE {})
                  \cup (IF "kind" \in Components THEN {"isdict", "isarr"} ELSE {})
                  \cup (IF "at" \in Components THEN {"at"} ELSE {})
                  \cup (IF "up" \in Components THEN {"up"} ELSE {})
\* the spec's projection restricted to the compared components
SelSpec(p) == [h   |-> [i \in DOMAIN p.h |-> [c \in HandleFields |-> p.h[i][c]]],
               cmp |-> IF "cmp" \in Components THEN p.cmp ELSE <<>>]
\* the recorded projection: JSON lists that stand for sets are converted
SelRec(p) ==
  [h   |-> [i \in DOMAIN p.h |->
              [c \in HandleFields |->
                 IF c = "flat" THEN ToSet(p.h[i].flat)
                 ELSE IF c = "up" THEN ToSet(p.h[i].up)
                 ELSE IF c = "at" THEN [j \in DOMAIN p.h[i].at |-> ToSet(p.h[i].at[j])]
                 ELSE p.h[i][c]]],
   cmp |-> IF "cmp" \in Components
           THEN [removed |-> ToSet(p.cmp.removed), added |-> ToSet(p.cmp.added), kept |-> ToSet(p.cmp.kept)]
           ELSE <<>>]

Init == /\ l = 1 /\ sts = [x \in 1..NL |-> St0] /\ alive = 1..NL /\ addrs = <<>> /\ dead = FALSE
        /\ known = [d \in Known |-> 0] /\ bad = <<>> /\ nviol = 0 /\ sessions = 0

Reset(ev) ==
  /\ sts' = [x \in 1..NL |-> St0] /\ alive' = 1..NL /\ addrs' = ev.addrs /\ dead' = FALSE
  /\ sessions' = sessions + 1
  /\ UNCHANGED <<known, bad, nviol>>

Step(ev) ==
  LET r(x)  == Apply(LayerSeq[x], sts[x], ev.op)
      ok(x) == /\ r(x).res = ev.res
               /\ SelSpec(ProjC(LayerSeq[x], r(x).st, addrs, Components)) = SelRec(ev.post)
      al2   == {x \in alive : ok(x)}
  IN IF al2 # {}
     THEN /\ alive' = al2 /\ sts' = [x \in 1..NL |-> IF x \in al2 THEN r(x).st ELSE sts[x]]
          /\ known' = IF IdealIx \in alive /\ IdealIx \notin al2
                      THEN LET common == {d \in Known : \A x \in al2 : d \in LayerSeq[x]}
                               blame  == IF common # {} THEN common ELSE Known
                           IN [d \in Known |-> known[d] + (IF d \in blame THEN 1 ELSE 0)]
                      ELSE known
          /\ UNCHANGED <<dead, bad, nviol, addrs, sessions>>
     ELSE /\ dead' = TRUE /\ nviol' = nviol + 1
          /\ bad' = IF Len(bad) < 5
                    THEN LET w == CHOOSE x \in alive : \A y \in alive : x <= y
                         IN Append(bad, [l |-> l, layer |-> LayerSeq[w],
                                         want |-> [res |-> r(w).res, post |-> SelSpec(ProjC(LayerSeq[w], r(w).st, addrs, Components))]])
                    ELSE bad
          /\ UNCHANGED <<sts, alive, known, addrs, sessions>>

Next ==
  /\ l <= NEv /\ l' = l + 1
  /\ LET ev == Tr[l] IN
     IF ev.op.op = "reset" THEN Reset(ev)
     ELSE IF dead THEN UNCHANGED <<sts, alive, addrs, dead, known, bad, nviol, sessions>>
     ELSE Step(ev)
Spec == Init /\ [][Next]_vars

Report == l = NEv + 1 =>
  PrintT(<<"REPORT", ToJson([n |-> NEv, nviol |-> nviol, known |-> known, bad |-> bad, sessions |-> sessions])>>)
Accepted == TLCGet("stats").diameter = NEv + 1

CompsAll == {"obs", "sweep", "count", "kind", "at", "path", "flat", "cmp", "up"}
CompsC12 == {"obs", "sweep", "count", "kind", "at"}
CompsC15 == {"obs", "path", "flat", "cmp", "up"}
CompsC10 == {"obs", "at", "path", "up"}
==========================================================================
