----------------------------- MODULE UcfgConvert -----------------------------
(* Typed unpacking of primitive settings (C03): types.go toInt/toUint/toFloat,
   reify.go reifyInt/reifyUint/reifyFloat/reifyDuration and reflect's Overflow*
   checks, as a decision table over ABSTRACT numbers.

   TLC has 32-bit integers and no floats, so a number is
       [k |-> "num", b |-> base, o |-> offset, h |-> BOOLEAN]  = base + o (+ 1/2 when h)
   where base is a NAMED boundary (i8min .. u64max, the float64 neighbours of
   2^63 and 2^64, 2^53, the largest whole second count of a Duration, +-MaxFloat32
   and their float64 neighbours beyond) whose exact
   value only the harness knows (math/big).  Order is lexicographic on
   (rank of base, offset, half); truncation toward zero and every range check are
   small-integer arithmetic on that key.  NaN, +Inf, -Inf are extra points.

   Outcomes: Err | Ok(n) the exact (truncated) value n must be stored | Same the
   value itself (float targets: nearest representable) | Wrapped a DIFFERENT value
   is stored (only under a deviation).

   Deviations (both repaired):
     "FloatBoundsNaN"          float 2^63 -> int64, 2^64 -> uint64 and NaN passed the range check
     "DurationNoOverflowCheck" seconds * 1e9 was not range-checked                      *)
EXTENDS Integers, Sequences, FiniteSets, TLC

Bases == << "f32min_fprev", "f32min", "i64min_fprev", "i64min", "dmin", "i32min", "i16min", "i8min", "zero", "i8max", "u8max",
            "i16max", "u16max", "i32max", "u32max", "dmax", "two53", "i64max_fprev", "i64max",
            "u64max_fprev", "u64max", "f32max", "f32max_fnext" >>
RankTab == [i \in 1..Len(Bases) |-> Bases[i]]
Rank(b) == CHOOSE i \in 1..Len(Bases) : Bases[i] = b
Num(b, o, h) == [k |-> "num", b |-> b, o |-> o, h |-> h]
NaN  == [k |-> "nan"]
PInf == [k |-> "pinf"]
NInf == [k |-> "ninf"]

Key(n) == <<Rank(n.b), n.o, IF n.h THEN 1 ELSE 0>>
LE(n1, n2) == LET a == Key(n1) b == Key(n2) IN
   \/ a[1] < b[1]
   \/ a[1] = b[1] /\ a[2] < b[2]
   \/ a[1] = b[1] /\ a[2] = b[2] /\ a[3] <= b[3]
LT(n1, n2) == LE(n1, n2) /\ n1 # n2
Zero == Num("zero", 0, FALSE)
IsNeg(n) == LT(n, Zero)
\* truncation toward zero
Trunc(n) == IF ~n.h THEN n ELSE IF IsNeg(n) THEN Num(n.b, n.o + 1, FALSE) ELSE Num(n.b, n.o, FALSE)

IntTargets  == [ int8 |-> <<"i8min", "i8max">>, int16 |-> <<"i16min", "i16max">>, int32 |-> <<"i32min", "i32max">>,
                 int64 |-> <<"i64min", "i64max">>, int |-> <<"i64min", "i64max">> ]
UintTargets == [ uint8 |-> "u8max", uint16 |-> "u16max", uint32 |-> "u32max", uint64 |-> "u64max", uint |-> "u64max" ]
Targets == DOMAIN IntTargets \cup DOMAIN UintTargets \cup {"float64", "float32", "duration"}
Sources == {"int", "uint", "float", "str"}

Ok(n)   == [ok |-> "val", v |-> n]
Err     == [err |-> TRUE]
Wrapped == [ok |-> "wrapped"]
Same    == [ok |-> "same"]
InRange(n, lo, hi) == LE(Num(lo, 0, FALSE), n) /\ LE(n, Num(hi, 0, FALSE))

ToInt64(D, src, n) ==
  CASE n.k # "num" -> (IF src = "float" /\ n.k = "nan" /\ "FloatBoundsNaN" \in D THEN Wrapped ELSE Err)
    [] src = "str" -> (IF n.h THEN Err ELSE IF InRange(n, "i64min", "i64max") THEN Ok(n) ELSE Err)
    [] src = "float" ->
         LET t == Trunc(n) IN
         IF InRange(t, "i64min", "i64max") THEN Ok(t)
         ELSE IF "FloatBoundsNaN" \in D /\ n = Num("i64max", 1, FALSE) THEN Wrapped
         ELSE Err
    [] OTHER -> (IF InRange(n, "i64min", "i64max") THEN Ok(n) ELSE Err)

ToUint64(D, src, n) ==
  CASE n.k # "num" -> (IF src = "float" /\ n.k = "nan" /\ "FloatBoundsNaN" \in D THEN Wrapped ELSE Err)
    [] src = "str" -> (IF n.h \/ IsNeg(n) THEN Err ELSE IF InRange(n, "zero", "u64max") THEN Ok(n) ELSE Err)
    [] src = "float" ->
         IF IsNeg(n) THEN Err
         ELSE LET t == Trunc(n) IN
              IF InRange(t, "zero", "u64max") THEN Ok(t)
              ELSE IF "FloatBoundsNaN" \in D /\ n = Num("u64max", 1, FALSE) THEN Wrapped
              ELSE Err
    [] OTHER -> (IF IsNeg(n) THEN Err ELSE IF InRange(n, "zero", "u64max") THEN Ok(n) ELSE Err)

\* seconds -> Duration: the nanosecond count must fit int64
DurOk(n) == LE(Num("dmin", -1, TRUE), n) /\ LE(n, Num("dmax", 0, TRUE))

Convert(D, src, n, tgt) ==
  CASE tgt \in DOMAIN IntTargets ->
         LET r == ToInt64(D, src, n) IN
         IF r = Err \/ r = Wrapped THEN (IF r = Wrapped /\ tgt \notin {"int64", "int"} THEN [ok |-> "wrapped_or_err"] ELSE r)
         ELSE IF InRange(r.v, IntTargets[tgt][1], IntTargets[tgt][2]) THEN r ELSE Err
    [] tgt \in DOMAIN UintTargets ->
         LET r == ToUint64(D, src, n) IN
         IF r = Err \/ r = Wrapped THEN (IF r = Wrapped /\ tgt \notin {"uint64", "uint"} THEN [ok |-> "wrapped_or_err"] ELSE r)
         ELSE IF InRange(r.v, "zero", UintTargets[tgt]) THEN r ELSE Err
    [] tgt = "float64" -> Same
       \* float32: the setting is read as a float64 (a text: the float64 nearest to it) and that must lie within
       \* +-MaxFloat32; f32max_fnext / f32min_fprev are the float64 neighbours beyond, every number whose base they are
       \* rounds to them, every number based at f32max / f32min rounds back to the bound itself.  Infinities pass.
    [] tgt = "float32" -> IF n.k = "num" /\ (Rank(n.b) >= Rank("f32max_fnext") \/ Rank(n.b) <= Rank("f32min_fprev")) THEN Err ELSE Same
    [] tgt = "duration" ->
         IF src = "str" THEN (IF n = Zero THEN Same ELSE Err)    \* a bare number is no duration text, except "0"
         ELSE IF n.k # "num" THEN (IF "DurationNoOverflowCheck" \in D THEN Wrapped ELSE Err)
         ELSE IF DurOk(n) THEN Same
         ELSE IF "DurationNoOverflowCheck" \in D THEN Wrapped ELSE Err

\* The typed unpacker interfaces (unpack.go) are targets of these conversions: a field, a pointer, a slice element or a map
\* value whose type implements one of them is handed exactly what the conversion to the named target yields, or Unpack
\* fails (the replay's routes unp-field, unp-ptr, unp-pre, unp-elem, unp-pelem, unp-mapval; BoolUnpacker and StringUnpacker
\* are targets "bool" and "string" of Gen_ConvText)
UnpackerTarget == [IntUnpacker |-> "int64", UintUnpacker |-> "uint64", FloatUnpacker |-> "float64", BoolUnpacker |-> "bool", StringUnpacker |-> "string"]

\* C03: there is no third outcome
NoWrap(r) == "err" \in DOMAIN r \/ r.ok \in {"val", "same"}
==========================================================================
