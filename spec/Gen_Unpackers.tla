----------------------------- MODULE Gen_Unpackers -----------------------------
(* The typed unpacker interfaces of unpack.go - BoolUnpacker, IntUnpacker, UintUnpacker, FloatUnpacker, StringUnpacker,
   ConfigUnpacker, Unpacker and the reflective form Unpack(*T) with T convertible from Config - as a CALL PROTOCOL:

     the setting is absent or null      Unpack is not called, what the target holds stays (C13)
     otherwise                          the setting is converted by the getter of the unpacker's kind (the rules of C03;
                                        the numeric boundaries are Gen_Convert's routes unp-*), a failed conversion is
                                        a typed error naming the setting (C14) and Unpack is not called;
                                        else Unpack is called exactly once with the converted value
     Unpack returns an error            Unpack of the configuration fails, the error names the setting (C14)
     afterwards Validate() is asked     its error fails the call (C04); a pre-filled unpacker that no setting touches is
                                        validated as well - everything reachable in the result is (C04)
     on any failure                     the field keeps what it held (C13): a nil pointer stays nil

   for every kind of unpacker x the site it sits at (a field by value, a nil pointer, a pre-filled pointer, the element of
   a slice by value and by pointer, the value of a map) x ten settings x three behaviours of the unpacker.         *)
EXTENDS Integers, Sequences, FiniteSets, TLC, Layers, Json, SequencesExt

Kinds == {"bool", "int", "uint", "float", "string", "config", "any", "rconfig"}
Sites == {"field", "ptr", "pre", "elem", "pelem", "mapval"}
\* true; -3; 7; 1.5; the words x and 7; the object {x: 1}; the list [1, 2]
Settings == {"absent", "nil", "true", "neg", "pos", "frac", "word", "numword", "obj", "list"}
Behaviours == {"accept", "reject", "invalid"}

NO == "err"
\* what the getter of a kind makes of a setting (C03 on sample points): the received value as kind:text
Conv(kind, s) ==
  CASE kind = "bool"   -> (IF s = "true" THEN "bool:true" ELSE NO)
    [] kind = "int"    -> (CASE s = "neg" -> "int:-3" [] s = "pos" -> "int:7" [] s = "frac" -> "int:1" [] s = "numword" -> "int:7" [] OTHER -> NO)
    [] kind = "uint"   -> (CASE s = "pos" -> "uint:7" [] s = "frac" -> "uint:1" [] s = "numword" -> "uint:7" [] OTHER -> NO)
    [] kind = "float"  -> (CASE s = "neg" -> "float:-3" [] s = "pos" -> "float:7" [] s = "frac" -> "float:1.5" [] s = "numword" -> "float:7" [] OTHER -> NO)
    [] kind = "string" -> (CASE s = "true" -> "string:true" [] s = "neg" -> "string:-3" [] s = "pos" -> "string:7" [] s = "frac" -> "string:1.5"
                             [] s = "word" -> "string:x" [] s = "numword" -> "string:7" [] OTHER -> NO)
    [] kind \in {"config", "rconfig"} -> (CASE s = "obj" -> "config:obj" [] s = "list" -> "config:list" [] OTHER -> NO)
    \* the generic unpacker receives the native value of the setting
    [] kind = "any"    -> (CASE s = "true" -> "any:b:true" [] s = "neg" -> "any:n:-3" [] s = "pos" -> "any:n:7" [] s = "frac" -> "any:n:1.5"
                             [] s = "word" -> "any:s:x" [] s = "numword" -> "any:s:7" [] s = "obj" -> "any:obj" [] s = "list" -> "any:list")
\* is there an unpacker in the target before the call?
Prefilled(site) == site # "ptr"
SitePath(site) == CASE site \in {"elem", "pelem"} -> "v.0" [] site = "mapval" -> "v.k" [] OTHER -> "v"

Ok(calls, got)   == [ok |-> TRUE, calls |-> calls, got |-> got]
Err(class, path, calls) == [err |-> class, path |-> path, calls |-> calls]
Expect(kind, site, s, beh) ==
  IF s \in {"absent", "nil"} THEN
       \* nothing to hand over; what is already there is still part of the result and must be valid
       IF beh = "invalid" /\ Prefilled(site) THEN Err("validation", "", 0) ELSE Ok(0, "")
  ELSE LET c == Conv(kind, s) IN
       IF c = NO THEN Err("conversion", SitePath(site), 0)
       ELSE IF beh = "reject" THEN Err("custom", SitePath(site), 1)
       ELSE IF beh = "invalid" THEN Err("validation", SitePath(site), 1)
       ELSE Ok(1, c)

VARIABLES kind, cs
vars == <<kind, cs>>
Init == kind \in Kinds /\ cs = <<>>
Next == /\ cs = <<>> /\ UNCHANGED kind
        /\ \E site \in Sites, s \in Settings, beh \in Behaviours :
              cs' = <<site, s, beh>>
              /\ PrintT(ToJson([kind |-> kind, site |-> site, set |-> s, beh |-> beh,
                                exp |-> [ideal |-> Expect(kind, site, s, beh), alts |-> <<>>]]))
View == <<kind, cs = <<>> >>
\* the protocol at the model level: Unpack is called at most once, never for an absent / null / unconvertible setting, and a
\* success means it was called with the converted value (or there was nothing to hand over)
CalledOnlyWithValue == cs # <<>> =>
   LET e == Expect(kind, cs[1], cs[2], cs[3]) IN
   /\ e.calls \in {0, 1}
   /\ (e.calls = 1 => cs[2] \notin {"absent", "nil"} /\ Conv(kind, cs[2]) # NO)
   /\ ("ok" \in DOMAIN e /\ e.calls = 1 => e.got = Conv(kind, cs[2]))
\* C04: a result in which an unpacker says "invalid" is never accepted
InvalidNeverAccepted == cs # <<>> /\ cs[3] = "invalid" /\ (Prefilled(cs[1]) \/ (cs[2] \notin {"absent", "nil"} /\ Conv(kind, cs[2]) # NO))
                         => "err" \in DOMAIN Expect(kind, cs[1], cs[2], cs[3])
==========================================================================
