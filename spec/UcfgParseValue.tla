-------------------------- MODULE UcfgParseValue --------------------------
(* The flag/env/splice value parser (C17, C07, C19): parse/parse.go as a
   recursive-descent machine over a sequence of characters (one-character
   strings; TLC cannot slice strings, so the harness hands inputs over - and
   takes them back - as character sequences).

   Values
     [k |-> "nil"]  [k |-> "bool", v |-> "true"|"false"]
     [k |-> "num", nk |-> "u"|"i"|"f", v |-> token]   the number the token denotes;
                    which Go number (uint64 / int64 / float64) and its exact value
                    are concretised by the harness with strconv on the token
     [k |-> "str", v |-> Seq(char)]
     [k |-> "l", a |-> Seq(Value)]
     [k |-> "o", d |-> [KeyString -> Value], kc |-> [KeyString -> Seq(char)]]

   Deviations (all repaired by fix: commits, kept to show TLC refutes them)
     "EofPanics"            end of input inside [ ] or { } indexes an empty string
     "BackslashParity"      a quote preceded by ANY backslash does not close the string
     "ObjNoTrimAfterValue"  no whitespace skipped after a quoted/list/object VALUE in an object
     "GoUnquoteOnly"        JSON-only escapes (\/ and surrogate pairs) are rejected (open) *)
EXTENDS Integers, Sequences, FiniteSets, TLC

Err(e)   == [err |-> e]
IsErr(r) == "err" \in DOMAIN r
OkR(v, rest) == [v |-> v, rest |-> rest]

NilV       == [k |-> "nil"]
BoolV(b)   == [k |-> "bool", v |-> b]
NumV(nk,t) == [k |-> "num", nk |-> nk, v |-> t]
StrV(s)    == [k |-> "str", v |-> s]
ListV(a)   == [k |-> "l", a |-> a]
ObjV(d, kc) == [k |-> "o", d |-> d, kc |-> kc]   \* kc: the characters of every key
\* Kind-directed equality: recorded results of a WRONG implementation may put a value of another kind where the
\* specification has, say, a number; TLC's = refuses to compare a string with a sequence, so compare the kind first.
RECURSIVE SameV(_,_)
SameV(a, b) ==
  IF a.k # b.k THEN FALSE
  ELSE CASE a.k = "nil" -> TRUE
         [] a.k = "num" -> a.nk = b.nk /\ a.v = b.v
         [] a.k = "l"   -> Len(a.a) = Len(b.a) /\ \A i \in 1..Len(a.a) : SameV(a.a[i], b.a[i])
         [] a.k = "o"   -> DOMAIN a.d = DOMAIN b.d /\ (\A key \in DOMAIN a.d : a.kc[key] = b.kc[key] /\ SameV(a.d[key], b.d[key]))
         [] OTHER       -> a.v = b.v
SameOut(x, y) == IF IsErr(x) \/ IsErr(y) THEN IsErr(x) /\ IsErr(y) /\ x.err = y.err ELSE SameV(x.v, y.v)

WS == {" ", "\n", "\t", "\r"}
Digits == {"0", "1", "2", "3", "4", "5", "6", "7", "8", "9"}

RECURSIVE Join(_)
Join(s) == IF s = <<>> THEN "" ELSE Head(s) \o Join(Tail(s))

RECURSIVE TrimL(_)
TrimL(s) == IF s # <<>> /\ Head(s) \in WS THEN TrimL(Tail(s)) ELSE s
RECURSIVE TrimR(_)
TrimR(s) == IF s # <<>> /\ s[Len(s)] \in WS THEN TrimR(SubSeq(s, 1, Len(s)-1)) ELSE s
Trim(s) == TrimR(TrimL(s))

RECURSIVE IdxAnyFrom(_,_,_)
IdxAnyFrom(s, S, i) == IF i > Len(s) THEN 0 ELSE IF s[i] \in S THEN i ELSE IdxAnyFrom(s, S, i+1)
IdxAny(s, S) == IdxAnyFrom(s, S, 1)

(* ---- classification of an unquoted run (parsePrimitive) ----------------------- *)
AllIn(s, S) == s # <<>> /\ \A i \in 1..Len(s) : s[i] \in S
BoolTrue  == {<<"t">>, <<"T">>, <<"t","r","u","e">>, <<"T","R","U","E">>, <<"T","r","u","e">>, <<"o","n">>, <<"O","N">>}
BoolFalse == {<<"f">>, <<"F">>, <<"f","a","l","s","e">>, <<"F","A","L","S","E">>, <<"F","a","l","s","e">>, <<"o","f","f">>, <<"O","F","F">>}
\* decimal syntaxes without leading zeros (what JSON writes); other Go syntaxes are outside the universes
IsUInt(s) == AllIn(s, Digits) /\ (Len(s) = 1 \/ s[1] # "0")
IsInt(s)  == Len(s) >= 2 /\ s[1] = "-" /\ IsUInt(Tail(s))
\* [-] digits [. digits] [e|E [+|-] digits], with at least a fraction or an exponent
IsFloat(s) ==
  LET body == IF s # <<>> /\ s[1] = "-" THEN Tail(s) ELSE s
      e    == IdxAny(body, {"e", "E"})
      mant == IF e = 0 THEN body ELSE SubSeq(body, 1, e-1)
      ex0  == IF e = 0 THEN <<>> ELSE SubSeq(body, e+1, Len(body))
      ex   == IF ex0 # <<>> /\ ex0[1] \in {"+", "-"} THEN Tail(ex0) ELSE ex0
      dot  == IdxAny(mant, {"."})
      ip   == IF dot = 0 THEN mant ELSE SubSeq(mant, 1, dot-1)
      fp   == IF dot = 0 THEN <<>> ELSE SubSeq(mant, dot+1, Len(mant))
  IN /\ IsUInt(ip)
     /\ (dot = 0 \/ AllIn(fp, Digits))
     /\ (e = 0 \/ AllIn(ex, Digits))
     /\ (dot # 0 \/ e # 0)
\* 64-bit ranges on decimal digit strings (TLC's integers are 32 bit): shorter is smaller, equal length compares digit-wise
DigitVal(c) == CASE c = "0" -> 0 [] c = "1" -> 1 [] c = "2" -> 2 [] c = "3" -> 3 [] c = "4" -> 4 [] c = "5" -> 5 [] c = "6" -> 6
                 [] c = "7" -> 7 [] c = "8" -> 8 [] c = "9" -> 9
RECURSIVE DigitsLE(_,_)
DigitsLE(a, b) == IF a = <<>> THEN TRUE
                  ELSE IF DigitVal(a[1]) # DigitVal(b[1]) THEN DigitVal(a[1]) < DigitVal(b[1])
                  ELSE DigitsLE(Tail(a), Tail(b))
DecLE(a, b) == Len(a) < Len(b) \/ (Len(a) = Len(b) /\ DigitsLE(a, b))
UMax64 == <<"1","8","4","4","6","7","4","4","0","7","3","7","0","9","5","5","1","6","1","5">>     \* 2^64 - 1
IMinAbs64 == <<"9","2","2","3","3","7","2","0","3","6","8","5","4","7","7","5","8","0","8">>       \* 2^63
\* an integer literal beyond 64 bits is still a number: the float nearest to it
Classify(content) ==
  IF content = <<"n","u","l","l">> THEN NilV
  ELSE IF content \in BoolTrue THEN BoolV("true")
  ELSE IF content \in BoolFalse THEN BoolV("false")
  ELSE IF IsUInt(content) THEN NumV(IF DecLE(content, UMax64) THEN "u" ELSE "f", Join(content))
  ELSE IF IsInt(content) THEN NumV(IF DecLE(Tail(content), IMinAbs64) THEN "i" ELSE "f", Join(content))
  ELSE IF IsFloat(content) THEN NumV("f", Join(content))
  ELSE StrV(content)

\* parseNonQuotedString: stops at the first character of the stop set
NonQuoted(in, stop) ==
  LET idx == IdxAny(in, stop) IN
  IF idx = 1 THEN Err("unexpected")
  ELSE IF idx = 0 THEN OkR(Trim(in), <<>>)
  ELSE OkR(Trim(SubSeq(in, 1, idx-1)), SubSeq(in, idx, Len(in)))
Primitive(in, stop) ==
  LET r == NonQuoted(in, stop) IN IF IsErr(r) THEN r ELSE OkR(Classify(r.v), r.rest)

(* ---- quoted strings ------------------------------------------------------------ *)
BS == "\\"
DQ == "\""
SQ == "'"
RECURSIVE CloseQCode(_,_)
CloseQCode(in, i) ==     \* (deviation) the first quote not preceded by a backslash
  IF i > Len(in) THEN 0
  ELSE IF in[i] = DQ /\ in[i-1] # BS THEN i ELSE CloseQCode(in, i+1)
RECURSIVE CloseQ(_,_,_)
CloseQ(in, i, esc) ==    \* (ideal) the first quote not escaped by an odd number of backslashes
  IF i > Len(in) THEN 0
  ELSE IF esc THEN CloseQ(in, i+1, FALSE)
  ELSE IF in[i] = BS THEN CloseQ(in, i+1, TRUE)
  ELSE IF in[i] = DQ THEN i
  ELSE CloseQ(in, i+1, FALSE)

\* single-character escapes: Go and JSON agree on these; decoded characters are written ^n ^t ...
EscBoth == [c \in {"n", "t", "r", "b", "f"} |-> "^" \o c]
RECURSIVE Unq(_,_,_)
Unq(D, body, acc) ==
  IF body = <<>> THEN acc
  ELSE IF Head(body) = BS THEN
         IF Len(body) < 2 THEN <<"BAD">>
         ELSE IF body[2] \in {BS, DQ} THEN Unq(D, SubSeq(body, 3, Len(body)), Append(acc, body[2]))
         ELSE IF body[2] \in DOMAIN EscBoth THEN Unq(D, SubSeq(body, 3, Len(body)), Append(acc, EscBoth[body[2]]))
         ELSE IF body[2] = "/" /\ "GoUnquoteOnly" \notin D THEN Unq(D, SubSeq(body, 3, Len(body)), Append(acc, "/"))
         ELSE <<"BAD">>
  ELSE IF Head(body) = DQ \/ Head(body) = "\n" THEN <<"BAD">>
  ELSE Unq(D, Tail(body), Append(acc, Head(body)))

DQuote(D, in) ==
  LET i == IF "BackslashParity" \in D THEN CloseQCode(in, 2) ELSE CloseQ(in, 2, FALSE) IN
  IF i = 0 THEN Err("missing_dq")
  ELSE LET u == Unq(D, SubSeq(in, 2, i-1), <<>>) IN
       IF u = <<"BAD">> THEN Err("unquote") ELSE OkR(u, SubSeq(in, i+1, Len(in)))
SQuote(in) ==
  LET i == IdxAnyFrom(in, {SQ}, 2) IN
  IF i = 0 THEN Err("missing_sq") ELSE OkR(SubSeq(in, 2, i-1), SubSeq(in, i+1, Len(in)))

(* ---- values, lists, objects ------------------------------------------------------ *)
RECURSIVE Value(_,_,_,_), ArrLoop(_,_,_,_), ObjLoop(_,_,_,_,_)
Value(D, c, in0, stop) ==
  LET in == TrimL(in0) IN
  IF in = <<>> THEN OkR(NilV, <<>>)
  ELSE CASE Head(in) = "[" /\ c.arr -> ArrLoop(D, c, Tail(in), <<>>)
         [] Head(in) = "{" /\ c.obj -> ObjLoop(D, c, Tail(in), <<>>, <<>>)
         [] Head(in) = DQ /\ c.dq  -> (LET r == DQuote(D, in) IN IF IsErr(r) THEN r ELSE OkR(StrV(r.v), r.rest))
         [] Head(in) = SQ /\ c.sq  -> (LET r == SQuote(in) IN IF IsErr(r) THEN r ELSE OkR(StrV(r.v), r.rest))
         [] OTHER -> Primitive(in, stop)

ArrLoop(D, c, in0, vals) ==
  LET in == TrimL(in0) IN
  IF in = <<>> THEN (IF "EofPanics" \in D THEN Err("panic") ELSE Err("arr_eof"))
  ELSE IF Head(in) = "]" THEN OkR(IF vals = <<>> THEN NilV ELSE ListV(vals), Tail(in))
  ELSE LET r == Value(D, c, in, {",", "]"}) IN
       IF IsErr(r) THEN r
       ELSE LET rest == TrimL(r.rest) vs == Append(vals, r.v) IN
            IF rest = <<>> THEN Err("arr_close_missing")
            ELSE IF Head(rest) = "]" THEN OkR(ListV(vs), Tail(rest))
            ELSE IF Head(rest) = "," THEN ArrLoop(D, c, Tail(rest), vs)
            ELSE Err("arr_expected")

Key(D, in) ==
  CASE Head(in) = DQ -> DQuote(D, in)
    [] Head(in) = SQ -> SQuote(in)
    [] OTHER -> NonQuoted(in, {":"})

ObjLoop(D, c, in0, kvs, kcs) ==
  LET in == TrimL(in0) IN
  IF in = <<>> THEN (IF "EofPanics" \in D THEN Err("panic") ELSE Err("obj_eof"))
  ELSE IF Head(in) = "}" THEN OkR(IF DOMAIN kvs = {} THEN NilV ELSE ObjV(kvs, kcs), Tail(in))
  ELSE LET key == Key(D, in) IN
       IF IsErr(key) THEN key
       ELSE LET r1 == TrimL(key.rest) IN
            IF r1 = <<>> \/ Head(r1) # ":" THEN Err("expected_colon")
            ELSE LET r == Value(D, c, Tail(r1), {",", "}"}) IN
                 IF IsErr(r) THEN r
                 ELSE LET rest == IF "ObjNoTrimAfterValue" \in D THEN r.rest ELSE TrimL(r.rest)
                          ks   == Join(key.v)
                          n    == [x \in DOMAIN kvs \cup {ks} |-> IF x = ks THEN r.v ELSE kvs[x]]
                          nc   == [x \in DOMAIN kcs \cup {ks} |-> IF x = ks THEN key.v ELSE kcs[x]] IN
                      IF rest = <<>> THEN Err("obj_expected")
                      ELSE IF Head(rest) = "}" THEN OkR(ObjV(n, nc), Tail(rest))
                      ELSE IF Head(rest) = "," THEN ObjLoop(D, c, Tail(rest), n, nc)
                      ELSE Err("obj_expected")

RECURSIVE TopLoop(_,_,_,_)
TopLoop(D, c, in, vals) ==
  LET r == Value(D, c, in, IF c.ic THEN {} ELSE {","}) IN
  IF IsErr(r) THEN r
  ELSE LET rest == TrimL(r.rest) vs == Append(vals, r.v) IN
       IF rest = <<>> THEN [v |-> IF Len(vs) = 1 THEN vs[1] ELSE ListV(vs)]
       ELSE IF Head(rest) = "," THEN TopLoop(D, c, Tail(rest), vs)
       ELSE Err("expected_comma")

\* parse.ValueWithConfig
Parse(D, c, in) ==
  IF ~c.arr /\ c.obj THEN Err("config")
  ELSE TopLoop(D, c, Trim(in), <<>>)

PCfg(arr, obj, dq, sq, ic) == [arr |-> arr, obj |-> obj, dq |-> dq, sq |-> sq, ic |-> ic]
DefaultCfg == PCfg(TRUE, TRUE, TRUE, TRUE, FALSE)
EnvCfg     == PCfg(TRUE, FALSE, TRUE, TRUE, FALSE)
NoopCfg    == PCfg(FALSE, FALSE, FALSE, FALSE, TRUE)
AllCfgs    == {PCfg(a, o, d, s, i) : a, o, d, s, i \in BOOLEAN}

(* ---- JSON documents and their rendering (the round-trip statement of C17) --------
   J ::= [j |-> "null"] | [j |-> "bool", v] | [j |-> "num", cs] | [j |-> "str", cs]
       | [j |-> "arr", xs |-> Seq(J)] | [j |-> "obj", es |-> Seq(<<keychars, J>>)] (distinct keys)
   layout "c" compact, "i" indented the way encoding/json.MarshalIndent writes          *)
RECURSIVE EscStr(_)
EscStr(s) == IF s = <<>> THEN <<>>
             ELSE IF Head(s) \in {BS, DQ} THEN <<BS, Head(s)>> \o EscStr(Tail(s))
             ELSE IF Head(s) = "^n" THEN <<BS, "n">> \o EscStr(Tail(s))
             ELSE IF Head(s) = "^t" THEN <<BS, "t">> \o EscStr(Tail(s))
             ELSE <<Head(s)>> \o EscStr(Tail(s))
RECURSIVE Indent(_,_)
\* Whitespace layouts (JSON allows blank, tab, CR and LF around every token):
\*   "c" compact   "i" LF + blanks, blank after colon   "r" CRLF + blanks (Windows)   "t" LF + tabs, tab after colon
\*   "w" whitespace on BOTH sides of every token (also before , : ] } and inside empty brackets), mixing all four characters
Layouts == {"c", "i", "r", "t", "w"}
Indent(lay, n) == IF n = 0 \/ lay \in {"c", "w"} THEN <<>> ELSE (IF lay = "t" THEN <<"\t">> ELSE <<" ">>) \o Indent(lay, n-1)
NL(lay, depth) == CASE lay = "c" -> <<>>
                    [] lay = "r" -> <<"\r", "\n">> \o Indent(lay, depth)
                    [] lay = "w" -> <<"\r">>
                    [] OTHER     -> <<"\n">> \o Indent(lay, depth)
BeforeSep(lay)  == IF lay = "w" THEN <<"\t">> ELSE <<>>
AfterColon(lay) == CASE lay = "c" -> <<>> [] lay = "t" -> <<"\t">> [] lay = "w" -> <<"\n">> [] OTHER -> <<" ">>
InEmpty(lay)    == IF lay = "w" THEN <<" ">> ELSE <<>>
RECURSIVE RenderV(_,_,_), RenderArr(_,_,_,_), RenderObj(_,_,_,_)
RenderV(v, lay, depth) ==
  CASE v.j = "null" -> <<"n","u","l","l">>
    [] v.j = "bool" -> IF v.v = "true" THEN <<"t","r","u","e">> ELSE <<"f","a","l","s","e">>
    [] v.j = "num"  -> v.cs
    [] v.j = "str"  -> <<DQ>> \o EscStr(v.cs) \o <<DQ>>
    [] v.j = "arr"  -> IF v.xs = <<>> THEN <<"[">> \o InEmpty(lay) \o <<"]">>
                       ELSE <<"[">> \o NL(lay, depth+1) \o RenderArr(v.xs, lay, depth+1, 1) \o NL(lay, depth) \o <<"]">>
    [] v.j = "obj"  -> IF v.es = <<>> THEN <<"{">> \o InEmpty(lay) \o <<"}">>
                       ELSE <<"{">> \o NL(lay, depth+1) \o RenderObj(v.es, lay, depth+1, 1) \o NL(lay, depth) \o <<"}">>
RenderArr(xs, lay, depth, i) ==
  IF i > Len(xs) THEN <<>>
  ELSE RenderV(xs[i], lay, depth) \o (IF i < Len(xs) THEN BeforeSep(lay) \o <<",">> \o NL(lay, depth) ELSE <<>>) \o RenderArr(xs, lay, depth, i+1)
RenderObj(es, lay, depth, i) ==
  IF i > Len(es) THEN <<>>
  ELSE <<DQ>> \o EscStr(es[i][1]) \o <<DQ>> \o BeforeSep(lay) \o <<":">> \o AfterColon(lay) \o RenderV(es[i][2], lay, depth)
         \o (IF i < Len(es) THEN BeforeSep(lay) \o <<",">> \o NL(lay, depth) ELSE <<>>) \o RenderObj(es, lay, depth, i+1)
Render(v, lay, depth) == IF lay = "w" THEN <<"\n">> \o RenderV(v, lay, depth) \o <<"\r", "\n">> ELSE RenderV(v, lay, depth)

\* the data a JSON document denotes (empty containers read back as nil)
RECURSIVE Denotes(_)
Denotes(v) ==
  CASE v.j = "null" -> NilV
    [] v.j = "bool" -> BoolV(v.v)
    [] v.j = "num"  -> Classify(v.cs)
    [] v.j = "str"  -> StrV(v.cs)
    [] v.j = "arr"  -> IF v.xs = <<>> THEN NilV ELSE ListV([i \in 1..Len(v.xs) |-> Denotes(v.xs[i])])
    [] v.j = "obj"  -> IF v.es = <<>> THEN NilV
                       ELSE ObjV([key \in {Join(v.es[i][1]) : i \in 1..Len(v.es)} |->
                                    Denotes(v.es[CHOOSE i \in 1..Len(v.es) : Join(v.es[i][1]) = key][2])],
                                 [key \in {Join(v.es[i][1]) : i \in 1..Len(v.es)} |->
                                    v.es[CHOOSE i \in 1..Len(v.es) : Join(v.es[i][1]) = key][1]])
==========================================================================
