------------------------------- MODULE UcfgPack -------------------------------
(* struct -> Config -> struct (C06): normalisation of typed Go values
   (merge.go normalizeStructInto / normalizeValue: exported fields, config tags
   with renames, dotted names, inline, ignore; Duration and regexp as text; all
   numeric kinds) composed with typed Unpack.

   Types are descriptors  [k |-> kind] | ptr(e) | slice(e) | array(n, e) | map(e) |
   struct(fields [n, tag (path), mode ("" | "inline" | "ignore"), t]); the harness
   builds the real type with reflect.StructOf/PtrTo/SliceOf/ArrayOf/MapOf and the
   value from the value descriptor.

   Pack(t, v) is the config tree the value normalises to.  RoundTrip(D, t, v) is
   the value obtained by unpacking that tree into a zero value of the same type:
   the identity (nil and empty collections considered equal) on the Ideal layer.

   Deviation "InlineMapAbsorbsSiblings" (open finding): on Unpack an `,inline`
   map next to named fields takes EVERY key of the namespace, so the settings
   of its sibling fields are copied into it as well (or fail to convert).      *)
EXTENDS Integers, Sequences, FiniteSets, TLC
\* ---------- config trees ----------
Nil == [k |-> "nil"]
PB(b) == [k |-> "bool", v |-> b]
PN(s) == [k |-> "num", v |-> s]      \* canonical decimal text
PS(s) == [k |-> "str", v |-> s]
N(d, a) == [k |-> "n", d |-> d, a |-> a]
Empty == N(<<>>, <<>>)
None == [k |-> "none"]
DUPE == [err |-> "duplicate"]
IsErr(r) == "err" \in DOMAIN r

\* ---------- types ----------
T(k) == [k |-> k]
TPtr(e) == [k |-> "ptr", e |-> e]
TSlice(e) == [k |-> "slice", e |-> e]
TArr(e) == [k |-> "array", n |-> 2, e |-> e]
TMap(e) == [k |-> "map", e |-> e]
Fld(n, tag, mode, t) == [n |-> n, tag |-> tag, mode |-> mode, t |-> t]   \* mode: "", "inline", "ignore"
TStruct(fs) == [k |-> "struct", f |-> fs]

\* every numeric kind (the text of a value is its exact decimal / shortest float64 text)
NumKinds == {"int8", "int16", "int32", "int64", "int", "uint8", "uint16", "uint32", "uint64", "uint", "float32", "float64"}
Inner == TStruct(<<Fld("X", <<"x">>, "", T("int64")), Fld("Y", <<"y", "z">>, "", T("string"))>>)
\* positional structs: fields bound to list positions, alone and next to a named field
Pos    == TStruct(<<Fld("From", <<"0">>, "", T("int64")), Fld("To", <<"1">>, "", T("int64"))>>)
PosMix == TStruct(<<Fld("At", <<"1">>, "", T("dur")), Fld("Kind", <<"kind">>, "", T("string"))>>)
\* "re" is *regexp.Regexp: packed as the pattern's exact source text, compiled again by Unpack
Prims == {T("bool"), T("int8"), T("int64"), T("uint64"), T("float64"), T("string"), T("dur"), T("re")}
FieldTypes == Prims \cup {TPtr(T("int64")), TPtr(Inner), TSlice(T("int64")), TSlice(Inner), TArr(T("uint64")), TMap(T("string")), TMap(Inner), Inner, Pos, PosMix, TPtr(Pos)}

\* ---------- values ----------
V(k, v) == [k |-> k, v |-> v]
NilV(k) == [k |-> k, nil |-> TRUE]
\* the boundaries of every numeric kind ("extreme numbers"); a float32 is written as the float64 it widens to exactly
NumVals(k) ==
  CASE k = "int8"  -> {"-128", "127", "-1"}
    [] k = "int16" -> {"-32768", "32767"}
    [] k = "int32" -> {"-2147483648", "2147483647"}
    [] k \in {"int64", "int"} -> {"-9223372036854775808", "9223372036854775807", "0", "-1"}
    [] k = "uint8"  -> {"0", "255"}
    [] k = "uint16" -> {"65535"}
    [] k = "uint32" -> {"4294967295"}
    [] k \in {"uint64", "uint"} -> {"18446744073709551615", "9223372036854775808", "9223372036854775807", "0"}
    [] k = "float32" -> {"3.4028234663852886e+38", "-3.4028234663852886e+38", "1.401298464324817e-45", "0.10000000149011612",
                         "16777216", "0", "-1.5", "+Inf", "-Inf", "1.1754943508222875e-38"}
    [] k = "float64" -> {"1.7976931348623157e+308", "-1.7976931348623157e+308", "5e-324", "0.1", "1e+21", "9007199254740992",
                         "-0.30000000000000004", "+Inf", "-Inf", "3.4028235e+38"}
NumClass(k) == IF k \in {"float32", "float64"} THEN "float" ELSE IF k \in {"uint8", "uint16", "uint32", "uint64", "uint"} THEN "uint" ELSE "int"
NumV(k) == {V(NumClass(k), x) : x \in NumVals(k)}

RECURSIVE Vals(_)
Vals(t) ==
  CASE t.k = "bool" -> {V("bool", TRUE)}
    [] t.k = "int8" -> {V("int", "-128"), V("int", "0")}
    [] t.k = "int64" -> {V("int", "-9223372036854775808"), V("int", "7")}
    [] t.k = "uint64" -> {V("uint", "18446744073709551615"), V("uint", "0")}
    [] t.k = "float64" -> {V("float", "-1.5")}
    [] t.k \in {"int16", "int32", "int", "uint8", "uint16", "uint32", "uint", "float32"} -> {V(NumClass(t.k), "7")}
    [] t.k \in {"ustr", "uany"} -> {V("string", "ok")}          \* named string types with a custom Unpack method
    [] t.k = "string" -> {V("string", ""), V("string", "a$b.c,d{e}"), V("string", " pad\t")}
    [] t.k = "dur" -> {V("dur", "1500000000")}                       \* nanoseconds; text "1.5s"
    [] t.k = "re"  -> {V("re", "a.*b"), V("re", " ^x, $\t"), NilV("re")}   \* white space is part of a pattern
    [] t.k = "ptr" -> {NilV("ptr")} \cup {[k |-> "ptr", p |-> x] : x \in Vals(t.e)}
    [] t.k = "slice" -> {NilV("slice")} \cup {[k |-> "slice", xs |-> <<x, y>>] : x, y \in Vals(t.e)}
    [] t.k = "array" -> {[k |-> "array", xs |-> <<x, y>>] : x, y \in Vals(t.e)}
    [] t.k = "map" -> {NilV("map"), [k |-> "map", m |-> <<>>]} \cup {[k |-> "map", m |-> [q \in {"k"} |-> x]] : x \in Vals(t.e)}
    [] t.k = "struct" -> {[k |-> "struct", f |-> <<x, y>>] : x \in Vals(t.f[1].t), y \in Vals(t.f[2].t)}

DurText(ns) == CASE ns = "1500000000" -> "1.5s" [] ns = "0" -> "0s" [] ns = "60000000000" -> "1m0s" [] ns = "-1" -> "-1ns" [] OTHER -> "?"

\* ---------- paths on trees (named segments only) ----------
\* a tag segment that is an integer literal is a LIST INDEX (positional binding: From int `config:"0"`)
IdxSegs == ("0" :> 0) @@ ("1" :> 1)
IsIdxSeg(k) == k \in DOMAIN IdxSegs
PadTo(a, n) == [i \in 1..n |-> IF i <= Len(a) THEN a[i] ELSE Nil]
RECURSIVE SetPath(_,_,_)
\* insert v at path into node tree following normalizeSetField: returns tree or DUPE
SetPath(tree, path, v) ==
  LET k == path[1]
      isx == IsIdxSeg(k)
      ix  == IF isx THEN IdxSegs[k] + 1 ELSE 0
      old == IF isx THEN (IF ix <= Len(tree.a) THEN tree.a[ix] ELSE None)
             ELSE IF k \in DOMAIN tree.d THEN tree.d[k] ELSE None
      Put(x) == IF isx THEN N(tree.d, [PadTo(tree.a, IF ix > Len(tree.a) THEN ix ELSE Len(tree.a)) EXCEPT ![ix] = x])
                ELSE N([y \in DOMAIN tree.d \cup {k} |-> IF y = k THEN x ELSE tree.d[y]], tree.a) IN
  IF Len(path) = 1 THEN
     IF old # None /\ old.k # "nil" /\ v.k = "nil" THEN tree
     ELSE IF old = None \/ old.k = "nil" THEN Put(v)
     ELSE DUPE                                          \* (sub+sub merge does not occur in this universe)
  ELSE IF old = None \/ old.k = "nil" THEN Put(SetPath(Empty, Tail(path), v))
  ELSE IF old.k # "n" THEN [err |-> "expected_object"]
  ELSE LET sub == SetPath(old, Tail(path), v) IN
       IF IsErr(sub) THEN sub ELSE Put(sub)

\* ---------- Pack ----------
RECURSIVE Pack(_,_), PackFields(_,_,_,_)
Pack(t, v) ==
  IF "nil" \in DOMAIN v THEN (IF v.k \in {"slice", "map"} THEN N(<<>>, <<>>) ELSE Nil)   \* nil slice / nil map: an empty config
  ELSE CASE t.k = "bool" -> PB(v.v)
    [] t.k \in NumKinds -> PN(v.v)
    [] t.k \in {"string", "ustr", "uany", "re"} -> PS(v.v)
    [] t.k = "dur" -> PS(DurText(v.v))
    [] t.k = "ptr" -> Pack(t.e, v.p)
    [] t.k \in {"slice", "array"} -> N(<<>>, [i \in 1..Len(v.xs) |-> Pack(t.e, v.xs[i])])
    [] t.k = "map" -> N([q \in DOMAIN v.m |-> Pack(t.e, v.m[q])], <<>>)
    [] t.k = "struct" -> PackFields(t, v, 1, Empty)

DefaultName(n) == CASE n = "F0" -> "f0" [] n = "F1" -> "f1" [] n = "F2" -> "f2" [] n = "F3" -> "f3" [] n = "X" -> "x" [] n = "Y" -> "y"
                     [] n = "From" -> "from" [] n = "To" -> "to" [] n = "At" -> "at" [] n = "Kind" -> "kind"
                     \* exported Go names need not start with an ASCII letter: the setting is the lower-cased name
                     [] n = "Übrig" -> "übrig" [] n = "Étage" -> "étage" [] n = "Größe" -> "größe" [] n = "X_1" -> "x_1" [] n = "Q" -> "q"
                     [] n = "ÄÖ" -> "äö" [] OTHER -> n

\* The StructTag(key) option: the tags of a struct type count only when they are written under the key the option
\* names ("config" without the option); otherwise every exported field is an ordinary setting under its
\* lower-cased Go name - no renames, no inline, no ignore - at every depth.
RECURSIVE Strip(_)
Strip(t) == CASE t.k = "struct" -> TStruct([i \in 1..Len(t.f) |-> Fld(t.f[i].n, <<>>, "", Strip(t.f[i].t))])
              [] t.k \in {"ptr", "slice", "array", "map"} -> [t EXCEPT !.e = Strip(t.e)]
              [] OTHER -> t
EffType(t, tagkey, structtag) == IF tagkey = (IF structtag = "" THEN "config" ELSE structtag) THEN t ELSE Strip(t)

PackFields(t, v, i, acc) ==
  IF IsErr(acc) \/ i > Len(t.f) THEN acc
  ELSE LET f == t.f[i]
           fv == v.f[i] IN
       IF f.mode = "ignore" THEN PackFields(t, v, i+1, acc)
       ELSE IF f.mode = "inline" THEN
              \* inline: the inner struct's / map's entries are set on the same node
              (IF "nil" \in DOMAIN fv THEN PackFields(t, v, i+1, acc)
               ELSE IF f.t.k = "struct" THEN PackFields(t, v, i+1, PackFields(f.t, fv, 1, acc))
               ELSE \* map
                    LET ks == DOMAIN fv.m
                        RECURSIVE SetAll(_,_)
                        SetAll(S, a) == IF S = {} \/ IsErr(a) THEN a
                                        ELSE LET q == CHOOSE x \in S : TRUE IN SetAll(S \ {q}, SetPath(a, <<q>>, Pack(f.t.e, fv.m[q])))
                    IN PackFields(t, v, i+1, SetAll(ks, acc)))
       ELSE LET path == IF f.tag = <<>> THEN <<DefaultName(f.n)>> ELSE f.tag IN
            PackFields(t, v, i+1, SetPath(acc, path, Pack(f.t, fv)))


(* ---------- round trip -------------------------------------------------------------------- *)
\* the text a primitive setting has when it is read as a string
TextOf(t, v) == CASE t.k = "bool" -> (IF v.v THEN "true" ELSE "false")
                  [] t.k = "dur" -> DurText(v.v)
                  [] OTHER -> v.v
IsPrimT(t) == t.k \in {"bool", "string", "dur", "re", "ustr", "uany"} \cup NumKinds
\* struct{F0 t0; F1 t1} with exactly one inline map[string]string: what the map holds after Unpack
RoundTrip(D, t, v) ==
  LET im == {i \in 1..Len(t.f) : t.f[i].mode = "inline" /\ t.f[i].t.k = "map"} IN
  IF im = {} \/ "InlineMapAbsorbsSiblings" \notin D THEN [ok |-> v]
  ELSE LET i   == CHOOSE x \in im : TRUE
           sib == {j \in 1..Len(t.f) : j # i /\ t.f[j].mode = ""}
           pv(j) == Pack(t.f[j].t, v.f[j])
           \* a sibling whose setting is a sub-config cannot become a string: conversion error
           bad == {j \in sib : pv(j).k = "n"}
           nm(j) == IF t.f[j].tag = <<>> THEN DefaultName(t.f[j].n) ELSE t.f[j].tag[1]
           add == sib \ bad          \* primitives give their text, an explicit nil the zero string
           old == IF "nil" \in DOMAIN v.f[i] THEN <<>> ELSE v.f[i].m
       IN IF bad # {} \/ \E j \in sib : Len(t.f[j].tag) > 1 THEN [err |-> "conversion"]
          ELSE [ok |-> [v EXCEPT !.f[i] = [k |-> "map", m |-> [q \in DOMAIN old \cup {nm(j) : j \in add} |->
                         IF q \in DOMAIN old /\ q \notin {nm(j) : j \in add} THEN old[q]
                         ELSE LET j == CHOOSE x \in add : nm(x) = q IN
                              V("string", IF pv(j) = Nil THEN "" ELSE IF pv(j).k = "bool" THEN (IF pv(j).v THEN "true" ELSE "false") ELSE pv(j).v)]]]]
==========================================================================
