-------------------------- MODULE StoreUniverses --------------------------
(* Operation universes shared by MC_Store and Gen_Store.                     *)
EXTENDS UcfgStore, FiniteSetsExt

FM(m) == [f |-> "m", m |-> m]
FL(l) == [f |-> "l", l |-> l]
FC(h) == [f |-> "cfg", h |-> h]
FP(v) == [f |-> "p", ty |-> "s", v |-> v]
FNil  == [f |-> "nil"]
FDK(k1, k2, v) == [f |-> "dk", k1 |-> k1, k2 |-> k2, val |-> v]
EmbedFragsOf(nh) ==
     { FM(("s" :> FC(j))) : j \in 2..nh } \cup { FM(("l" :> FL(<<FC(j)>>))) : j \in 2..nh } \cup { FC(j) : j \in 2..nh }
     \cup { [f |-> "cs", h |-> j, key |-> "s", sub |-> "zz", v |-> "9"] : j \in 2..nh }
Embeds(fr) == IF fr.f \in {"cfg", "cs"} THEN fr.h
              ELSE IF fr.f = "dk" THEN 0
              ELSE IF fr.f = "m" /\ DOMAIN fr.m # {} THEN
                   (LET key == CHOOSE x \in DOMAIN fr.m : TRUE IN
                     IF fr.m[key].f = "cfg" THEN fr.m[key].h
                     ELSE IF fr.m[key].f = "l" /\ Len(fr.m[key].l) > 0 /\ fr.m[key].l[1].f = "cfg" THEN fr.m[key].l[1].h ELSE 0)
              ELSE 0
\* cyclic input to Merge is documented as unsupported: embedded sources stay heap-disjoint
\* ... and no recorded ancestor of the destination (a removed child keeps its parent link under
\* the open finding KF-15) lies inside the embedded config, or Path() would never return
RECURSIVE Ancestors(_,_,_)
Ancestors(H, id, n) == IF id = NoId \/ n = 0 THEN {} ELSE {id} \cup Ancestors(H, H[id].par, n-1)
Disjoint(st, h, j) ==
  IF j = 0 THEN TRUE
  ELSE LET rj == Reachable(st.H, {st.hs[j]}) IN
       /\ Reachable(st.H, {st.hs[h]}) \cap rj = {}
       /\ \A x \in Reachable(st.H, {st.hs[h]}) : Ancestors(st.H, x, Cardinality(DOMAIN st.H)) \cap rj = {}

(* ---- universes ------------------------------------------------------------------ *)
Seg(s)     == [s |-> s, i |-> -1]
SegI(s, i) == [s |-> s, i |-> i]
Nm(segs)   == [name |-> segs, sep |-> TRUE]
NmNoSep(s) == [name |-> <<Seg(s)>>, sep |-> FALSE]
AddrLabel(r) == (IF r.sep THEN "" ELSE "!") \o JoinDot([j \in 1..Len(r.name) |-> r.name[j].s]) \o "#" \o ToString(r.idx)
AddrsOf(names, idxs) ==
  FoldSet(LAMBDA r, acc : acc @@ (AddrLabel(r) :> r), <<>>,
          {[name |-> nm.name, sep |-> nm.sep, idx |-> idx] : nm \in names, idx \in idxs})

RootB == [EmptyNode EXCEPT !.d = ("x" :> LPrim("s", "1", "x")), !.dm = TRUE]

\* C12 core: path-addressed reads/writes/removals, no merges
NamesCore == {Nm(<<Seg("a")>>), Nm(<<Seg("b")>>), Nm(<<Seg("a"), Seg("b")>>), Nm(<<Seg("a"), SegI("0", 0)>>),
              Nm(<<SegI("1", 1)>>), Nm(<<>>), NmNoSep("c.d")}
IdxsCore  == {-1, 0, 2, 2000}          \* 2000: beyond the default MaxIdx (1024)
ValsCore  == {[ty |-> "s", v |-> "2"]}
\* the sweep also READS the two confusable spellings: the path c -> d (while "c.d" exists as one literal name, written
\* without a separator) and the literal name "a.b" (while the path a -> b exists); neither is ever written, so no
\* configuration holds both spellings of one flattened key
AddrsCore == AddrsOf(NamesCore \cup {Nm(<<Seg("c"), Seg("d")>>), NmNoSep("a.b")}, {-1, 0, 1})

\* list churn: writes past the end, removals, writes into the gap - on the root list and on a named list
NamesChurn == {Nm(<<>>), Nm(<<Seg("l")>>)}
IdxsChurn  == {0, 1, 2}
AddrsChurn == AddrsOf(NamesChurn, {-1, 0, 1, 2}) 

\* with merges, embedding, SetChild, Parent
NamesMerge == {Nm(<<Seg("a")>>), Nm(<<Seg("l")>>), Nm(<<Seg("a"), Seg("x")>>), Nm(<<Seg("s")>>), Nm(<<Seg("l"), SegI("0", 0)>>)}
IdxsMerge  == {-1, 0}
FragsMerge == { FM(("a" :> FM(("x" :> FP("1"))))),
                FM(("a" :> FL(<<FP("1")>>))),
                FM(("a" :> FP("1"))),
                FM(("a" :> FNil)),
                FM(("l" :> FL(<<FM(("x" :> FP("1"))), FP("3")>>))),
                FL(<<FP("7")>>),
                \* dotted keys with compound values (the intermediate node may or may not exist in the destination)
                FM(("a" :> FL(<<>>))),                      \* an EMPTY list (a dictionary may be merged over it later)
                FDK("a", "x", FM(("zz" :> FP("1")))),
                FDK("s", "t", FL(<<FP("1")>>)) }
\* EMPTY sub-configs that outlive their copy: an empty list / dictionary is merged into the second root, the second root
\* is merged (or embedded) into the first, then one side is written to at that place - the other must not see it
NamesEmpty == {Nm(<<Seg("a")>>), Nm(<<Seg("a"), Seg("x")>>)}
IdxsEmpty  == {-1, 0}
FragsEmpty == { FM(("a" :> FL(<<>>))), FM(("a" :> FM(<<>>))) }
AddrsEmpty == AddrsOf(NamesEmpty \cup {Nm(<<Seg("s"), Seg("a")>>), Nm(<<Seg("s"), Seg("a"), Seg("x")>>)}, {-1, 0})
PolsOne    == {"default"}
PolsAll    == {"default", "replace", "arrreplace", "append", "prepend"}
PolsTwo    == {"default", "append"}
PolsThree  == {"default", "append", "prepend"}
SCNames    == {Nm(<<Seg("s")>>), Nm(<<Seg("a")>>)}
AddrsMerge == AddrsOf(NamesMerge, {-1, 0})
NoNames    == {}
NoFrags    == {}
==========================================================================
