---------------------------- MODULE Gen_Store ----------------------------
(* Direction A for the store family (C12, C15, C10): TLC explores the state
   graph of the heap/handle machine to a depth bound and prints ONE replayable
   test per evaluated transition: the shortest history to the pre-state, the
   operation, and the expected result + projected post-state.

   The state graph explored is the one of the layer `Known` (the implementation
   with its currently listed deviations); the Ideal layer and the layers with
   one deviation removed are carried along the same history so that each case
   lists every admissible outcome (section 5 of DESIGN.md).  `hist`, and the
   side layers, are hidden from the VIEW.                                     *)
EXTENDS StoreUniverses, Layers, Json, SequencesExt

CONSTANTS MaxOps, MaxHandles,
          Names, Idxs, SetVals, Frags, MergePols, SetChildNames, SweepAddrs, Roots2,
          WithEmbed, WithParent

\* layer 1 = Known (the graph that is explored), then the Ideal layer, then Known minus one deviation
LayerSeq == <<Known>> \o SetToSeq(({{}} \cup DevSets) \ {Known})
NL == Len(LayerSeq)
VARIABLES sts,      \* 1..NL -> [H, hs]
          nops, hist, dead
vars == <<sts, nops, hist, dead>>
\* cached aliases: a constant bound with `<-` in the .cfg is re-evaluated on every use, a definition is not
cNames == Names
cIdxs == Idxs
cSetVals == SetVals
cFrags == Frags
cMergePols == MergePols
cSetChildNames == SetChildNames
cSweepAddrs == SweepAddrs
cRoots2 == Roots2

K == sts[1]

Init ==
  /\ sts = [x \in 1..NL |-> [H |-> (1 :> EmptyNode) @@ (2 :> cRoots2), hs |-> <<1, 2>>]]
  /\ nops = 0 /\ hist = <<>> /\ dead = FALSE
  /\ PrintT(ToJson([hdr |-> [addrs |-> DOMAIN cSweepAddrs]]))

Outcome(x, op) == LET r == Apply(LayerSeq[x], sts[x], op) IN [res |-> r.res, post |-> Proj(LayerSeq[x], r.st, cSweepAddrs)]
IdealIx == CHOOSE x \in 1..NL : LayerSeq[x] = {}
Emit(op) ==
  LET ideal == Outcome(IdealIx, op)
      alts  == {[devs |-> LayerSeq[x], out |-> Outcome(x, op)] : x \in {y \in 1..NL : LayerSeq[y] # {}}}
      diff  == {x \in alts : x.out # ideal}
  IN PrintT(ToJson([hist |-> hist, op |-> op, exp |-> [ideal |-> ideal, alts |-> SetToSeq(diff)]]))

Do(op) ==
  LET rk == Apply(Known, K, op) IN
  /\ Cardinality(DOMAIN rk.st.H) <= MaxNodes
  /\ Len(rk.st.hs) <= MaxHandles
  /\ sts' = [x \in 1..NL |-> Apply(LayerSeq[x], sts[x], op).st]
  /\ hist' = Append(hist, op)
  /\ dead' = (rk.res = "panic")
  /\ Emit(op)

NH == Len(K.hs)
SetOps    == {[op |-> "set", h |-> h, name |-> nm.name, sep |-> nm.sep, idx |-> idx, ty |-> v.ty, v |-> v.v] :
                 h \in 1..NH, nm \in cNames, idx \in cIdxs, v \in cSetVals}
RemoveOps == {[op |-> "remove", h |-> h, name |-> nm.name, sep |-> nm.sep, idx |-> idx] : h \in 1..NH, nm \in cNames, idx \in cIdxs}
ChildOps  == {[op |-> "child", h |-> h, name |-> nm.name, sep |-> nm.sep, idx |-> idx] : h \in 1..NH, nm \in cNames, idx \in cIdxs}
ParentOps == IF WithParent THEN {[op |-> "parent", h |-> h] : h \in 1..NH} ELSE {}
MergeOps  == {[op |-> "merge", h |-> h, fr |-> fr, pol |-> pol] : h \in 1..NH, fr \in cFrags \cup (IF WithEmbed THEN EmbedFragsOf(NH) ELSE {}), pol \in cMergePols}
SetChildOps == {[op |-> "setchild", h |-> 1, name |-> nm.name, sep |-> nm.sep, idx |-> -1, j |-> j] : nm \in cSetChildNames, j \in 2..NH}

\* new handles only for nodes not yet held (keeps the graph small; aliases arise through setchild/merge)
FreshHandle(op) == LET r == Apply(Known, K, op) IN
                   r.res = "ok" /\ r.st.hs[Len(r.st.hs)] \notin {K.hs[i] : i \in 1..NH}
InBounds(op) == LET fs == PathOf(op.name, op.idx) IN
                /\ (SetMaxIdx(fs) < MaxArr \/ SetMaxIdx(fs) > DefaultMaxIdx)      \* (beyond MaxIdx: an error, nothing grows)
                /\ Cardinality(DOMAIN K.H) + SetGrowth(Known, K.H, K.hs[op.h], fs) <= MaxNodes

Next ==
  /\ ~dead /\ nops < MaxOps /\ nops' = nops + 1
  /\ \/ \E op \in SetOps : InBounds(op) /\ Do(op)
     \/ \E op \in RemoveOps : Do(op)
     \/ \E op \in ChildOps \cup ParentOps : NH < MaxHandles /\ FreshHandle(op) /\ Do(op)
     \/ \E op \in MergeOps : Embeds(op.fr) # op.h /\ Disjoint(K, op.h, Embeds(op.fr)) /\ Do(op)
     \/ \E op \in SetChildOps : InBounds(op) /\ Disjoint(K, op.h, op.j) /\ Do(op)

View == <<K, nops, dead>>

==========================================================================
