--------------------------- MODULE UcfgValues ---------------------------
(* Abstract configuration values shared by the pure (tree-level) families
   of the go-ucfg specification.

   A value is
     [k |-> "nil"]                         an explicit nil setting (cfgNil)
     [k |-> "p", ty |-> T, v |-> text]     a primitive; T is "s" string, "n" number,
                                           "b" bool; the payload is always text
                                           (numbers: canonical decimal text)
     [k |-> "n", d |-> [Key -> Value], a |-> Seq(Value)]
                                           a Config node.  A node carries BOTH a
                                           dictionary and a list part because the
                                           implementation does (fields.d / fields.a).
   "absent" is represented by None where an operator has to talk about it.     *)
EXTENDS Integers, Sequences, FiniteSets, TLC

Nil      == [k |-> "nil"]
None     == [k |-> "none"]
P(ty, v) == [k |-> "p", ty |-> ty, v |-> v]
S(v)     == P("s", v)
N(d, a)  == [k |-> "n", d |-> d, a |-> a]
Empty    == N(<<>>, <<>>)
D1(k, v) == N((k :> v), <<>>)           \* one-entry dictionary
L(a)     == N(<<>>, a)                  \* list node

IsNode(v)  == v.k = "n"
IsNilV(v)  == v.k = "nil"
IsPrim(v)  == v.k = "p"
(* value.toConfig succeeds for sub-configs and for nil (types.go:223) *)
\* [k |-> "alias", to, tgt]: a setting of the SOURCE of a merge that is exactly one reference ${to} to a
\* sub-config tgt of the same source (variable expansion on): it converts to a config like the target does
Alias(to, tgt) == [k |-> "alias", to |-> to, tgt |-> tgt]
\* (a reference converts to a config exactly when what it refers to does: ${zz} with zz a primitive does not)
ToCfgOk(v) == v.k \in {"n", "nil"} \/ (v.k = "alias" /\ v.tgt.k \in {"n", "nil"})
AsCfg(v)   == IF v.k = "nil" THEN Empty ELSE IF v.k = "alias" THEN v.tgt ELSE v

Max(x, y) == IF x > y THEN x ELSE y
Min(x, y) == IF x < y THEN x ELSE y

(* ---- bounded universes -------------------------------------------------- *)
RECURSIVE Trees(_,_,_,_)
Trees(n, Keys, Prims, MaxLen) ==
  IF n = 0 THEN {Nil} \cup Prims
  ELSE LET sub   == Trees(n-1, Keys, Prims, MaxLen)
           dicts == UNION {[K -> sub] : K \in SUBSET Keys}
           lists == UNION {[1..l -> sub] : l \in 1..MaxLen}
       IN sub \cup {N(d, <<>>) : d \in dicts} \cup {N(<<>>, a) : a \in lists}
Tops(n, Keys, Prims, MaxLen) == {t \in Trees(n, Keys, Prims, MaxLen) : t.k = "n"}

(* ---- canonical form: "nil and empty objects considered equal" ------------ *)
RECURSIVE Canon(_)
Canon(t) ==
  IF t.k # "n" THEN t
  ELSE LET d  == [key \in DOMAIN t.d |-> Canon(t.d[key])]
           a  == [i \in 1..Len(t.a) |-> Canon(t.a[i])]
       IN IF DOMAIN d = {} /\ a = <<>> THEN Nil ELSE N(d, a)

(* CanonU additionally drops nil-valued dictionary entries: what survives an
   Unpack into map[string]interface{} (reifyMap stores no invalid values).    *)
RECURSIVE CanonU(_)
CanonU(t) ==
  IF t.k # "n" THEN t
  ELSE LET d0 == [key \in DOMAIN t.d |-> CanonU(t.d[key])]
           d  == [key \in {x \in DOMAIN d0 : d0[x] # Nil} |-> d0[key]]
           a  == [i \in 1..Len(t.a) |-> CanonU(t.a[i])]
       IN IF DOMAIN d = {} /\ a = <<>> THEN Nil ELSE N(d, a)

(* ---- the observation function ----------------------------------------------
   What the generic Unpack returns (a transcription of cfgSub.reify, types.go
   :367-419, followed by the harness' canonicalisation).  The specification
   owns it: a node with both parts unpacks to ONE map with the list under index
   keys, map targets drop nil entries, empty containers equal nil.            *)
ONil == [t |-> "nil"]
OPrim(v) == [t |-> "s", s |-> v.ty \o ":" \o v.v]

RECURSIVE Obs(_)
ObsParts(t) ==
  LET dd   == [key \in DOMAIN t.d |-> Obs(t.d[key])]
      keep == {key \in DOMAIN dd : dd[key] # ONil}
  IN [m |-> [key \in keep |-> dd[key]],
      l |-> [i \in 1..Len(t.a) |-> Obs(t.a[i])],
      all |-> dd]
Obs(v) ==
  IF v.k = "nil" THEN ONil
  ELSE IF v.k = "alias" THEN Obs(v.tgt)      \* read with variable expansion: the referenced value
  ELSE IF v.k = "p" THEN OPrim(v)
  ELSE LET p == ObsParts(v) IN
       IF Len(p.l) = 0
         THEN (IF DOMAIN p.m = {} THEN ONil ELSE [t |-> "m", m |-> p.m])
       ELSE IF DOMAIN p.all = {}
         THEN [t |-> "l", l |-> p.l]
       ELSE \* mixed node: list entries overwrite dictionary entries of the same name
            LET idx(key) == {i \in 1..Len(p.l) : ToString(i-1) = key}
                allk     == DOMAIN p.all \cup {ToString(i-1) : i \in 1..Len(p.l)}
                val(key) == IF idx(key) # {} THEN p.l[CHOOSE i \in idx(key) : TRUE] ELSE p.all[key]
                keepk    == {key \in allk : val(key) # ONil}
            IN IF keepk = {} THEN ONil ELSE [t |-> "m", m |-> [key \in keepk |-> val(key)]]

(* top level: the map target ignores the list part and the slice target the
   dictionary part, so the observation of a whole config is the pair          *)
ObsTop(t) ==
  LET p == ObsParts(t) IN
  [m |-> IF DOMAIN p.m = {} THEN ONil ELSE [t |-> "m", m |-> p.m],
   l |-> IF Len(p.l) = 0 THEN ONil ELSE [t |-> "l", l |-> p.l]]

(* The generic targets show an explicit nil and an EMPTY object alike (both unpack to nil); typed reads do not
   (a nil leaves a pointer field alone, an empty object is a type error for an int).  NilPaths lists the
   positions that hold an explicit nil - the merge family compares it in addition to the pair above.       *)
RECURSIVE NilPaths(_,_)
NilPaths(t, p) ==
  IF t.k = "nil" THEN {p}
  ELSE IF t.k # "n" THEN {}
  ELSE UNION {NilPaths(t.d[key], Append(p, key)) : key \in DOMAIN t.d}
       \cup UNION {NilPaths(t.a[i], Append(p, ToString(i-1))) : i \in 1..Len(t.a)}
ObsTopN(t) == [m |-> ObsTop(t).m, l |-> ObsTop(t).l, nils |-> NilPaths(t, <<>>)]

(* ---- addressing inside trees (for the declarative properties) -------------
   A position is a sequence of steps NF(name) / IX(i) (0-based index).        *)
NF(n) == [t |-> "n", n |-> n]
IX(i) == [t |-> "i", i |-> i]
StepGet(t, s) ==
  IF t.k # "n" THEN None
  ELSE IF s.t = "i" THEN (IF s.i >= 0 /\ s.i < Len(t.a) THEN t.a[s.i + 1] ELSE None)
  ELSE IF s.n \in DOMAIN t.d THEN t.d[s.n] ELSE None
RECURSIVE At(_,_)
At(t, pos) == IF pos = <<>> THEN t
              ELSE LET c == StepGet(t, pos[1]) IN IF c = None THEN None ELSE At(c, Tail(pos))

(* the tree with the subtree at pos (if any) replaced by Nil                  *)
RECURSIVE Mask(_,_)
Mask(t, pos) ==
  IF pos = <<>> THEN Nil
  ELSE IF StepGet(t, pos[1]) = None THEN t
  ELSE IF pos[1].t = "i"
       THEN [t EXCEPT !.a[pos[1].i + 1] = Mask(@, Tail(pos))]
       ELSE [t EXCEPT !.d[pos[1].n] = Mask(@, Tail(pos))]

(* all positions of a tree reachable through dictionary steps only            *)
RECURSIVE KeyPaths(_)
KeyPaths(t) ==
  IF t.k # "n" THEN {<<>>}
  ELSE {<<>>} \cup UNION {{<<NF(key)>> \o p : p \in KeyPaths(t.d[key])} : key \in DOMAIN t.d}

SeqIsSubseqAt(s, big, off) == \A i \in 1..Len(s) : big[off + i] = s[i]
==========================================================================
