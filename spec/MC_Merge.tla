----------------------------- MODULE MC_Merge -----------------------------
(* Model-level check of C01 and C16: the operational merge of UcfgMerge (Ideal
   layer, D = {}) implies the declarative statements of the two properties for
   EVERY pair of trees of a bounded universe and every policy.               *)
EXTENDS UcfgMerge, MergeUniverses

CONSTANTS UA, UB,            \* sets of top-level nodes (destination, source)
          FieldPaths,        \* set of per-field option paths ({} disables C16 part)
          Dev                \* deviation set under test ({} = Ideal)

VARIABLES a, b, pol, fp, fpol, ph
vars == <<a, b, pol, fp, fpol, ph>>
\* cached aliases: a constant bound with `<-` in the .cfg is re-evaluated on every use, a definition is not
cUA == UA
cUB == UB
cFieldPaths == FieldPaths


(* Init enumerates only the destination; the rest is chosen by Next so that
   TLC's workers share the enumeration (initial states are computed by one
   thread).  Every invariant is guarded by ph = 1.                            *)
NoFP == <<NF("-none-")>>
Init == /\ a \in cUA /\ b = Empty /\ pol = "default" /\ fp = NoFP /\ fpol = "merge" /\ ph = 0
Next == /\ ph = 0 /\ ph' = 1 /\ a' = a
        /\ b' \in cUB /\ pol' \in Pols
        /\ \/ fp' = NoFP /\ fpol' = "merge"
           \/ fp' \in cFieldPaths /\ fpol' \in FPols

Fos  == IF fp = NoFP THEN <<>> ELSE <<[path |-> fp, pol |-> fpol]>>
Res  == Merge(Dev, pol, Fos, a, b)
Base == Merge(Dev, pol, <<>>, a, b)
Plain == ph = 1 /\ fp = NoFP
Field == ph = 1 /\ fp # NoFP

(* ---------------- C01, stated without reference to MergeCfg's structure ------ *)
\* what one slot must hold after merging bv over av (av = None when absent)
SlotOK(rv, av, bv, p) ==
  IF av = None THEN rv = bv
  ELSE IF IsNode(av) /\ IsNilV(bv) THEN Canon(rv) = Canon(av)              \* nil keeps a container
  ELSE IF IsNode(av) /\ IsNode(bv)
       THEN rv = MergeCfg({}, NoOpts(p), av, bv)                            \* both containers: recursive contents
  ELSE Canon(rv) = Canon(bv) /\ (IsNilV(bv) => rv = bv)                    \* B's value (a nil stays an explicit nil)

DictOK ==
  Plain =>
  IF DOMAIN b.d = {} THEN Res.d = a.d                                       \* empty dict replaces nothing
  ELSE IF pol = "replace"
       THEN Res.d = b.d                                                     \* B alone
  ELSE /\ DOMAIN Res.d = DOMAIN a.d \cup DOMAIN b.d                          \* union of keys
       /\ \A key \in DOMAIN a.d \ DOMAIN b.d : Res.d[key] = a.d[key]
       /\ \A key \in DOMAIN b.d :
            SlotOK(Res.d[key], IF key \in DOMAIN a.d THEN a.d[key] ELSE None, b.d[key], pol)

ListOK ==
  Plain =>
  CASE pol = "append"  -> Res.a = a.a \o b.a
    [] pol = "prepend" -> Res.a = b.a \o a.a
    [] pol \in {"replace", "arrreplace"} -> Res.a = (IF b.a = <<>> THEN a.a ELSE b.a)
    [] OTHER -> /\ Len(Res.a) = Max(Len(a.a), Len(b.a))
                /\ \A i \in 1..Len(Res.a) :
                     IF i > Len(b.a) THEN Res.a[i] = a.a[i]
                     ELSE SlotOK(Res.a[i], IF i <= Len(a.a) THEN a.a[i] ELSE None, b.a[i], pol)

LenSum == (Plain /\ pol \in {"append", "prepend"}) => Len(Res.a) = Len(a.a) + Len(b.a)
EmptyIsIdentity ==
  Plain => /\ Merge(Dev, pol, <<>>, a, Empty) = a
           /\ Canon(Merge(Dev, pol, <<>>, Empty, b)) = Canon(b)

SelfMerge ==
  (Plain /\ a \in cUB /\ pol \in {"default", "replace", "arrreplace"}) =>
     Canon(Merge(Dev, pol, <<>>, a, a)) = Canon(a)

(* nothing is invented: every primitive of the result occurs in an operand    *)
RECURSIVE PrimsOf(_)
PrimsOf(t) == IF t.k = "p" THEN {t} ELSE IF t.k # "n" THEN {}
              ELSE UNION ({PrimsOf(t.d[key]) : key \in DOMAIN t.d} \cup {PrimsOf(t.a[i]) : i \in 1..Len(t.a)})
NoInvention == ph = 1 => PrimsOf(Res) \subseteq PrimsOf(a) \cup PrimsOf(b)

(* ---------------- C16 -------------------------------------------------------- *)
\* the merge really descends to fp: every proper ancestor is a node on both sides
RECURSIVE Descends(_,_,_)
Descends(x, y, pos) ==
  pos = <<>> \/ ( /\ IsNode(x) /\ IsNode(y)
                  /\ LET cx == StepGet(x, pos[1]) cy == StepGet(y, pos[1]) IN
                     IF Len(pos) = 1 THEN TRUE
                     ELSE cx # None /\ cy # None /\ Descends(cx, cy, Tail(pos)))
NamedOnly(pos) == \A i \in 1..Len(pos) : pos[i].t = "n" /\ pos[i].n # "**"

\* outside the named subtree the per-field option changes nothing
ScopedOutside ==
  (Field /\ NamedOnly(fp)) => Mask(Res, fp) = Mask(Base, fp)

\* inside, the subtree is merged as if the named policy were the global one
ScopedInside ==
  (Field /\ NamedOnly(fp) /\ pol # "replace" /\ Descends(a, b, fp)) =>
     LET av == At(a, fp) bv == At(b, fp) IN
     IF bv = None THEN At(Res, fp) = av
     ELSE At(Res, fp) = MergeVal({}, NoOpts(fpol), av, bv)

(* sharing only the last name component at another depth is not a match       *)
NoLeak ==
  (Field /\ NamedOnly(fp)) =>
     \A q \in KeyPaths(Res) :
        (Len(q) > 0 /\ q # fp /\ ~(Len(q) >= Len(fp) /\ SubSeq(q, 1, Len(fp)) = fp))
           => (At(Res, q) = At(Base, q) \/ (Len(fp) > Len(q) /\ SubSeq(fp, 1, Len(q)) = q))
==========================================================================
