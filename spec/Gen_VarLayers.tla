---------------------------- MODULE Gen_VarLayers ----------------------------
(* C02 / C08 on the LAYERS a reference falls through: the owning tree, the Env configurations and the
   resolvers of every kind - Resolve(fn), ResolveEnv (the process environment), ResolveNOOP - in every
   order; a resolver that answers with the empty text; Env configurations whose own settings are
   references (to a name that is active in the ROOT at that moment - another reference, no cycle - and
   to one another - a real cycle across two trees); and ONE Unpack into a struct whose time.Duration and
   string fields use the same variable (every field is read for itself).                               *)
EXTENDS UcfgVarExp, Layers, Json, SequencesExt

VARIABLES shp, cs
vars == <<shp, cs>>
Leaf(e) == IF e.t = "lit" THEN StrV(e.s) ELSE Dyn(e)
ShapesAB == {Lit("5s"), Ref("y"), Ref("m"), Cat(<<Lit("0m"), Ref("m")>>), Cat(<<Lit("0m"), Ref("y")>>), Def(Lit("m"), Lit("1s")), Alt(Lit("m"), Lit("9s"))}
ShapesY  == {Ref("x"), Ref("m"), Ref("y"), Def(Lit("y"), Lit("7s"))}
World(ea, eb, ey, envs, res) ==
  [root |-> N(("a" :> Leaf(ea)) @@ ("b" :> Leaf(eb)) @@ ("y" :> Leaf(ey)) @@ ("x" :> StrV("5s")), <<>>), envs |-> envs, res |-> res]
ReadNames == <<"a", "b", "y">>
StructFields == << [n |-> "a", t |-> "duration"], [n |-> "b", t |-> "string"], [n |-> "a", t |-> "duration"], [n |-> "b", t |-> "duration"], [n |-> "y", t |-> "iface"] >>

Exp(F(_)) == LET ideal == F({})
                 alts  == {[devs |-> DS, out |-> F(DS)] : DS \in DevSets}
                 diff  == {x \in alts : x.out # ideal}
             IN [ideal |-> ideal, alts |-> SetToSeq(diff)]
OutText(r)  == IF IsE(r) THEN [err |-> r.err] ELSE [ok |-> r.ok]
OutTyped(r) == IF IsE(r) THEN (IF "errs" \in DOMAIN r THEN [err |-> "any", errs |-> r.errs] ELSE [err |-> r.err, errs |-> {r.err}])
               ELSE [ok |-> Obs(r.ok)]
OutHas(r)   == IF IsE(r) THEN [err |-> r.err] ELSE [ok |-> r.ok]
Case(W) ==
  [w |-> W, amb |-> FALSE, cyc |-> TRUE,
   reads |-> [i \in 1..Len(ReadNames) |->
               LET n == ReadNames[i] IN
               [name |-> n,
                str   |-> LET F(DS) == OutText(GetString(DS, W, n)) IN Exp(F),
                typed |-> LET F(DS) == OutTyped(GetTyped(DS, W, n)) IN Exp(F),
                has   |-> LET F(DS) == OutHas(Has(DS, W, n)) IN Exp(F)]],
   unpack |-> LET F(DS) == OutTyped(UnpackAll(DS, W)) IN Exp(F),
   fields |-> StructFields,
   \* Unpack visits the fields in declaration order and stops at the first one that fails: the replay derives the
   \* outcome from the per-field results (a text that is no duration fails at its time.Duration field, C03)
   struct |-> LET F(DS) == [per |-> [i \in 1..Len(StructFields) |-> OutTyped(GetTyped(DS, W, StructFields[i].n))]] IN Exp(F),
   flat   |-> LET F(DS) == Flatten(DS, W, 8) IN Exp(F)]

\* Env configurations: E4's m is a reference to a name that the ROOT has active when it gets there (a -> y -> m);
\* E5 and E6 refer to one another (m -> q -> m: a cycle through two trees, neither through the root)
E4 == N(("m" :> Dyn(Ref("y"))) @@ ("y" :> StrV("3s")), <<>>)
E5 == N(("m" :> Dyn(Ref("q"))), <<>>)
E6 == N(("q" :> Dyn(Ref("m"))), <<>>)
E7 == N(("q" :> StrV("6s")), <<>>)
EnvSets == {<<>>, <<E4>>, <<E5, E6>>, <<E6, E5>>, <<E5, E7>>}
Fn1  == ("m" :> "2s")
FnE  == ("m" :> "")
FnQ  == ("q" :> "8s")
OsE  == [kind |-> "osenv", tab |-> ("m" :> "4s")]
OsN  == [kind |-> "osenv", tab |-> ("m" :> "")]
Noop == [kind |-> "noop"]
ResSets == {<<>>, <<Fn1>>, <<FnE>>, <<OsE>>, <<Noop>>, <<Fn1, OsE>>, <<OsE, Fn1>>, <<Fn1, Noop>>, <<Noop, Fn1>>,
            <<FnE, Fn1>>, <<Fn1, FnE>>, <<Fn1, OsN>>, <<OsE, Noop>>, <<Noop, OsE>>, <<FnQ>>, <<Fn1, OsE, Noop>>}

Init == shp \in ShapesAB /\ cs = <<>>
Next == /\ cs = <<>> /\ UNCHANGED shp
        /\ \E eb \in ShapesAB, ey \in ShapesY, envs \in EnvSets, res \in ResSets :
              cs' = <<eb, ey, envs, res>> /\ PrintT(ToJson(Case(World(shp, eb, ey, envs, res))))
View == <<shp, cs = <<>> >>
TabLayers == [x \in {} |-> <<>>]
TypeOK == shp \in ShapesAB

(* ---- declarative properties on the model (MC) --------------------------------------------------- *)
W0(eb, ey, envs, res) == World(shp, eb, ey, envs, res)
\* C02: the resolvers are asked most-recently-added first, whatever their kind
ResolverOrder ==
  \A res \in ResSets : LET W == World(shp, Lit("5s"), Ref("x"), <<>>, res)
                           r == Resolve({}, W, 0, "m", {})
                           ks == {j \in 1..Len(res) : Knows(res[j], "m")} IN
     IF ks = {} THEN r.f = "err" ELSE (r.f = "text" /\ r.s = Answer(res[CHOOSE j \in ks : \A x \in ks : x <= j], "m"))
\* C08: a name that is active in the root is not active inside an Env configuration
NoCrossTreeFalseCycle ==
  LET W == World(Ref("y"), shp, Ref("m"), <<E4>>, <<>>) IN GetString({}, W, "a") = EOk("3s")
\* ... and a cycle that runs through two Env configurations is still reported
CrossEnvCycleReported ==
  LET W == World(Ref("m"), shp, Ref("x"), <<E5, E6>>, <<>>) IN GetString({}, W, "a") = Cyc
\* the repaired deviation is refuted by the model: keyed by name only, the E4 world reports a false cycle
NameKeyedFalseCycle ==
  LET W == World(Ref("y"), shp, Ref("m"), <<E4>>, <<>>) IN ~IsE(GetString({"ActiveKeyedByName"}, W, "a"))
==========================================================================
