------------------------------ MODULE Layers ------------------------------
(* The layers of the specification a conformance run compares the code with.
   Groups is a set of sets of deviation names: one group per finding listed as
   open in known_findings.json (the orchestrator writes it into the .cfg).
   Known = all of them = the implementation as it is today; {} = the Ideal
   layer; Known minus one group = "that finding has been repaired".          *)
EXTENDS FiniteSets
CONSTANT Groups
Known   == UNION Groups
DevSets == ({Known} \cup {Known \ g : g \in Groups}) \ {{}}
==========================================================================
