----------------------------- MODULE Gen_Convert -----------------------------
(* C03 exhaustive: source kind x (19 boundaries x offsets -2..2 x {whole, half}
   + NaN, +-Inf) x 13 targets.  The harness concretises each abstract number
   with math/big, skips a (source kind, number) pair the kind cannot represent
   exactly, and checks the stored value against the exact truncation.        *)
EXTENDS UcfgConvert, Layers, Json, SequencesExt

VARIABLES src, cs
vars == <<src, cs>>
Nums == {Num(Bases[i], o, h) : i \in 1..Len(Bases), o \in -2..2, h \in BOOLEAN} \cup {NaN, PInf, NInf}
Case(n, tgt) ==
  LET ideal == Convert({}, src, n, tgt)
      alts  == {[devs |-> DS, out |-> Convert(DS, src, n, tgt)] : DS \in DevSets}
      diff  == {x \in alts : x.out # ideal}
  IN [src |-> src, n |-> n, tgt |-> tgt, exp |-> [ideal |-> ideal, alts |-> SetToSeq(diff)]]
Init == src \in Sources /\ cs = <<>>
Next == /\ cs = <<>> /\ UNCHANGED src
        /\ \E n \in Nums, tgt \in Targets : cs' = <<n, tgt>> /\ PrintT(ToJson(Case(n, tgt)))
View == <<src, cs = <<>> >>
NoWrapIdeal == cs # <<>> => NoWrap(Convert({}, src, cs[1], cs[2]))
\* for MC runs with a deviation bound through Groups
NoWrapKnown == cs # <<>> => NoWrap(Convert(Known, src, cs[1], cs[2]))
==========================================================================
