---------------------------- MODULE Gen_VarShare ----------------------------
(* C02 / C10 for settings with ${...} that are COPIES of one another: a *Config holding a template setting
   `data: <expr over host>` is merged into a second configuration, and embedded (as a *Config value) in two
   different trees one of which is the Env of the other.  Copies made by Merge may share whatever the
   implementation attaches to a parsed expression; the specification knows no such thing: every copy is
   evaluated in the tree it lives in, looked up from ITS root, whatever was read before and wherever.

     S = {host: "S", data: E}                       the source, read before and after
     D = New().Merge(S); D.host := "D"              the destination
     L = {host: "L", primary: T, all: "${primary.data} ${backup.data}"},  R = {host: "R", backup: T},  T = {data: E}
     read L.all with Env(R)                                                                     *)
EXTENDS UcfgVarExp, Layers, Json, SequencesExt

Exprs == {Ref("host"), Cat(<<Ref("host"), Lit("/d")>>), Cat(<<Ref("host"), Ref("host")>>), Def(Lit("host"), Lit("z")),
          Def(Lit("nope"), Ref("host")), Alt(Lit("host"), Ref("host")), Cat(<<Lit("p-"), Ref("host"), Lit("-s")>>), Ind(Lit("host"))}
Leaf(e) == Dyn(e)
WOf(h, e) == [root |-> N(("host" :> StrV(h)) @@ ("data" :> Leaf(e)), <<>>), envs |-> <<>>, res |-> <<>>]
WAll(e) == [root |-> N(("host" :> StrV("L")) @@ ("primary" :> N(("data" :> Leaf(e)), <<>>))
                       @@ ("all" :> Dyn(Cat(<<Ref("primary.data"), Lit(" "), Ref("backup.data")>>))), <<>>),
            envs |-> <<N(("host" :> StrV("R")) @@ ("backup" :> N(("data" :> Leaf(e)), <<>>)), <<>>)>>, res |-> <<>>]
\* two copies of the template under ONE root, unpacked by ONE call into struct{One struct{Data string}; Two struct{Data
\* time.Duration}} (and the other way round): the text is no duration, the call fails AT the duration field's setting -
\* the error names THAT copy (C14), whatever was read from the other copy before
WPair(e) == [root |-> N(("host" :> StrV("H")) @@ ("one" :> N(("data" :> Leaf(e)), <<>>)) @@ ("two" :> N(("data" :> Leaf(e)), <<>>)), <<>>),
             envs |-> <<>>, res |-> <<>>]
Out(r) == IF IsE(r) THEN [err |-> r.err] ELSE [ok |-> r.ok]
VARIABLES e, cs
vars == <<e, cs>>
Init == e \in Exprs /\ cs = 0
Next == /\ cs = 0 /\ cs' = 1 /\ UNCHANGED e
        /\ PrintT(ToJson([e |-> e, exp |-> [ideal |-> [s |-> Out(GetString({}, WOf("S", e), "data")),
                                                         d |-> Out(GetString({}, WOf("D", e), "data")),
                                                         all |-> Out(GetString({}, WAll(e), "all")),
                                                         one |-> Out(GetString({}, WPair(e), "one.data")),
                                                         two |-> Out(GetString({}, WPair(e), "two.data"))], alts |-> <<>>]]))
View == <<e, cs>>
TabShare == ("primary.data" :> <<NF("primary"), NF("data")>>) @@ ("backup.data" :> <<NF("backup"), NF("data")>>)
            @@ ("one.data" :> <<NF("one"), NF("data")>>) @@ ("two.data" :> <<NF("two"), NF("data")>>)
\* the copies differ exactly by their tree: S and D read differently whenever the expression uses host
Independent == cs = 1 => (GetString({}, WOf("S", e), "data") # GetString({}, WOf("D", e), "data"))
==========================================================================
