---------------------------- MODULE Trace_Paths ----------------------------
(* Direction B for C20: random integer literals in random syntax (bases, signs,
   leading zeros, underscores, upper case, huge values) used as map key, struct
   tag and setter name under random MaxIdx / EnableNumKeys.  The driver records
   what strconv says about each segment; the RULE (index iff literal and
   0 <= value <= MaxIdx and not a single numeric key under EnableNumKeys) and
   the resulting structure are the specification's.                          *)
EXTENDS UcfgPaths, Layers, Json

Tr  == ndJsonDeserialize("trace_paths.ndjson")
NEv == Len(Tr)
VARIABLES l, known, bad, nviol
vars == <<l, known, bad, nviol>>
Out(D, ev) == LET r == TreeOfKey(D, ev.key, ev.maxidx, ev.numkeys) IN
              IF IsErr(r) THEN [err |-> r.err] ELSE [ok |-> ObsTop(AsCfg(r.ok))]
Init == l = 1 /\ known = [d \in Known |-> 0] /\ bad = <<>> /\ nviol = 0
Next ==
  /\ l <= NEv /\ l' = l + 1
  /\ LET ev == Tr[l] IN
     IF ev.out = Out({}, ev) THEN UNCHANGED <<known, bad, nviol>>
     ELSE LET ms == {DS \in DevSets : ev.out = Out(DS, ev)} IN
          IF ms # {}
          THEN /\ known' = [d \in Known |-> known[d] + (IF \A DS \in ms : d \in DS THEN 1 ELSE 0)]
               /\ UNCHANGED <<bad, nviol>>
          ELSE /\ nviol' = nviol + 1
               /\ bad' = IF Len(bad) < 5 THEN Append(bad, [l |-> l, want |-> Out({}, ev)]) ELSE bad
               /\ UNCHANGED known
Spec == Init /\ [][Next]_vars
Report == l = NEv + 1 =>
  PrintT(<<"REPORT", ToJson([n |-> NEv, nviol |-> nviol, known |-> known, bad |-> bad])>>)
Accepted == TLCGet("stats").diameter = NEv + 1
==========================================================================
