----------------------------- MODULE Gen_Paths -----------------------------
(* C20, exhaustive: every spelling of the table x MaxIdx x EnableNumKeys x
   position in the key (single key, first / middle / last dotted segment) x the
   key wrapped in [ ] or not x EscapePath on / off.
   The same module checks the model-level invariants (Gen and MC coincide:
   the universe is small) and prints one replayable case per combination.   *)
EXTENDS UcfgPaths, Layers, Json, SequencesExt

Sp(s, lit, val) == [s |-> s, lit |-> lit, val |-> val]
Nm(s) == Sp(s, FALSE, 0)
Spellings == {
  Sp("0", TRUE, 0), Sp("1", TRUE, 1), Sp("2", TRUE, 2), Sp("3", TRUE, 3), Sp("5", TRUE, 5), Sp("6", TRUE, 6),
  Sp("+1", TRUE, 1), Sp("-1", TRUE, -1), Sp("-0", TRUE, 0), Sp("+0", TRUE, 0), Sp("-2", TRUE, -2),
  Sp("01", TRUE, 1), Sp("007", TRUE, 7), Sp("0x2", TRUE, 2), Sp("0X3", TRUE, 3), Sp("0b11", TRUE, 3), Sp("0o5", TRUE, 5),
  Sp("1_0", TRUE, 10), Sp("0x_2", TRUE, 2), Sp("1024", TRUE, 1024), Sp("1025", TRUE, 1025),
  Sp("9223372036854775807", TRUE, 100000), Sp("-9223372036854775808", TRUE, -100000),
  Sp("9223372036854775808", FALSE, 0), Sp("18446744073709551615", FALSE, 0),
  Nm(" 1"), Nm("1 "), Nm("1e1"), Nm("0x"), Nm("0b2"), Nm("08"), Nm("_1"), Nm("1_"), Nm("1__0"), Nm(""), Nm("a"), Nm("a1"), Nm("1a"),
  Nm("--1"), Nm("+-1"), Nm("0x1g"), Nm("1,0") }
MaxIdxs == {0, 2, 5, 1024}
Positions == {"single", "first", "middle", "last"}
KeyAt(sp, pos) == CASE pos = "single" -> <<sp>>
                    [] pos = "first"  -> <<sp, Nm("k")>>
                    [] pos = "middle" -> <<Nm("k"), sp, Nm("q")>>
                    [] pos = "last"   -> <<Nm("k"), sp>>

\* EscapePath: a key that is wholly wrapped in [ ] is ONE name (brackets included), whatever it contains; without the
\* option the brackets are ordinary characters of the first and the last segment (which makes both of them names)
RECURSIVE JoinSp(_)
JoinSp(key) == IF Len(key) = 1 THEN key[1].s ELSE key[1].s \o "." \o JoinSp(Tail(key))
EffKey(key, br, esc) ==
  IF ~br THEN key
  ELSE IF esc \/ Len(key) = 1 THEN <<Nm("[" \o JoinSp(key) \o "]")>>
  ELSE [j \in 1..Len(key) |-> IF j = 1 THEN Nm("[" \o key[1].s) ELSE IF j = Len(key) THEN Nm(key[j].s \o "]") ELSE key[j]]

VARIABLES sp, cs
vars == <<sp, cs>>
Out(D, key, m, nk) == LET r == TreeOfKey(D, key, m, nk) IN
                      IF IsErr(r) THEN [err |-> r.err] ELSE [ok |-> ObsTop(AsCfg(r.ok)), maxlen |-> MaxListLen(r.ok)]
Case(pos, m, nk, br, esc) ==
  LET key   == KeyAt(sp, pos)
      ek    == EffKey(key, br, esc)
      ideal == Out({}, ek, m, nk)
      alts  == {[devs |-> DS, out |-> Out(DS, ek, m, nk)] : DS \in DevSets}
      diff  == {x \in alts : x.out # ideal}
  IN [key |-> key, pos |-> pos, maxidx |-> m, numkeys |-> nk, br |-> br, esc |-> esc,
      isindex |-> ~br /\ IsIndex({}, sp, Len(key), m, nk),
      exp |-> [ideal |-> ideal, alts |-> SetToSeq(diff)]]

Init == sp \in Spellings /\ cs = <<>>
Next == /\ cs = <<>>
        /\ \E pos \in Positions, m \in MaxIdxs, nk \in BOOLEAN, br \in BOOLEAN, esc \in BOOLEAN :
              cs' = <<pos, m, nk, br, esc>> /\ PrintT(ToJson(Case(pos, m, nk, br, esc)))
        /\ UNCHANGED sp
View == <<sp, cs = <<>> >>

(* model-level statements of C20 *)
Combo == cs # <<>>
KeyNow == EffKey(KeyAt(sp, cs[1]), cs[4], cs[5])
Res == TreeOfKey({}, KeyNow, cs[2], cs[3])
\* no single key makes a list grow beyond MaxIdx+1 entries, and nothing panics
AllocBound == Combo => (~IsErr(Res) /\ MaxListLen(Res.ok) <= cs[2] + 1)
\* a segment that is not an index is an ordinary name that round-trips unchanged
RECURSIVE HasNamePath(_,_,_)
HasNamePath(t, ck, j) ==
  j > Len(ck) \/ ( /\ t.k = "n"
                   /\ IF ck[j].i >= 0 THEN ck[j].i < Len(t.a) /\ HasNamePath(t.a[ck[j].i + 1], ck, j+1)
                      ELSE ck[j].s \in DOMAIN t.d /\ HasNamePath(t.d[ck[j].s], ck, j+1))
RoundTrip == Combo => HasNamePath(Res.ok, Classify({}, KeyNow, cs[2], cs[3]), 1)
\* with EnableNumKeys a numeric single-segment key is always a name
NumKeysNamed == (Combo /\ cs[3] /\ cs[1] = "single") => ~IsIndex({}, sp, 1, cs[2], TRUE)
\* a bracketed key never addresses a list: with EscapePath it is one name, without it its first and last segment are names
BracketsAreNames == (Combo /\ cs[4]) => (KeyNow[1].lit = FALSE /\ KeyNow[Len(KeyNow)].lit = FALSE /\ (cs[5] => Len(KeyNow) = 1))
==========================================================================
