----------------------------- MODULE Trace_Pack -----------------------------
(* Direction B for C06 and C14: RANDOM struct types (depth <= 3, 1..4 fields per
   struct, every primitive kind, pointers, slices, arrays, maps, nested and
   inline structs, custom unpackers, default / renamed / dotted tags, ignore)
   with random values, built with reflect by the driver, merged into an empty
   config and unpacked again by the REAL code.  Recorded per event: the type and
   value descriptors, the packed configuration as the generic Unpack shows it,
   whether the typed round trip reproduced the value, and - for a random setting
   of that configuration and a random faulty replacement - how Unpack failed.
   TLC evaluates the specification on the same descriptors:
     tree   = Obs(Pack(ty, val))                      (C06, intermediate)
     back   = "same"                                  (C06: identity)
     fault  : if the path is a site of Sites(ty, val) and the replacement is a
              fault for the receiving type, the result is a typed error naming
              exactly that path and the source (C14); otherwise no claim.      *)
EXTENDS UcfgFaults, Layers, Json

Tr  == ndJsonDeserialize("trace_pack.ndjson")
NEv == Len(Tr)
VARIABLES l, known, bad, nviol, nfault
vars == <<l, known, bad, nviol, nfault>>

\* the packed tree as the generic view shows it: nil and empty settings of a dictionary are not there
RECURSIVE ObsT(_)
ObsT(t) ==
  IF t.k # "n" THEN t
  ELSE LET keep == {q \in DOMAIN t.d : ObsT(t.d[q]) # Nil}
           dd   == [q \in keep |-> ObsT(t.d[q])]
           aa   == [i \in 1..Len(t.a) |-> ObsT(t.a[i])] IN
       IF keep = {} /\ t.a = <<>> THEN Nil ELSE N(dd, aa)
\* kind-directed equality (a wrong implementation may record a value of another kind)
RECURSIVE SameT(_,_)
SameT(a, b) ==
  IF a.k # b.k THEN FALSE
  ELSE IF a.k = "nil" THEN TRUE
  ELSE IF a.k # "n" THEN a.v = b.v
  ELSE /\ DOMAIN a.d = DOMAIN b.d /\ Len(a.a) = Len(b.a)
       /\ \A q \in DOMAIN a.d : SameT(a.d[q], b.d[q])
       /\ \A i \in 1..Len(a.a) : SameT(a.a[i], b.a[i])

FaultClaim(ev) ==
  LET ss == {s \in Sites(ev.ty, ev.val, <<>>) : s.p = ev.fault.path} IN
  IF ss = {} THEN FALSE
  ELSE LET s == CHOOSE x \in ss : TRUE IN \E f \in FaultsFor(s.t, 0) : f.tree.k = ev.fault.tree.k /\ f.tree = ev.fault.tree
FaultOK(ev) == ev.fault.obs.kind = "err" /\ ev.fault.obs.typed = "" /\ ev.fault.obs.source = "trace.yml" /\ ev.fault.obs.path = PathStr(ev.fault.path)
EventOK(ev) ==
  /\ SameT(ObsT(Pack(ev.ty, ev.val)), ev.tree)
  /\ ev.back = "same"
  /\ ("fault" \in DOMAIN ev /\ FaultClaim(ev) => FaultOK(ev))
Init == l = 1 /\ known = [d \in Known |-> 0] /\ bad = <<>> /\ nviol = 0 /\ nfault = 0
Next ==
  /\ l <= NEv /\ l' = l + 1
  /\ LET ev == Tr[l] IN
     /\ nfault' = nfault + (IF "fault" \in DOMAIN ev /\ FaultClaim(ev) THEN 1 ELSE 0)
     /\ IF EventOK(ev) THEN UNCHANGED <<known, bad, nviol>>
        ELSE /\ nviol' = nviol + 1
             /\ bad' = IF Len(bad) < 5 THEN Append(bad, [l |-> l, want |-> [tree |-> ObsT(Pack(ev.ty, ev.val)), back |-> "same",
                                                          fault |-> IF "fault" \in DOMAIN ev /\ FaultClaim(ev) THEN "error naming the path and the source" ELSE "no claim"]]) ELSE bad
             /\ UNCHANGED known
Spec == Init /\ [][Next]_vars
Report == l = NEv + 1 =>
  PrintT(<<"REPORT", ToJson([n |-> NEv, nviol |-> nviol, known |-> known, bad |-> bad, sessions |-> nfault])>>)
Accepted == TLCGet("stats").diameter = NEv + 1
==========================================================================
