----------------------------- MODULE Trace_Pack -----------------------------
(* Direction B for C06 and C14: RANDOM struct types (depth <= 3, 1..4 fields per
   struct, every primitive kind, pointers, slices, arrays, maps, nested and
   inline structs, custom unpackers, default / renamed / dotted tags, ignore)
   with random values, built with reflect by the driver, merged into an empty
   config and unpacked again by the REAL code.  Recorded per event: the type and
   value descriptors, the packed configuration as the generic Unpack shows it,
   whether the typed round trip reproduced the value, and - for a random setting
   of that configuration and a random faulty replacement - how Unpack failed.
   The same event carries a FRAME part (C13): a second random value of the type as
   pre-filled target, a random set of top-level settings removed, a random global list
   policy (default / append / prepend / replace), the unpacked result.
   TLC evaluates the specification on the same descriptors:
     tree   = Obs(Pack(ty, val))                      (C06, intermediate)
     back   = "same"                                  (C06: identity)
     fault  : if the path is a site of Sites(ty, val) and the replacement is a
              fault for the receiving type, the result is a typed error naming
              exactly that path and the source (C14); otherwise no claim.      *)
EXTENDS UcfgFaults, Layers, Json

Tr  == ndJsonDeserialize("trace_pack.ndjson")
NEv == Len(Tr)
VARIABLES l, known, bad, nviol, nfault
vars == <<l, known, bad, nviol, nfault>>

\* the packed tree as the generic view shows it: nil and empty settings of a dictionary are not there
RECURSIVE ObsT(_)
ObsT(t) ==
  IF t.k # "n" THEN t
  ELSE LET keep == {q \in DOMAIN t.d : ObsT(t.d[q]) # Nil}
           dd   == [q \in keep |-> ObsT(t.d[q])]
           aa   == [i \in 1..Len(t.a) |-> ObsT(t.a[i])] IN
       IF keep = {} /\ t.a = <<>> THEN Nil ELSE N(dd, aa)
\* kind-directed equality (a wrong implementation may record a value of another kind)
RECURSIVE SameT(_,_)
SameT(a, b) ==
  IF a.k # b.k THEN FALSE
  ELSE IF a.k = "nil" THEN TRUE
  ELSE IF a.k # "n" THEN a.v = b.v
  ELSE /\ DOMAIN a.d = DOMAIN b.d /\ Len(a.a) = Len(b.a)
       /\ \A q \in DOMAIN a.d : SameT(a.d[q], b.d[q])
       /\ \A i \in 1..Len(a.a) : SameT(a.a[i], b.a[i])

(* ---- C13 (frame) on the same random types: the configuration packed from `val`, with the settings of the top-level
   fields listed in `drop` removed, is unpacked into a target pre-filled with a second value `old` of the type.
   "Unpack overwrites exactly the fields for which the configuration has a setting (recursively, merging lists and
   maps according to the active policy) and leaves every other field as it was":
     a nil pointer / slice / map of `val` packs to no setting - the old value stays
     pointer: what it points to is overlaid (allocated first when old is nil); struct: field by field, ignored fields stay
     slice: index-wise, the longer tail of old kept; array: element by element; map: key by key, old keys kept
     everything else: the new value.  Compared modulo nil ~ empty collections (as C06 does).                      *)
IsNilV(v) == "nil" \in DOMAIN v
ZV(k, v) == [k |-> k, v |-> v, sg |-> 0]      \* a zero primitive with its sign (see the C04 part below)
RECURSIVE ZeroV(_)
ZeroV(t) ==
  CASE t.k = "bool" -> V("bool", FALSE)
    [] t.k \in {"int8", "int16", "int32", "int64", "int"} -> ZV("int", "0")
    [] t.k \in {"uint8", "uint16", "uint32", "uint64", "uint"} -> ZV("uint", "0")
    [] t.k \in {"float32", "float64"} -> ZV("float", "0")
    [] t.k \in {"string", "ustr", "uany"} -> ZV("string", "")
    [] t.k = "dur" -> ZV("dur", "0")
    [] t.k = "re" -> NilV("re")
    [] t.k \in {"ptr", "slice", "map"} -> NilV(t.k)
    [] t.k = "array" -> [k |-> "array", xs |-> [i \in 1..t.n |-> ZeroV(t.e)]]
    [] t.k = "struct" -> [k |-> "struct", f |-> [i \in 1..Len(t.f) |-> ZeroV(t.f[i].t)]]
MaxOf(a, b) == IF a > b THEN a ELSE b
RECURSIVE Ov(_,_,_,_)
Ov(pol, t, old, new) ==
  \* a nil or empty slice packs to an EMPTY LIST setting: under the replace policy that setting replaces the old list
  IF t.k = "slice" /\ pol = "replace" /\ (IsNilV(new) \/ new.xs = <<>>) THEN NilV("slice")
  ELSE IF IsNilV(new) THEN old
  ELSE CASE t.k = "ptr" -> [k |-> "ptr", p |-> Ov(pol, t.e, IF IsNilV(old) THEN ZeroV(t.e) ELSE old.p, new.p)]
         [] t.k = "slice" ->
              IF new.xs = <<>> THEN old
              ELSE LET oxs == IF IsNilV(old) THEN <<>> ELSE old.xs
                       ol  == Len(oxs)
                       nl  == Len(new.xs)
                       fresh(j) == Ov(pol, t.e, ZeroV(t.e), new.xs[j])
                       onto(j)  == Ov(pol, t.e, IF j <= ol THEN oxs[j] ELSE ZeroV(t.e), new.xs[j]) IN
                   \* the list policies (UcfgReify.SliceLayout): append = old then new, prepend = new then old, replace = the
                   \* new length (still merged INTO the old element of the same index), default = index-wise, longer tail kept
                   [k |-> "slice", xs |->
                      CASE pol = "append"  -> [i \in 1..(ol + nl) |-> IF i <= ol THEN oxs[i] ELSE fresh(i - ol)]
                        [] pol = "prepend" -> [i \in 1..(ol + nl) |-> IF i <= nl THEN fresh(i) ELSE oxs[i - nl]]
                        [] pol = "replace" -> [i \in 1..nl |-> onto(i)]
                        [] OTHER -> [i \in 1..MaxOf(ol, nl) |-> IF i <= nl THEN onto(i) ELSE oxs[i]]]
         [] t.k = "array" -> [k |-> "array", xs |-> [i \in 1..Len(new.xs) |-> Ov(pol, t.e, old.xs[i], new.xs[i])]]
         [] t.k = "map" ->
              IF DOMAIN new.m = {} THEN old
              ELSE LET om == IF IsNilV(old) THEN <<>> ELSE old.m IN
                   [k |-> "map", m |-> [q \in DOMAIN om \cup DOMAIN new.m |->
                        IF q \notin DOMAIN new.m THEN om[q] ELSE Ov(pol, t.e, IF q \in DOMAIN om THEN om[q] ELSE ZeroV(t.e), new.m[q])]]
         [] t.k = "struct" -> [k |-> "struct", f |-> [i \in 1..Len(t.f) |->
                                 IF t.f[i].mode = "ignore" THEN old.f[i] ELSE Ov(pol, t.f[i].t, old.f[i], new.f[i])]]
         [] OTHER -> new
RECURSIVE NormV(_,_)
NormV(t, v) ==
  IF IsNilV(v) THEN NilV(t.k)
  ELSE CASE t.k = "ptr" -> [k |-> "ptr", p |-> NormV(t.e, v.p)]
         [] t.k = "slice" -> IF v.xs = <<>> THEN NilV("slice") ELSE [k |-> "slice", xs |-> [i \in 1..Len(v.xs) |-> NormV(t.e, v.xs[i])]]
         [] t.k = "array" -> [k |-> "array", xs |-> [i \in 1..Len(v.xs) |-> NormV(t.e, v.xs[i])]]
         [] t.k = "map" -> IF DOMAIN v.m = {} THEN NilV("map") ELSE [k |-> "map", m |-> [q \in DOMAIN v.m |-> NormV(t.e, v.m[q])]]
         [] t.k = "struct" -> [k |-> "struct", f |-> [i \in 1..Len(t.f) |-> NormV(t.f[i].t, v.f[i])]]
         [] OTHER -> [k |-> v.k, v |-> v.v]
FrameWant(ev) ==
  [k |-> "struct", f |-> [i \in 1..Len(ev.ty.f) |->
      IF (\E j \in 1..Len(ev.frame.drop) : ev.frame.drop[j] = i) \/ ev.ty.f[i].mode = "ignore" THEN ev.frame.old.f[i]
      ELSE Ov(ev.frame.pol, ev.ty.f[i].t, ev.frame.old.f[i], ev.frame.new.f[i])]]

(* ---- C04 on the same random types: every fourth plain primitive field carries validate:"nonzero" / "required" /
   "positive".  The round trip succeeds iff every validated field REACHABLE in the value satisfies its tag (behind a nil
   pointer, in a nil slice or map nothing is reachable); otherwise Unpack fails.  sg is the sign the driver records with
   every primitive (strings: 0 = empty).                                                                              *)
Breaks(f, v) == CASE f.val \in {"nonzero", "required"} -> v.sg = 0
                  [] f.val = "positive" -> v.sg < 0
                  [] OTHER -> FALSE
RECURSIVE AnyInvalid(_,_)
AnyInvalid(t, v) ==
  IF IsNilV(v) THEN FALSE
  ELSE CASE t.k = "ptr" -> AnyInvalid(t.e, v.p)
         [] t.k \in {"slice", "array"} -> \E i \in 1..Len(v.xs) : AnyInvalid(t.e, v.xs[i])
         [] t.k = "map" -> \E q \in DOMAIN v.m : AnyInvalid(t.e, v.m[q])
         [] t.k = "struct" -> \E i \in 1..Len(t.f) :
                                 /\ t.f[i].mode # "ignore"
                                 /\ \/ (t.f[i].val # "" /\ Breaks(t.f[i], v.f[i]))
                                    \/ AnyInvalid(t.f[i].t, v.f[i])
         [] OTHER -> FALSE

\* the frame part: a pre-filled value the configuration does not replace must satisfy its validators as well
FrameOK(ev) == IF AnyInvalid(ev.ty, FrameWant(ev)) THEN "err" \in DOMAIN ev.frame
               ELSE ("got" \in DOMAIN ev.frame /\ NormV(ev.ty, ev.frame.got) = NormV(ev.ty, FrameWant(ev)))

FaultClaim(ev) ==
  LET ss == {s \in Sites(ev.ty, ev.val, <<>>) : s.p = ev.fault.path} IN
  IF ss = {} THEN FALSE
  ELSE LET s == CHOOSE x \in ss : TRUE IN \E f \in FaultsFor(s.t, 0) : f.tree.k = ev.fault.tree.k /\ f.tree = ev.fault.tree
\* ... and the target (pre-filled with the value) still holds its previous field values after the failed call (C13)
FaultOK(ev) == ev.fault.obs.kind = "err" /\ ev.fault.obs.typed = "" /\ ev.fault.obs.source = "trace.yml" /\ ev.fault.obs.path = PathStr(ev.fault.path)
               /\ ev.fault.obs.untouched
EventOK(ev) ==
  /\ SameT(ObsT(Pack(ev.ty, ev.val)), ev.tree)
  /\ IF AnyInvalid(ev.ty, ev.val) THEN ev.backkind = "unpack-error" ELSE ev.back = "same"
  /\ ("fault" \in DOMAIN ev /\ FaultClaim(ev) => FaultOK(ev))
  /\ ("frame" \in DOMAIN ev => FrameOK(ev))
Init == l = 1 /\ known = [d \in Known |-> 0] /\ bad = <<>> /\ nviol = 0 /\ nfault = 0
Next ==
  /\ l <= NEv /\ l' = l + 1
  /\ LET ev == Tr[l] IN
     /\ nfault' = nfault + (IF "fault" \in DOMAIN ev /\ FaultClaim(ev) THEN 1 ELSE 0)
     /\ IF EventOK(ev) THEN UNCHANGED <<known, bad, nviol>>
        ELSE /\ nviol' = nviol + 1
             /\ bad' = IF Len(bad) < 5 THEN Append(bad, [l |-> l, want |-> [tree |-> ObsT(Pack(ev.ty, ev.val)), back |-> "same",
                                                          fault |-> IF "fault" \in DOMAIN ev /\ FaultClaim(ev) THEN "error naming the path and the source" ELSE "no claim",
                                                          frame |-> IF "frame" \in DOMAIN ev THEN NormV(ev.ty, FrameWant(ev)) ELSE <<>>]]) ELSE bad
             /\ UNCHANGED known
Spec == Init /\ [][Next]_vars
Report == l = NEv + 1 =>
  PrintT(<<"REPORT", ToJson([n |-> NEv, nviol |-> nviol, known |-> known, bad |-> bad, sessions |-> nfault])>>)
Accepted == TLCGet("stats").diameter = NEv + 1
==========================================================================
