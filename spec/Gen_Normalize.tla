--------------------------- MODULE Gen_Normalize ---------------------------
(* Direction A for normalisation (C05, C09, C18): TLC prints (1) every ordered
   input of up to MaxEntries entries over overlapping dotted keys and (2) every
   partial flattening of every tree of a bounded universe.  Each case carries
   the order-free Ideal outcome, the outcome of the code-shaped sequential
   insertion in the given visiting order where a listed deviation makes it
   differ, and - for conflicting inputs - the set of outcomes over ALL visiting
   orders (what a Go map may produce).                                        *)
EXTENDS NormUniverses, Layers, Json

CONSTANTS Paths, Vals, MaxEntries, FlatTrees, PolSet
cPaths == Paths
cVals == Vals
cFlatTrees == FlatTrees
cPolSet == PolSet
PolsD == {"default"}
PolsDA == {"default", "append"}
TreeSeq == SetToSeq(cFlatTrees \ {Empty})

VARIABLES es, pol, bk, cs
vars == <<es, pol, bk, cs>>

Case(gv, p, kind) ==
  LET opts  == NoOpts(p)
      ideal == Normalize({}, opts, gv)
      alts  == {[devs |-> DS, out |-> Normalize(DS, opts, gv)] : DS \in DevSets}
      diff  == {x \in alts : x.out # ideal}
  IN [gv |-> gv, pol |-> p, kind |-> kind,
      exp |-> [ideal |-> ideal, alts |-> SetToSeq(diff)],
      orders |-> IF ConflictP(p, gv) /\ "DupDependsOnOrder" \in Known THEN OrdersOf(opts, gv) ELSE {}]

Init == es = <<>> /\ pol \in cPolSet /\ bk = -1 /\ cs = <<>>
Grow == /\ bk = -1 /\ Len(es) < MaxEntries
        /\ \E p \in cPaths, v \in cVals :
             /\ \A i \in 1..Len(es) : es[i][1] # p
             /\ es' = Append(es, <<p, v>>)
             /\ PrintT(ToJson(Case(GMap(es'), pol, "ordered")))
        /\ UNCHANGED <<pol, bk, cs>>
PickBucket == /\ es = <<>> /\ bk = -1 /\ bk' \in 0..15 /\ UNCHANGED <<es, pol, cs>>
EmitFlat == /\ bk >= 0 /\ bk < 16
            /\ \E i \in {j \in 1..Len(TreeSeq) : j % 16 = bk} : \E gv \in Flattenings(TreeSeq[i]) :
                  cs' = gv /\ PrintT(ToJson(Case(gv, pol, "flattening")))
            /\ bk' = 16 /\ UNCHANGED <<es, pol>>
Next == Grow \/ PickBucket \/ EmitFlat
View == <<es, pol, bk>>
==========================================================================
