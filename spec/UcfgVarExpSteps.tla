--------------------------- MODULE UcfgVarExpSteps ---------------------------
(* Small-step evaluator for the termination statement of C08.  The big-step
   evaluator of UcfgVarExp cannot express "finishes"; here one step = enter a
   reference / return from a setting / absorb an error in a default, on an
   explicit evaluation stack whose frames carry the set of names active at that
   point.  Checked under SPECIFICATION Spec with weak fairness and WITHOUT a
   state constraint:
     Terminates    <>(stack = <<>>)      every read of every reference graph ends
     StackBounded  the stack never exceeds 2*|Names|+2 frames (no unbounded recursion)
     ResultSet     the verdict is ok / cycle / typeerr
   for all graphs over three settings, each a literal, one or two references
   (repeated names included), a reference with a default, or a dictionary whose
   child is a literal or a reference, and both entry modes (a typed read, and
   the key-flattening descent).  With Dev = {"FlattenFreshActiveSet"} TLC's
   shortest counterexample to StackBounded is the one-setting graph
   c: {k: ${c}} - the witness of the listed finding KF-12.                    *)
EXTENDS Integers, Sequences, FiniteSets, TLC

CONSTANT Dev
Names == {"a", "b", "c"}
Ref(n, d) == [n |-> n, d |-> d]
Lit == [t |-> "lit"]
Refs(rs) == [t |-> "refs", rs |-> rs]
Sub(ch) == [t |-> "sub", ch |-> ch]          \* dictionary with one child "k"

Flat == {Lit} \cup {Refs(<<Ref(n, FALSE)>>) : n \in Names} \cup {Refs(<<Ref(n, TRUE)>>) : n \in Names}
             \cup {Refs(<<Ref(n1, FALSE), Ref(n2, FALSE)>>) : n1, n2 \in Names}
Shapes == Flat \cup {Sub(ch) : ch \in {Lit} \cup {Refs(<<Ref(n, FALSE)>>) : n \in Names}}

VARIABLES g, mode, stack, res
vars == <<g, mode, stack, res>>

\* frame: [s |-> setting name or "b.k" child marker, i |-> next ref index, act |-> active set at this frame]
ShapeOfF(f) == IF f.ch THEN g[f.s].ch ELSE g[f.s]
Top == stack[Len(stack)]

Init == /\ g \in [Names -> Shapes]
        /\ mode \in {"read", "flatten"}
        /\ \E q \in Names : stack = <<[s |-> q, i |-> 1, act |-> {}, ch |-> FALSE]>>
        /\ res = "run"

\* pop the top frame and advance the parent
Pop(st) == IF Len(st) = 1 THEN <<>>
           ELSE LET p == SubSeq(st, 1, Len(st)-1) IN [p EXCEPT ![Len(p)].i = @ + 1]

\* unwind an error: pop frames until one whose current ref has a default
RECURSIVE Unwind(_)
Unwind(st) ==
  IF st = <<>> THEN <<>>
  ELSE LET f == st[Len(st)]
           sh == ShapeOfF(f) IN
       IF sh.t = "refs" /\ f.i <= Len(sh.rs) /\ sh.rs[f.i].d
       THEN [st EXCEPT ![Len(st)].i = @ + 1]
       ELSE Unwind(SubSeq(st, 1, Len(st)-1))

Step ==
  /\ stack # <<>>
  /\ LET f == Top
         sh == ShapeOfF(f) IN
     CASE sh.t = "lit" -> stack' = Pop(stack) /\ res' = IF Len(stack) = 1 THEN "ok" ELSE res
       [] sh.t = "sub" ->
            \* read mode: a dictionary in string context is a type error; top-level read of the dict itself unpacks its child
            IF f.i = 1 /\ (mode = "flatten" \/ Len(stack) = 1)
            THEN stack' = Append([stack EXCEPT ![Len(stack)].i = 2],
                                 [s |-> f.s, i |-> 1, ch |-> TRUE, act |-> IF "FlattenFreshActiveSet" \in Dev /\ mode = "flatten" THEN {} ELSE f.act]) /\ res' = res
            ELSE IF f.i = 1 THEN (LET u == Unwind(SubSeq(stack, 1, Len(stack)-1)) IN stack' = u /\ res' = IF u = <<>> THEN "typeerr" ELSE res)
            ELSE stack' = Pop(stack) /\ res' = IF Len(stack) = 1 THEN "ok" ELSE res
       [] sh.t = "refs" ->
            IF f.i > Len(sh.rs) THEN stack' = Pop(stack) /\ res' = IF Len(stack) = 1 THEN "ok" ELSE res
            ELSE LET r == sh.rs[f.i] IN
                 IF r.n \in f.act
                 THEN (LET u == Unwind(stack) IN stack' = u /\ res' = IF u = <<>> THEN "cycle" ELSE res)
                 ELSE stack' = Append(stack, [s |-> r.n, i |-> 1, ch |-> FALSE, act |-> f.act \cup {r.n}]) /\ res' = res
  /\ UNCHANGED <<g, mode>>

Done == stack = <<>> /\ UNCHANGED vars
Next == Step \/ Done
Spec == Init /\ [][Next]_vars /\ WF_vars(Step)

Terminates == <>(stack = <<>>)
StackBounded == Len(stack) <= 2 * Cardinality(Names) + 2
\* a cycle verdict only when the reference graph really has a cycle reachable from the query
ResultSet == stack = <<>> => res \in {"ok", "cycle", "typeerr"}
NoDev == {}
FlatDev == {"FlattenFreshActiveSet"}
==========================================================================
