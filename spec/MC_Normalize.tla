--------------------------- MODULE MC_Normalize ---------------------------
(* Model-level check for C05 / C09: the order-free (Ideal) definition of
   normalisation agrees with the code-shaped sequential insertion for EVERY
   visiting order of every conflict-free input; every partial flattening of a
   tree normalises to the tree; normalisation is idempotent.                *)
EXTENDS NormUniverses

CONSTANTS Paths, Vals, MaxEntries, FlatTrees, PolSet
cPaths == Paths
cVals == Vals
cFlatTrees == FlatTrees
cPolSet == PolSet
PolsD == {"default"}
PolsDA == {"default", "append"}

VARIABLES es, pol, ft, bk
vars == <<es, pol, ft, bk>>
TreeSeq == SetToSeq(cFlatTrees \ {Empty})
Init == es = <<>> /\ pol \in cPolSet /\ ft = Empty /\ bk = -1
\* es grows entry by entry: every ordered input of distinct keys is a state
Grow == /\ ft = Empty /\ Len(es) < MaxEntries
        /\ \E p \in cPaths, v \in cVals :
             /\ \A i \in 1..Len(es) : es[i][1] # p
             /\ es' = Append(es, <<p, v>>)
        /\ UNCHANGED <<pol, ft, bk>>
\* the flattening part: chosen by Next so that TLC's workers share it
\* (two steps: a bucket first, so that the fan-out below one state is spread over the workers)
PickBucket == /\ ft = Empty /\ es = <<>> /\ bk = -1 /\ bk' \in 0..15 /\ UNCHANGED <<es, pol, ft>>
PickTree == /\ ft = Empty /\ bk >= 0 /\ \E i \in {j \in 1..Len(TreeSeq) : j % 16 = bk} : ft' = TreeSeq[i]
            /\ UNCHANGED <<es, pol, bk>>
Next == (bk = -1 /\ Grow) \/ PickBucket \/ PickTree

In == GMap(es)
Opts == NoOpts(pol)
\* C09/C05: on conflict-free input every visiting order yields exactly the order-free result
Confluent == (ft = Empty /\ es # <<>> /\ ~ConflictP(pol, In)) => NormSeq(Opts, In) = NormIdeal(In)
\* the converse, which the sequential algorithm does NOT satisfy (checked with expect_violation)
ConflictRejected == (ft = Empty /\ IsDup(IdealVal(In))) => NormSeq(Opts, In) = [err |-> "duplicate"]
\* the ideal result does not depend on the order at all
OrderFree == (ft = Empty /\ Len(es) >= 2) =>
               NormIdeal(In) = NormIdeal(GMap(<<es[Len(es)]>> \o SubSeq(es, 1, Len(es)-1)))

\* every partial flattening of a tree normalises to the tree, in every visiting order
FlattenOK == ft # Empty =>
   \A gv \in Flattenings(ft) :
      /\ NormIdeal(gv) = [ok |-> ObsTop(ft)]
      /\ \A o \in OutcomesOverOrders(Opts, gv) : o = [ok |-> ObsTop(ft)]
\* idempotence: normalising the nested form of the result gives the result
Idempotent == ft # Empty => NormIdeal(GoOf(ft)) = [ok |-> ObsTop(ft)]
==========================================================================
