---------------------------- MODULE Gen_NormFaults ----------------------------
(* C09 for inputs that are REJECTED: "repeating the call yields the same outcome every time - the same success or
   the same kind of error".  An input map (or struct) with the settings a, b, c, d each of which is fine or faulty
   in one of three ways - a value of an unsupported type (a chan), a map whose keys are no strings, a nested map
   that spells one setting twice - is rejected, and WHICH fault is reported must not change from call to call.

   The order-free statement: the call fails iff some entry is faulty, and the kind reported is the kind of one of
   the faulty entries; the replay repeats every call with the Go map rebuilt in another insertion order and
   demands ONE outcome.  (The code visits a map in the order of its keys and a struct in field order, so the kind
   is that of the first faulty entry - `First` below; the replay reports it as a class, it is not demanded.)     *)
EXTENDS Integers, Sequences, FiniteSets, TLC, Layers, Json, SequencesExt

Keys  == <<"a", "b", "c", "d">>
Kinds == {"ok", "unsupported", "keytype", "duplicate"}
Inputs == [1..Len(Keys) -> Kinds]
Faults(in) == {in[i] : i \in {j \in 1..Len(Keys) : in[j] # "ok"}}
First(in) == IF Faults(in) = {} THEN "ok" ELSE in[CHOOSE i \in 1..Len(Keys) : in[i] # "ok" /\ \A j \in 1..(i-1) : in[j] = "ok"]
Expect(in) == IF Faults(in) = {} THEN [ok |-> TRUE] ELSE [err |-> "one-of", kinds |-> Faults(in), first |-> First(in)]

VARIABLES k1, cs
vars == <<k1, cs>>
Init == k1 \in Kinds /\ cs = <<>>
Next == /\ cs = <<>> /\ UNCHANGED k1
        /\ \E in \in Inputs : in[1] = k1 /\ cs' = in
              /\ PrintT(ToJson([keys |-> Keys, kinds |-> in, exp |-> [ideal |-> Expect(in), alts |-> <<>>]]))
View == <<k1, cs = <<>> >>
\* an input without a faulty entry is accepted, every other one is rejected with the kind of a fault it HAS
RejectedIffFaulty == cs # <<>> => LET e == Expect(cs) IN
    IF \A i \in 1..Len(Keys) : cs[i] = "ok" THEN "ok" \in DOMAIN e ELSE (e.first \in e.kinds /\ e.kinds \subseteq Kinds \ {"ok"})
==========================================================================
