---------------------------- MODULE Gen_Validators ----------------------------
(* C04, the validator table: struct{ F <kind> `config:"f" validate:"<tag>"` } for
   every primitive kind class (signed, sized, unsigned, float, duration, string),
   pointers to them, a slice and a map  x  every validator with parameters in the
   syntax of that kind (integers, floats, durations written as text and as a number
   of seconds)  x  a pre-filled default  x  the setting (absent, explicit nil,
   every boundary value, a text that does not convert).

   Numbers are integers in the unit of their kind: 1 for integers, 1/2 for floats
   (so 1.5 = 3), milliseconds for durations.

   The specification is the meaning of the tags as C04 states it:
     final value = the converted setting if there is one, else the default
     Unpack succeeds with the final value  iff  it satisfies the tag;
     otherwise (and when the setting does not convert) it fails naming f.
       required  set: non-nil pointer, number # 0, non-empty string / list / map
       nonzero   number # 0, non-empty string, list / map nil or non-empty
       positive  number >= 0
       min=p / max=p   number >= p / <= p (a duration bound p is a duration text or seconds)
     a nil pointer satisfies everything but required.                          *)
EXTENDS Integers, Sequences, FiniteSets, TLC, Layers, Json, SequencesExt

\* idint: a NAMED int type with InitDefaults (sets 7): without a setting the field holds what InitDefaults set - whatever
\* it was pre-filled with - and that value must satisfy the tag like any other
Kinds == {"int", "int8", "uint", "float64", "dur", "string", "pint", "pdur", "pstring", "pfloat64", "lint", "mint", "idint"}
BaseOf(k) == CASE k = "pint" -> "int" [] k = "pdur" -> "dur" [] k = "pstring" -> "string" [] k = "pfloat64" -> "float64" [] k = "idint" -> "int" [] OTHER -> k
IsPtr(k) == k \in {"pint", "pdur", "pstring", "pfloat64"}
NumBase(b) == b \in {"int", "int8", "uint", "float64", "dur"}

\* values of a base kind (units: see above); lists and maps by their length, -1 = nil
ValsOf(b) ==
  CASE b \in {"int", "int8"} -> {-1, 0, 1, 2, 5, 6}
    [] b = "uint"    -> {0, 1, 2, 5, 6}
    [] b = "float64" -> {-3, 0, 3, 4, 10, 11}
    [] b = "dur"     -> {-1000, 0, 500, 1000, 1500, 2000, 6000}
    [] b = "string"  -> {0, 1}                   \* length: "" and "x"
    [] b \in {"lint", "mint"} -> {-1, 0, 1}     \* nil, empty, one element
\* tag -> parameter in the unit of the base kind (only tags whose parameter is in the kind's syntax)
TagsOf(b) ==
  LET common == {[t |-> "", op |-> "none", p |-> 0], [t |-> "required", op |-> "required", p |-> 0],
                 [t |-> "nonzero", op |-> "nonzero", p |-> 0], [t |-> "positive", op |-> "positive", p |-> 0]} IN
  common \cup
  CASE b \in {"int", "int8"} -> {[t |-> "min=2", op |-> "min", p |-> 2], [t |-> "max=5", op |-> "max", p |-> 5], [t |-> "min=-1", op |-> "min", p |-> -1],
                                  [t |-> "min=0x2", op |-> "min", p |-> 2], [t |-> "min=1, max=5", op |-> "minmax", p |-> 1, q |-> 5]}
    [] b = "uint"    -> {[t |-> "min=2", op |-> "min", p |-> 2], [t |-> "max=5", op |-> "max", p |-> 5]}
    [] b = "float64" -> {[t |-> "min=2", op |-> "min", p |-> 4], [t |-> "max=5", op |-> "max", p |-> 10], [t |-> "min=1.5", op |-> "min", p |-> 3],
                         [t |-> "max=-0.5", op |-> "max", p |-> -1]}
    [] b = "dur"     -> {[t |-> "min=1s", op |-> "min", p |-> 1000], [t |-> "max=1500ms", op |-> "max", p |-> 1500], [t |-> "min=2", op |-> "min", p |-> 2000],
                         [t |-> "max=1.5", op |-> "max", p |-> 1500], [t |-> "min=0s", op |-> "min", p |-> 0], [t |-> "min=500ms,max=2s", op |-> "minmax", p |-> 500, q |-> 2000]}
    \* no meaning for strings and maps; on a list of numbers the tag applies to every ELEMENT (the elements are 3)
    [] OTHER -> {[t |-> "min=2", op |-> "min", p |-> 2], [t |-> "max=5", op |-> "max", p |-> 5]}

NilPtr == [nilptr |-> TRUE]
Val(n) == [n |-> n]
Defaults(k) == (IF IsPtr(k) THEN {NilPtr} ELSE {}) \cup {Val(n) : n \in ValsOf(BaseOf(k))}
\* settings: absent, explicit nil, every value, a text that does not convert (numbers only)
Settings(k) == {[s |-> "absent"], [s |-> "nil"]} \cup {[s |-> "val", n |-> n] : n \in ValsOf(BaseOf(k)) \ (IF BaseOf(k) \in {"lint", "mint"} THEN {-1} ELSE {})}
               \cup (IF NumBase(BaseOf(k)) THEN {[s |-> "junk"]} ELSE {})

Satisfies(b, tg, n) ==
  IF NumBase(b) THEN
     CASE tg.op = "none" -> TRUE
       [] tg.op \in {"required", "nonzero"} -> n # 0
       [] tg.op = "positive" -> n >= 0
       [] tg.op = "min" -> n >= tg.p
       [] tg.op = "max" -> n <= tg.p
       [] tg.op = "minmax" -> n >= tg.p /\ n <= tg.q
  ELSE IF b = "string" THEN (tg.op \in {"required", "nonzero"} => n > 0)
  ELSE CASE tg.op = "required" -> n > 0          \* list / map: neither nil nor empty
         [] tg.op = "nonzero"  -> n # 0          \* nil or non-empty
         [] OTHER -> TRUE
\* A value that comes from the configuration is validated as such (required: a number must be # 0, a string
\* non-empty, also behind a pointer).  A pre-filled pointer the configuration does not mention: required means
\* "is set" (non-nil); every other tag looks at what it points to; a nil pointer satisfies all but required.
Valid(k, tg, fv, fromCfg) ==
  IF fv = NilPtr THEN tg.op # "required"
  ELSE IF IsPtr(k) /\ tg.op = "required" /\ ~fromCfg THEN TRUE
  ELSE Satisfies(BaseOf(k), tg, fv.n)
\* ... and what C04 itself demands of a successful result (required on a pointer: set)
ValidProp(k, tg, fv) == IF fv = NilPtr THEN tg.op # "required" ELSE IF IsPtr(k) /\ tg.op = "required" THEN TRUE ELSE Satisfies(BaseOf(k), tg, fv.n)
\* a list / map setting is MERGED into the pre-filled value (index-wise / by key): the longer one decides the length
Final(k, dflt, set) ==
  IF k = "idint" /\ set.s # "val" THEN Val(7)
  ELSE IF set.s # "val" THEN dflt
  ELSE IF BaseOf(k) \in {"lint", "mint"} THEN Val(IF dflt.n > set.n THEN dflt.n ELSE set.n)
  ELSE Val(set.n)
Outcome(k, tg, dflt, set) ==
  IF set.s = "junk" THEN [err |-> <<"f">>]
  ELSE LET final == Final(k, dflt, set) IN
       IF Valid(k, tg, final, set.s = "val") THEN [ok |-> final] ELSE [err |-> <<"f">>]

\* The ValidatorTag(key) option: validators count only when they are written under the key the option names
\* ("validate" without the option); a tag under another key is no validator at all.
NoTag == [t |-> "", op |-> "none", p |-> 0]
Honoured(vkey, vopt) == vkey = (IF vopt = "" THEN "validate" ELSE vopt)
VCombos == {<<"check", "check">>, <<"validate", "check">>, <<"check", "">>}

VARIABLES kind, cs
vars == <<kind, cs>>
Init == kind \in Kinds /\ cs = <<>>
NextPlain == /\ cs = <<>> /\ UNCHANGED kind
        /\ \E tg \in TagsOf(BaseOf(kind)), d \in Defaults(kind), s \in Settings(kind) :
              cs' = <<tg, d, s>> /\ PrintT(ToJson([kind |-> kind, tag |-> tg.t, dflt |-> d, set |-> s,
                                                    exp |-> [ideal |-> Outcome(kind, tg, d, s), alts |-> <<>>]]))
NextV == /\ cs = <<>> /\ UNCHANGED kind
         /\ \E tg \in {x \in TagsOf(BaseOf(kind)) : x.op \in {"required", "nonzero", "min", "minmax"}}, d \in Defaults(kind), s \in Settings(kind), vc \in VCombos :
              cs' = <<tg, d, s, vc>> /\ PrintT(ToJson([kind |-> kind, tag |-> tg.t, dflt |-> d, set |-> s, vkey |-> vc[1], vopt |-> vc[2],
                                                        exp |-> [ideal |-> Outcome(kind, IF Honoured(vc[1], vc[2]) THEN tg ELSE NoTag, d, s), alts |-> <<>>]]))
Next == NextPlain \/ NextV
EffTag == IF Len(cs) = 4 /\ ~Honoured(cs[4][1], cs[4][2]) THEN NoTag ELSE cs[1]
View == <<kind, cs = <<>> >>
\* C04 on the model: a successful outcome satisfies the tag; a default or setting that breaks it never succeeds
OkIsValid == cs # <<>> => LET o == Outcome(kind, EffTag, cs[2], cs[3]) IN ("ok" \in DOMAIN o => ValidProp(kind, EffTag, o.ok))
BreakFails == cs # <<>> => LET o == Outcome(kind, EffTag, cs[2], cs[3])
                               final == Final(kind, cs[2], cs[3]) IN
                           (cs[3].s # "junk" /\ ~ValidProp(kind, EffTag, final) => "err" \in DOMAIN o)
==========================================================================
