----------------------------- MODULE Gen_VarExp -----------------------------
(* Direction A for variable expansion (C02, C08): every assignment of
   expression shapes to the settings a, b, c and n.k x Env set-ups x resolver
   set-ups.  One case per world: the expected outcome of String() and of the
   typed read for every setting, of Unpack of the whole config, of Has, and
   whether FlattenedKeys / CompareConfigs return.                             *)
EXTENDS UcfgVarExp, Layers, Json, SequencesExt

CONSTANTS ShapesA, ShapesB, ShapesC, ShapesK, EnvSets, ResSets
cShapesA == ShapesA
cShapesB == ShapesB
cShapesC == ShapesC
cShapesK == ShapesK
cEnvSets == EnvSets
cResSets == ResSets

VARIABLES va, ph, cs
vars == <<va, ph, cs>>

Leaf(e) == IF e.t = "lit" THEN StrV(e.s) ELSE IF e.t = "val" THEN e.v ELSE Dyn(e)
Val(v) == [t |-> "val", v |-> v]
World(ea, eb, ec, ek, envs, res) ==
  \* l: a list under a key whose elements (a string and a dictionary) hold references - list elements are copied
  \* by another code path than dictionary entries when the settings arrive through Merge
  [root |-> N(("a" :> Leaf(ea)) @@ ("b" :> Leaf(eb)) @@ ("c" :> Leaf(ec)) @@ ("n" :> N(("k" :> Leaf(ek)), <<>>))
              @@ ("l" :> N(<<>>, <<Dyn(Ref("b")), N(("x" :> Dyn(Ref("c"))), <<>>)>>)), <<>>),
   envs |-> envs, res |-> res]
ReadNames == <<"a", "b", "c", "n.k", "n", "m", "l.0", "l.1.x">>

Exp(F(_)) == LET ideal == F({})
                 alts  == {[devs |-> DS, out |-> F(DS)] : DS \in DevSets}
                 diff  == {x \in alts : x.out # ideal}
             IN [ideal |-> ideal, alts |-> SetToSeq(diff)]
OutText(r)  == IF IsE(r) THEN [err |-> r.err] ELSE [ok |-> r.ok]
OutTyped(r) == IF IsE(r) THEN (IF "errs" \in DOMAIN r THEN [err |-> "any", errs |-> r.errs] ELSE [err |-> r.err, errs |-> {r.err}])
               ELSE [ok |-> Obs(r.ok)]
OutHas(r)   == IF IsE(r) THEN [err |-> r.err] ELSE [ok |-> r.ok]
RecOut(DS, nc) == IF "RefToAncestorDescends" \in DS /\ nc THEN "overflow" ELSE "returns"
Case(W, amb, cyc, nc) ==
  [w |-> W, amb |-> amb, cyc |-> cyc, nodecycle |-> nc,
   rec |-> LET F(DS) == RecOut(DS, nc) IN Exp(F),
   reads |-> [i \in 1..Len(ReadNames) |->
               LET n == ReadNames[i] IN
               [name |-> n,
                str   |-> LET F(DS) == OutText(GetString(DS, W, n)) IN Exp(F),
                typed |-> LET F(DS) == OutTyped(GetTyped(DS, W, n)) IN Exp(F),
                has   |-> LET F(DS) == OutHas(Has(DS, W, n)) IN Exp(F)]],
   unpack |-> LET F(DS) == OutTyped(UnpackAll(DS, W)) IN Exp(F),
   flat   |-> LET F(DS) == Flatten(DS, W, 8) IN Exp(F)]

(* ${x:+r} applied to a name that is under evaluation at that moment (possible only inside a
   reference cycle): the property does not say whether such a name counts as "set"; the
   implementation answers "no" or serves an earlier answer from its per-call cache.  Worlds in
   which that can happen are marked ambiguous: their reads must return, values are not compared. *)
RECURSIVE AltNames(_), RefsOfE(_)
AltNames(e) == CASE e.t \in {"lit", "val", "ref"} -> {}
                 [] e.t = "cat" -> UNION {AltNames(e.ps[i]) : i \in 1..Len(e.ps)}
                 [] e.t = "ind" -> AltNames(e.e)
                 [] e.t = "alt" -> (IF e.l.t = "lit" THEN {e.l.s} ELSE {"*"}) \cup AltNames(e.r)
                 [] OTHER -> AltNames(e.r)
RefsOfE(e) == CASE e.t \in {"lit", "val"} -> {} [] e.t = "ref" -> {e.n}
                [] e.t = "cat" -> UNION {RefsOfE(e.ps[i]) : i \in 1..Len(e.ps)}
                [] e.t = "ind" -> {"a", "b", "c", "n.k", "n"}
                [] OTHER -> (IF e.l.t = "lit" THEN {e.l.s} ELSE {"a", "b", "c", "n.k", "n"}) \cup RefsOfE(e.r)
\* a multi-segment name through a setting depends on that setting
Base(x) == IF x = "a.k" THEN "a" ELSE x
AmbiguousOf(ea, eb, ec, ek) ==
  LET ex(n) == CASE n = "a" -> ea [] n = "b" -> eb [] n = "c" -> ec [] n = "n.k" -> ek [] OTHER -> Lit("")
      sc(n) == IF n = "n" THEN {"n.k"} ELSE {Base(x) : x \in {y \in RefsOfE(ex(n)) : Base(y) \in {"a", "b", "c", "n.k", "n"}}}
      RECURSIVE Rch(_,_)
      Rch(X, k) == IF k = 0 THEN X ELSE Rch(X \cup UNION {sc(x) : x \in X}, k-1)
  IN \E x \in {"a", "b", "c", "n.k"} : \E n0 \in AltNames(ex(x)) : LET n == Base(n0) IN
        n = "*" \/ x = n \/ x \in Rch(sc(n), 6) \/ (n = "n" /\ x = "n.k")

\* the settings of the root form a reference cycle (statically): Unpack of the WHOLE config then
\* shares its per-call cache between fields inside the cycle and its outcome depends on field order
CyclicOf(ea, eb, ec, ek) ==
  LET ex(n) == CASE n = "a" -> ea [] n = "b" -> eb [] n = "c" -> ec [] n = "n.k" -> ek [] OTHER -> Lit("")
      sc(n) == IF n = "n" THEN {"n.k"} ELSE {Base(x) : x \in {y \in RefsOfE(ex(n)) : Base(y) \in {"a", "b", "c", "n.k", "n"}}}
      RECURSIVE Rch(_,_)
      Rch(X, k) == IF k = 0 THEN X ELSE Rch(X \cup UNION {sc(x) : x \in X}, k-1)
  IN \E n \in {"a", "b", "c", "n.k", "n"} : n \in Rch(sc(n), 6)

\* the setting n.k leads back to its own ancestor n (n: {k: ${n}}, possibly through other settings): unpacking n into a
\* RECURSIVE struct type (type T struct{ K *T }) must end with the cyclic-reference error like every other read
NodeCycleOf(ea, eb, ec, ek) ==
  LET ex(n) == CASE n = "a" -> ea [] n = "b" -> eb [] n = "c" -> ec [] n = "n.k" -> ek [] OTHER -> Lit("")
      sc(n) == IF n = "n" THEN {"n.k"} ELSE {Base(x) : x \in {y \in RefsOfE(ex(n)) : Base(y) \in {"a", "b", "c", "n.k", "n"}}}
      RECURSIVE Rch(_,_)
      Rch(X, k) == IF k = 0 THEN X ELSE Rch(X \cup UNION {sc(x) : x \in X}, k-1)
  IN "n" \in Rch(sc("n.k"), 6)
Init == va \in cShapesA /\ ph = 0 /\ cs = <<>>
Next == /\ ph = 0 /\ ph' = 1 /\ va' = va
        /\ \E eb \in cShapesB, ec \in cShapesC, ek \in cShapesK, envs \in cEnvSets, res \in cResSets :
              cs' = <<eb, ec, ek, envs, res>> /\ PrintT(ToJson(Case(World(va, eb, ec, ek, envs, res), AmbiguousOf(va, eb, ec, ek), CyclicOf(va, eb, ec, ek), NodeCycleOf(va, eb, ec, ek))))
View == <<va, ph>>

(* ---- model-level statements (checked by MC runs of this module, no VIEW) ------------- *)
W0 == World(va, cs[1], cs[2], cs[3], cs[4], cs[5])
\* C02: a reference that cannot be resolved anywhere is an error, never a silently empty value
NoSilentEmpty ==
  ph = 1 => \A i \in 1..3 : LET n == ReadNames[i] v == At(W0.root, <<NF(n)>>) IN
     (IsRefVal(v) /\ v.e.n = "m" /\ W0.envs = <<>> /\ W0.res = <<>>) => IsE(GetString({}, W0, n))
\* C02: lookup order root, then Env (most recently added first), then resolvers (most recent first)
LookupOrder ==
  ph = 1 => LET r == Resolve({}, W0, 0, "m", {}) IN
     IF \E j \in 1..Len(W0.envs) : "m" \in DOMAIN W0.envs[j].d
     THEN r.f = "found" /\ r.o = CHOOSE j \in 1..Len(W0.envs) : "m" \in DOMAIN W0.envs[j].d /\ \A x \in 1..Len(W0.envs) : ("m" \in DOMAIN W0.envs[x].d => x <= j)
     ELSE IF \E j \in 1..Len(W0.res) : "m" \in DOMAIN W0.res[j]
     THEN r.f = "text" /\ r.s = W0.res[CHOOSE j \in 1..Len(W0.res) : "m" \in DOMAIN W0.res[j] /\ \A x \in 1..Len(W0.res) : ("m" \in DOMAIN W0.res[x] => x <= j)]["m"]
     ELSE r.f = "err"
\* C08: using a name twice / reaching it along two paths is no cycle: an acyclic world never reports one
RECURSIVE RefsOf(_)
RefsOf(e) == CASE e.t = "lit" -> {} [] e.t = "val" -> {} [] e.t = "ref" -> {e.n}
               [] e.t = "cat" -> UNION {RefsOf(e.ps[i]) : i \in 1..Len(e.ps)}
               [] e.t = "ind" -> {"*"}
               [] OTHER -> (IF e.l.t = "lit" THEN {e.l.s} ELSE {"*"}) \cup RefsOf(e.r)
ExprOf(n) == CASE n = "a" -> va [] n = "b" -> cs[1] [] n = "c" -> cs[2] [] n = "n.k" -> cs[3] [] OTHER -> Lit("")
Succ(n) == IF n = "n" THEN {"n.k"} ELSE {Base(x) : x \in {y \in RefsOf(ExprOf(n)) : Base(y) \in {"a", "b", "c", "n.k", "n"}}}
RECURSIVE ReachN(_,_)
ReachN(X, k) == IF k = 0 THEN X ELSE ReachN(X \cup UNION {Succ(x) : x \in X}, k-1)
Acyclic == \A n \in {"a", "b", "c", "n.k"} : "*" \notin RefsOf(ExprOf(n)) /\ n \notin ReachN(Succ(n), 6)
NoFalseCycle ==
  (ph = 1 /\ Acyclic /\ W0.envs = <<>>) =>
     \A i \in 1..4 : LET r == GetString({}, W0, ReadNames[i]) IN ~(IsE(r) /\ r.err = "cyclic")
\* C08: every read returns (the Ideal flatten never overflows)
FlattenReturns == ph = 1 => Flatten({}, W0, 8) = "returns"

(* ---- universes ---------------------------------------------------------------------------- *)
\* "q.k": a dotted name whose FIRST segment is absent from the root (the lookup fails with an error
\* instead of "not found"); only a resolver (or an Env config) can provide it
\* "a.k": a multi-segment name THROUGH the setting a (whose value may itself be a reference: a: ${a.k} is a cycle
\* that only the path walk can see); "l.0", "l.1.x": the list elements
TabNK == ("n.k" :> <<NF("n"), NF("k")>>) @@ ("q.k" :> <<NF("q"), NF("k")>>) @@ ("a.k" :> <<NF("a"), NF("k")>>)
         @@ ("l.0" :> <<NF("l"), IX(0)>>) @@ ("l.1.x" :> <<NF("l"), IX(1), NF("x")>>)
ShQuick == {Lit("x"), Lit(""), Ref("a"), Ref("b"), Ref("c"), Ref("m"), Ref("n.k"), Ref("n"),
            Cat(<<Ref("b"), Ref("b")>>), Cat(<<Lit("p"), Ref("c")>>), Def(Lit("m"), Lit("d")), Def(Lit("b"), Ref("c")),
            Alt(Lit("b"), Lit("y")), ErrOp(Lit("m"), Lit("boom")), Ind(Ref("c")), Cat(<<Alt(Lit("b"), Lit("y")), Ref("b")>>),
            Val(P("n", "7")), Ref("q.k"), Alt(Lit("q.k"), Lit("y")), ErrOp(Lit("q.k"), Lit("boom")), Ref("a.k"), Cat(<<Lit("p"), Ref("a.k")>>)}
ShFull == ShQuick \cup {Cat(<<Ref("a"), Ref("c")>>), Def(Lit("a"), Lit("")), Def(Ref("c"), Lit("d")), Alt(Lit("m"), Lit("y")),
                        ErrOp(Lit("b"), Ref("c")), Cat(<<Ref("n.k"), Ref("m")>>), Ind(Cat(<<Lit("n."), Lit("k")>>)), Val(Nil)}
ShSmall == {Lit("x"), Ref("a"), Ref("b"), Ref("c"), Ref("m"), Ref("n"), Cat(<<Ref("b"), Ref("b")>>), Def(Lit("b"), Ref("c")),
            Alt(Lit("b"), Lit("y")), Cat(<<Alt(Lit("b"), Lit("y")), Ref("b")>>),
            Cat(<<Lit("p"), Ref("q.k")>>), Def(Lit("q.k"), Lit("d")), Ref("a.k")}
ShK == {Lit("z"), Ref("a"), Ref("n"), Ref("c"), Cat(<<Ref("b"), Lit("q")>>)}
E1 == N(("m" :> StrV("e1")) @@ ("a" :> StrV("ea")), <<>>)
E2 == N(("m" :> StrV("e2")) @@ ("b" :> Dyn(Ref("m"))), <<>>)
E3 == N(("q" :> N(("k" :> StrV("eq")), <<>>)), <<>>)
EnvsAll == {<<>>, <<E1>>, <<E1, E2>>, <<E2, E1>>, <<E3, E1>>}
EnvsQuick == {<<>>, <<E1, E2>>}
R0 == [x \in {} |-> ""]
R1 == ("m" :> "r1") @@ ("a" :> "ra") @@ ("q.k" :> "rq")
R2 == ("m" :> "r2")
\* texts that the value parser turns into something else than a string: a number and (top-level comma) a list
R3 == ("m" :> "7") @@ ("a" :> "p,q") @@ ("q.k" :> "true")
ResAll == {<<>>, <<R0>>, <<R1>>, <<R1, R2>>, <<R2, R1>>, <<R3>>, <<R1, R3>>}
ResQuick == {<<>>, <<R0>>, <<R1, R2>>, <<R3>>}
==========================================================================
