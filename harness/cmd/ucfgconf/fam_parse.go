package main

import (
	"bytes"
	"encoding/json"
	"flag"
	"fmt"
	"math"
	"math/rand"
	"os"
	"reflect"
	"strconv"
	"strings"

	"github.com/elastic/go-ucfg/parse"
)

// values of UcfgParseValue
type pval struct {
	K  string           `json:"k"`
	Nk string           `json:"nk,omitempty"`
	V  json.RawMessage  `json:"v,omitempty"`
	A  []*pval          `json:"a,omitempty"`
	D  map[string]*pval `json:"-"`
}

func (p *pval) UnmarshalJSON(b []byte) error {
	var raw struct {
		K  string            `json:"k"`
		Nk string            `json:"nk"`
		V  json.RawMessage   `json:"v"`
		A  []json.RawMessage `json:"a"`
		D  json.RawMessage   `json:"d"`
	}
	if err := json.Unmarshal(b, &raw); err != nil {
		return err
	}
	p.K, p.Nk, p.V = raw.K, raw.Nk, raw.V
	for _, e := range raw.A {
		c := &pval{}
		if err := json.Unmarshal(e, c); err != nil {
			return err
		}
		p.A = append(p.A, c)
	}
	if len(raw.D) > 0 && raw.D[0] == '{' {
		if err := json.Unmarshal(raw.D, &p.D); err != nil {
			return err
		}
	}
	return nil
}

var escDecode = strings.NewReplacer("^n", "\n", "^t", "\t", "^r", "\r", "^b", "\b", "^f", "\f")

func charsToString(raw json.RawMessage) string {
	var cs []string
	if len(raw) > 0 && raw[0] == '[' {
		json.Unmarshal(raw, &cs)
	}
	return escDecode.Replace(strings.Join(cs, ""))
}

// toGo concretises an expected value; ok=false when the table entry cannot be concretised.
func (p *pval) toGo() (interface{}, error) {
	switch p.K {
	case "nil":
		return nil, nil
	case "bool":
		var s string
		json.Unmarshal(p.V, &s)
		return s == "true", nil
	case "num":
		var tok string
		json.Unmarshal(p.V, &tok)
		switch p.Nk {
		case "u":
			v, err := strconv.ParseUint(tok, 0, 64)
			if err != nil { // too large for uint64: the code falls through to float
				f, ferr := strconv.ParseFloat(tok, 64)
				if ferr != nil {
					return nil, fmt.Errorf("number token %q", tok)
				}
				return f, nil
			}
			return v, nil
		case "i":
			v, err := strconv.ParseInt(tok, 0, 64)
			if err != nil {
				f, ferr := strconv.ParseFloat(tok, 64)
				if ferr != nil {
					return nil, fmt.Errorf("number token %q", tok)
				}
				return f, nil
			}
			return v, nil
		default:
			f, err := strconv.ParseFloat(tok, 64)
			if err != nil && !math.IsInf(f, 0) {
				return nil, fmt.Errorf("number token %q", tok)
			}
			if err != nil {
				return tok, nil // out of float range: stays text
			}
			return f, nil
		}
	case "str":
		return charsToString(p.V), nil
	case "l":
		out := make([]interface{}, len(p.A))
		for i, e := range p.A {
			v, err := e.toGo()
			if err != nil {
				return nil, err
			}
			out[i] = v
		}
		return out, nil
	case "o":
		m := map[string]interface{}{}
		for k, e := range p.D {
			v, err := e.toGo()
			if err != nil {
				return nil, err
			}
			m[escDecode.Replace(k)] = v
		}
		return m, nil
	}
	return nil, fmt.Errorf("value kind %q", p.K)
}

type pcfg struct {
	Arr bool `json:"arr"`
	Obj bool `json:"obj"`
	Dq  bool `json:"dq"`
	Sq  bool `json:"sq"`
	Ic  bool `json:"ic"`
}

func (c pcfg) cfg() parse.Config {
	return parse.Config{Array: c.Arr, Object: c.Obj, StringDQuote: c.Dq, StringSQuote: c.Sq, IgnoreCommas: c.Ic}
}

type parseOutcome struct {
	Kind string      `json:"kind"` // ok | err | panic
	V    interface{} `json:"v,omitempty"`
	Msg  string      `json:"msg,omitempty"`
}

func runParse(in string, c parse.Config) (o parseOutcome) {
	panicked, msg := guard(func() {
		v, err := parse.ValueWithConfig(in, c)
		if err != nil {
			o = parseOutcome{Kind: "err", Msg: err.Error()}
			return
		}
		o = parseOutcome{Kind: "ok", V: v}
	})
	if panicked {
		o = parseOutcome{Kind: "panic", Msg: msg}
	}
	return
}

type parseExp struct {
	V   *pval  `json:"v"`
	Err string `json:"err"`
}

func eqParse(o parseOutcome, rep *reporter) func(exp json.RawMessage) bool {
	return func(exp json.RawMessage) bool {
		var e parseExp
		if err := json.Unmarshal(exp, &e); err != nil {
			return false
		}
		if e.V == nil {
			if e.Err == "panic" {
				return o.Kind == "panic"
			}
			return o.Kind == "err"
		}
		if o.Kind != "ok" {
			return false
		}
		want, err := e.V.toGo()
		if err != nil {
			rep.infra("concretisation: " + err.Error())
			return false
		}
		return reflect.DeepEqual(o.V, want)
	}
}

type parseCase struct {
	In   []string `json:"in"`
	Kind string   `json:"kind"`
	Runs []struct {
		C   pcfg `json:"c"`
		Exp struct {
			Ideal json.RawMessage `json:"ideal"`
			Alts  []altExp        `json:"alts"`
		} `json:"exp"`
	} `json:"runs"`
}

func parseReplay(args []string) int {
	fs := flag.NewFlagSet("parse", flag.ExitOnError)
	fs.Int64("seed", 1, "seed")
	fs.Parse(args)
	rep := newReporter("parse")
	runCases(func(raw []byte, rep *reporter) {
		var c parseCase
		if err := json.Unmarshal(raw, &c); err != nil {
			rep.infra("case: " + err.Error())
			return
		}
		rep.begin(raw)
		in := strings.Join(c.In, "")
		if len(c.In) >= 2 && strings.ContainsAny(in, "[]{},:\"'\\") {
			rep.nontrivial([]byte(c.Kind + in))
		}
		rep.class("kind:" + c.Kind)
		for _, r := range c.Runs {
			o := runParse(in, r.C.cfg())
			rep.classify(raw, r.Exp.Ideal, r.Exp.Alts, eqParse(o, rep), func() interface{} {
				return map[string]interface{}{"input": in, "config": r.C, "outcome": o}
			}, "parse/"+c.Kind)
		}
	}, rep)
	return rep.finish()
}

// ---- driver: random JSON documents written by encoding/json --------------------------

var jsonRunes = []rune("abzXY019 _-+.$/,:;[]{}()'\"\\\n\téü日😀")

func randJSONString(rng *rand.Rand) string {
	n := rng.Intn(6)
	r := make([]rune, n)
	for i := range r {
		r[i] = jsonRunes[rng.Intn(len(jsonRunes))]
	}
	return string(r)
}

func randJSON(rng *rand.Rand, depth int) interface{} {
	k := rng.Intn(10)
	if depth == 0 || k < 5 {
		switch rng.Intn(7) {
		case 0:
			return nil
		case 1:
			return rng.Intn(2) == 0
		case 2:
			return int64(rng.Intn(2000)) - 5
		case 3:
			return float64(rng.Intn(4000)-2000) / 8
		case 4:
			if rng.Intn(3) == 0 {
				// integers beyond 64 bits (encoding/json writes them without exponent up to 1e21) and around the boundaries
				return []interface{}{1e20, 18446744073709551616.0, -9.3e18, 1e19, uint64(math.MaxUint64), int64(math.MinInt64), -9223372036854777856.0}[rng.Intn(7)]
			}
			return uint64(math.MaxInt64) + uint64(rng.Intn(1000))
		default:
			return randJSONString(rng)
		}
	}
	if k < 8 {
		l := []interface{}{}
		for n := rng.Intn(4); n > 0; n-- {
			l = append(l, randJSON(rng, depth-1))
		}
		return l
	}
	m := map[string]interface{}{}
	for n := rng.Intn(4); n > 0; n-- {
		m[randJSONString(rng)] = randJSON(rng, depth-1)
	}
	return m
}

func runeSeq(s string) []string {
	out := []string{}
	for _, r := range s {
		out = append(out, string(r))
	}
	return out
}

var escEncode = map[rune]string{'\n': "^n", '\t': "^t", '\r': "^r", '\b': "^b", '\f': "^f"}

// encodeValue renders an observed parse result in the spec's value encoding.
func encodeValue(v interface{}) interface{} {
	switch x := v.(type) {
	case nil:
		return map[string]interface{}{"k": "nil"}
	case bool:
		return map[string]interface{}{"k": "bool", "v": strconv.FormatBool(x)}
	case uint64:
		return map[string]interface{}{"k": "num", "nk": "u", "v": strconv.FormatUint(x, 10)}
	case int64:
		return map[string]interface{}{"k": "num", "nk": "i", "v": strconv.FormatInt(x, 10)}
	case float64:
		return map[string]interface{}{"k": "num", "nk": "f", "v": strconv.FormatFloat(x, 'f', -1, 64)}
	case string:
		cs := []string{}
		for _, r := range x {
			if e, ok := escEncode[r]; ok {
				cs = append(cs, e)
			} else {
				cs = append(cs, string(r))
			}
		}
		return map[string]interface{}{"k": "str", "v": cs}
	case []interface{}:
		a := make([]interface{}, len(x))
		for i, e := range x {
			a[i] = encodeValue(e)
		}
		return map[string]interface{}{"k": "l", "a": a}
	case map[string]interface{}:
		d := map[string]interface{}{}
		kc := map[string]interface{}{}
		for k, e := range x {
			key := ""
			cs := []string{}
			for _, r := range k {
				c := string(r)
				if e, ok := escEncode[r]; ok {
					c = e
				}
				key += c
				cs = append(cs, c)
			}
			d[key] = encodeValue(e)
			kc[key] = cs
		}
		return map[string]interface{}{"k": "o", "d": d, "kc": kc}
	}
	return map[string]interface{}{"k": "?", "v": fmt.Sprint(v)}
}

// relayout puts 0-2 random JSON whitespace characters on both sides of every structural
// character of a compact JSON text (string contents are left alone).
func relayout(text string, rng *rand.Rand) string {
	ws := func(b *strings.Builder) {
		for k := rng.Intn(3); k > 0; k-- {
			b.WriteByte(" \t\r\n"[rng.Intn(4)])
		}
	}
	var b strings.Builder
	inStr, esc := false, false
	ws(&b)
	for i := 0; i < len(text); i++ {
		c := text[i]
		if inStr {
			b.WriteByte(c)
			if esc {
				esc = false
			} else if c == '\\' {
				esc = true
			} else if c == '"' {
				inStr = false
			}
			continue
		}
		switch c {
		case '"':
			inStr = true
			b.WriteByte(c)
		case '[', ']', '{', '}', ',', ':':
			ws(&b)
			b.WriteByte(c)
			ws(&b)
		default:
			b.WriteByte(c)
		}
	}
	ws(&b)
	return b.String()
}

func parseDrive(args []string) int {
	fs := flag.NewFlagSet("parse", flag.ExitOnError)
	seed := fs.Int64("seed", 1, "seed")
	n := fs.Int("n", 1000, "events")
	fs.Parse(args)
	rng := rand.New(rand.NewSource(*seed))
	w := json.NewEncoder(os.Stdout)
	w.SetEscapeHTML(false)
	for i := 0; i < *n; {
		doc := randJSON(rng, 1+rng.Intn(4))
		var buf bytes.Buffer
		enc := json.NewEncoder(&buf)
		enc.SetEscapeHTML(false)
		layout := [...]string{"compact", "indent", "crlf", "tabs", "spaced"}[rng.Intn(5)]
		switch layout {
		case "indent", "crlf":
			enc.SetIndent("", "  ")
		case "tabs":
			enc.SetIndent("", "\t")
		}
		if err := enc.Encode(doc); err != nil {
			continue
		}
		text := strings.TrimSuffix(buf.String(), "\n")
		switch layout {
		case "crlf": // encoding/json escapes line breaks inside strings, so every raw LF is layout
			text = strings.ReplaceAll(text, "\n", "\r\n")
		case "spaced":
			text = relayout(text, rng)
		}
		if strings.Contains(text, "\\u") {
			continue // \uXXXX escapes need hexadecimal arithmetic the specification does not model
		}
		o := runParse(text, parse.DefaultConfig)
		ev := map[string]interface{}{"in": runeSeq(text), "layout": layout}
		switch o.Kind {
		case "ok":
			ev["out"] = map[string]interface{}{"v": encodeValue(o.V)}
		case "panic":
			ev["out"] = map[string]interface{}{"err": "panic"}
		default:
			ev["out"] = map[string]interface{}{"err": "error"}
		}
		if w.Encode(ev) != nil {
			return 2
		}
		i++
	}
	return 0
}

func init() {
	register("parse", &family{replay: parseReplay, drive: parseDrive})
}
