package main

import (
	"crypto/sha256"
	"fmt"
	"hash"
	"reflect"
	"sort"
	"unsafe"
)

// DeepHash: name-free structural hash of everything reachable from v, including unexported
// fields; pointer identity is numbered in traversal order so sharing/aliasing is part of the hash.
type hasher struct {
	h    hash.Hash
	seen map[unsafe.Pointer]int
}

func DeepHash(v interface{}) string {
	hs := &hasher{h: sha256.New(), seen: map[unsafe.Pointer]int{}}
	hs.walk(reflect.ValueOf(v))
	return fmt.Sprintf("%x", hs.h.Sum(nil)[:8])
}

func (hs *hasher) w(s string, a ...interface{}) { fmt.Fprintf(hs.h, s, a...) }

func access(v reflect.Value) reflect.Value {
	if v.CanInterface() || !v.CanAddr() {
		return v
	}
	return reflect.NewAt(v.Type(), unsafe.Pointer(v.UnsafeAddr())).Elem()
}

func (hs *hasher) walk(v reflect.Value) {
	if !v.IsValid() {
		hs.w("<invalid>")
		return
	}
	switch v.Kind() {
	case reflect.Ptr:
		if v.IsNil() {
			hs.w("nilptr;")
			return
		}
		p := unsafe.Pointer(v.Pointer())
		if id, ok := hs.seen[p]; ok {
			hs.w("ref%d;", id)
			return
		}
		hs.seen[p] = len(hs.seen)
		hs.w("ptr%d{", hs.seen[p])
		hs.walk(v.Elem())
		hs.w("}")
	case reflect.Interface:
		if v.IsNil() {
			hs.w("niliface;")
			return
		}
		e := v.Elem()
		hs.w("iface(%s){", e.Type())
		if e.Kind() != reflect.Ptr && e.Kind() != reflect.Map && e.Kind() != reflect.Slice && e.Kind() != reflect.Func {
			// make addressable copy so unexported fields can be read
			c := reflect.New(e.Type()).Elem()
			c.Set(e)
			e = c
		}
		hs.walk(e)
		hs.w("}")
	case reflect.Struct:
		hs.w("struct{")
		if !v.CanAddr() {
			c := reflect.New(v.Type()).Elem()
			c.Set(v)
			v = c
		}
		for i := 0; i < v.NumField(); i++ {
			hs.walk(access(v.Field(i)))
			hs.w(",")
		}
		hs.w("}")
	case reflect.Map:
		if v.IsNil() {
			hs.w("nilmap;")
			return
		}
		p := unsafe.Pointer(v.Pointer())
		if id, ok := hs.seen[p]; ok {
			hs.w("ref%d;", id)
			return
		}
		hs.seen[p] = len(hs.seen)
		keys := v.MapKeys()
		sort.Slice(keys, func(i, j int) bool { return fmt.Sprint(keys[i]) < fmt.Sprint(keys[j]) })
		hs.w("map%d[", hs.seen[p])
		for _, k := range keys {
			hs.w("%v:", k)
			e := v.MapIndex(k)
			c := reflect.New(e.Type()).Elem()
			c.Set(e)
			hs.walk(c)
			hs.w(",")
		}
		hs.w("]")
	case reflect.Slice:
		if v.IsNil() {
			hs.w("nilslice;")
			return
		}
		hs.w("slice[%d:", v.Len())
		for i := 0; i < v.Len(); i++ {
			hs.walk(access(v.Index(i)))
			hs.w(",")
		}
		hs.w("]")
	case reflect.Array:
		for i := 0; i < v.Len(); i++ {
			hs.walk(access(v.Index(i)))
		}
	case reflect.Func, reflect.Chan, reflect.UnsafePointer:
		hs.w("%s@%x;", v.Kind(), v.Pointer())
	case reflect.String:
		hs.w("%q;", v.String())
	case reflect.Bool:
		hs.w("%t;", v.Bool())
	case reflect.Int, reflect.Int8, reflect.Int16, reflect.Int32, reflect.Int64:
		hs.w("%d;", v.Int())
	case reflect.Uint, reflect.Uint8, reflect.Uint16, reflect.Uint32, reflect.Uint64, reflect.Uintptr:
		hs.w("%d;", v.Uint())
	case reflect.Float32, reflect.Float64:
		hs.w("%x;", v.Float())
	default:
		hs.w("?%s;", v.Kind())
	}
}
