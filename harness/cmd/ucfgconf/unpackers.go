package main

import (
	"errors"
	"reflect"

	ucfg "github.com/elastic/go-ucfg"
)

// The typed unpacker interfaces of unpack.go (BoolUnpacker, IntUnpacker, UintUnpacker, FloatUnpacker, StringUnpacker,
// ConfigUnpacker, Unpacker and the reflective Unpack(cfg *MyConfig) form): targets that RECORD what they were handed.
// rej: Unpack returns an error; inv: Validate() returns an error afterwards.

var errUnpRejected = errors.New("rejected by the unpacker")
var errUnpInvalid = errors.New("invalid says the unpacker")

type UnpRec struct {
	Calls int
	Got   interface{}
	Rej   bool
	Inv   bool
}

func (r *UnpRec) take(x interface{}) error {
	r.Calls++
	r.Got = x
	if r.Rej {
		return errUnpRejected
	}
	return nil
}
func (r *UnpRec) validate() error {
	if r.Inv {
		return errUnpInvalid
	}
	return nil
}

type cuBool struct{ UnpRec }
type cuInt struct{ UnpRec }
type cuUint struct{ UnpRec }
type cuFloat struct{ UnpRec }
type cuString struct{ UnpRec }
type cuConfig struct{ UnpRec }
type cuAny struct{ UnpRec }
type cuRConfig struct{ UnpRec } // found by reflection: Unpack(*myConfig) with type myConfig ucfg.Config
type myConfig ucfg.Config

func (u *cuBool) Unpack(x bool) error           { return u.take(x) }
func (u *cuInt) Unpack(x int64) error           { return u.take(x) }
func (u *cuUint) Unpack(x uint64) error         { return u.take(x) }
func (u *cuFloat) Unpack(x float64) error       { return u.take(x) }
func (u *cuString) Unpack(x string) error       { return u.take(x) }
func (u *cuConfig) Unpack(x *ucfg.Config) error { return u.take(x) }
func (u *cuAny) Unpack(x interface{}) error     { return u.take(x) }
func (u *cuRConfig) Unpack(x *myConfig) error   { return u.take((*ucfg.Config)(x)) }

func (u *cuBool) Validate() error    { return u.validate() }
func (u *cuInt) Validate() error     { return u.validate() }
func (u *cuUint) Validate() error    { return u.validate() }
func (u *cuFloat) Validate() error   { return u.validate() }
func (u *cuString) Validate() error  { return u.validate() }
func (u *cuConfig) Validate() error  { return u.validate() }
func (u *cuAny) Validate() error     { return u.validate() }
func (u *cuRConfig) Validate() error { return u.validate() }

var unpTypes = map[string]reflect.Type{"bool": reflect.TypeOf(cuBool{}), "int": reflect.TypeOf(cuInt{}), "uint": reflect.TypeOf(cuUint{}),
	"float": reflect.TypeOf(cuFloat{}), "string": reflect.TypeOf(cuString{}), "config": reflect.TypeOf(cuConfig{}), "any": reflect.TypeOf(cuAny{}),
	"rconfig": reflect.TypeOf(cuRConfig{})}

// the unpacker kind that receives a conversion target
var unpForTarget = map[string]string{"int64": "int", "uint64": "uint", "float64": "float", "bool": "bool", "string": "string"}

// unpRecOf finds the record inside an unpacker value (cuX{UnpRec})
func unpRecOf(v reflect.Value) *UnpRec {
	for v.Kind() == reflect.Ptr || v.Kind() == reflect.Interface {
		if v.IsNil() {
			return nil
		}
		v = v.Elem()
	}
	if v.Kind() != reflect.Struct || v.NumField() == 0 || !v.CanAddr() {
		return nil
	}
	r, _ := v.Field(0).Addr().Interface().(*UnpRec)
	return r
}

// unpSite builds struct{V <site type>} for one unpacker kind; sites: field (by value), ptr (nil pointer), pre (pre-filled
// pointer), elem (element of a slice: the setting is a one-element list), mapval (value of a map[string]*T: the setting is
// an object with the one key k)
func unpSite(kind, site string) (reflect.Type, func(target reflect.Value, rej, inv bool), func(target reflect.Value) *UnpRec) {
	ut := unpTypes[kind]
	var ft reflect.Type
	switch site {
	case "field":
		ft = ut
	case "ptr", "pre":
		ft = reflect.PtrTo(ut)
	case "elem":
		ft = reflect.SliceOf(ut)
	case "pelem":
		ft = reflect.SliceOf(reflect.PtrTo(ut))
	case "mapval":
		ft = reflect.MapOf(reflect.TypeOf(""), reflect.PtrTo(ut))
	}
	st := reflect.StructOf([]reflect.StructField{{Name: "V", Type: ft, Tag: `config:"v"`}})
	prep := func(target reflect.Value, rej, inv bool) {
		f := target.Elem().Field(0)
		mk := func() reflect.Value {
			p := reflect.New(ut)
			r := unpRecOf(p)
			r.Rej, r.Inv = rej, inv
			return p
		}
		switch site {
		case "field":
			f.Set(mk().Elem())
		case "pre":
			f.Set(mk())
		case "elem":
			s := reflect.MakeSlice(ft, 1, 1)
			s.Index(0).Set(mk().Elem())
			f.Set(s)
		case "pelem":
			s := reflect.MakeSlice(ft, 1, 1)
			s.Index(0).Set(mk())
			f.Set(s)
		case "mapval":
			m := reflect.MakeMap(ft)
			m.SetMapIndex(reflect.ValueOf("k"), mk())
			f.Set(m)
		}
	}
	rec := func(target reflect.Value) *UnpRec {
		f := target.Elem().Field(0)
		switch site {
		case "field", "ptr", "pre":
			return unpRecOf(f)
		case "elem", "pelem":
			if f.Len() == 0 {
				return nil
			}
			return unpRecOf(f.Index(0))
		case "mapval":
			e := f.MapIndex(reflect.ValueOf("k"))
			if !e.IsValid() {
				return nil
			}
			return unpRecOf(e)
		}
		return nil
	}
	return st, prep, rec
}

// unpWrap: the setting as the site needs it
func unpWrap(site string, src interface{}) interface{} {
	switch site {
	case "elem", "pelem":
		return []interface{}{src}
	case "mapval":
		return map[string]interface{}{"k": src}
	}
	return src
}

func unpSitePath(site string) string {
	switch site {
	case "elem", "pelem":
		return "v.0"
	case "mapval":
		return "v.k"
	}
	return "v"
}
