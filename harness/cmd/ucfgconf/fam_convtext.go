package main

import (
	"encoding/json"
	"flag"
	"fmt"
	"reflect"
	"strconv"
	"strings"

	ucfg "github.com/elastic/go-ucfg"
)

type textFact struct {
	S     string          `json:"s"`
	Int   []int64         `json:"int"`
	Uint  []uint64        `json:"uint"`
	Float json.RawMessage `json:"float"`
	Bool  json.RawMessage `json:"bool"`
}

func factIsNo(r json.RawMessage) bool { return string(r) == `"err"` }

// checkTextFact verifies a row of the spec's table against strconv (the definition of the syntaxes).
func checkTextFact(t textFact) string {
	i, ierr := strconv.ParseInt(t.S, 0, 64)
	if (len(t.Int) == 0) != (ierr != nil) {
		return fmt.Sprintf("table: ParseInt(%q) fact is wrong", t.S)
	}
	if ierr == nil && t.Int[0] != i {
		return fmt.Sprintf("table: ParseInt(%q) value is wrong", t.S)
	}
	u, uerr := strconv.ParseUint(t.S, 0, 64)
	if (len(t.Uint) == 0) != (uerr != nil) {
		return fmt.Sprintf("table: ParseUint(%q) fact is wrong", t.S)
	}
	if uerr == nil && t.Uint[0] != u {
		return fmt.Sprintf("table: ParseUint(%q) value is wrong", t.S)
	}
	f, ferr := strconv.ParseFloat(t.S, 64)
	if factIsNo(t.Float) != (ferr != nil) {
		return fmt.Sprintf("table: ParseFloat(%q) fact is wrong", t.S)
	}
	if ferr == nil {
		var txt string
		json.Unmarshal(t.Float, &txt)
		if canonFloat(f) != txt {
			return fmt.Sprintf("table: ParseFloat(%q) = %s, table says %s", t.S, canonFloat(f), txt)
		}
	}
	b, berr := strconv.ParseBool(t.S)
	if factIsNo(t.Bool) != (berr != nil) {
		return fmt.Sprintf("table: ParseBool(%q) fact is wrong", t.S)
	}
	if berr == nil {
		var txt string
		json.Unmarshal(t.Bool, &txt)
		if strconv.FormatBool(b) != txt {
			return fmt.Sprintf("table: ParseBool(%q) value is wrong", t.S)
		}
	}
	return ""
}

var convTextTypes = map[string]reflect.Type{"int8": reflect.TypeOf(int8(0)), "int16": reflect.TypeOf(int16(0)), "int64": reflect.TypeOf(int64(0)),
	"uint8": reflect.TypeOf(uint8(0)), "uint16": reflect.TypeOf(uint16(0)), "uint64": reflect.TypeOf(uint64(0)), "float64": reflect.TypeOf(float64(0)),
	"bool": reflect.TypeOf(false), "string": reflect.TypeOf("")}

type convTextCase struct {
	Kind  string   `json:"kind"`
	Text  textFact `json:"text"`
	Value struct {
		K   string `json:"k"`
		Txt string `json:"txt"`
	} `json:"value"`
	Tgt string `json:"tgt"`
	Exp struct {
		Ideal json.RawMessage `json:"ideal"`
		Alts  []altExp        `json:"alts"`
	} `json:"exp"`
}

// observed: "err" or kind:value text
func runConvText(src interface{}, tgt, route string) string {
	out := "err"
	guard(func() {
		cfg, err := ucfg.NewFrom(map[string]interface{}{"v": src, "w": "${v}"}, ucfg.VarExp)
		if err != nil {
			return
		}
		key := "v"
		if route == "ref" {
			key = "w"
		}
		if strings.HasPrefix(route, "set") { // typed setters keep the kind verbatim
			switch x := src.(type) {
			case bool:
				err = cfg.SetBool("v", -1, x)
			case int64:
				err = cfg.SetInt("v", -1, x)
			case uint64:
				err = cfg.SetUint("v", -1, x)
			case float64:
				err = cfg.SetFloat("v", -1, x)
			case string:
				err = cfg.SetString("v", -1, x)
			}
			if err != nil {
				return
			}
			route = strings.TrimPrefix(route, "set-")
		}
		opts := []ucfg.Option{ucfg.VarExp}
		if route == "getter" {
			switch tgt {
			case "int64":
				if x, err := cfg.Int(key, -1, opts...); err == nil {
					out = "int:" + strconv.FormatInt(x, 10)
				}
			case "uint64":
				if x, err := cfg.Uint(key, -1, opts...); err == nil {
					out = "int:" + strconv.FormatUint(x, 10)
				}
			case "float64":
				if x, err := cfg.Float(key, -1, opts...); err == nil {
					out = "float:" + canonFloat(x)
				}
			case "bool":
				if x, err := cfg.Bool(key, -1, opts...); err == nil {
					out = "bool:" + strconv.FormatBool(x)
				}
			case "string":
				if x, err := cfg.String(key, -1, opts...); err == nil {
					out = "string:" + x
				}
			default:
				out = "skip"
			}
			return
		}
		if strings.HasPrefix(route, "unp-") {
			kind, ok := unpForTarget[tgt]
			if !ok {
				out = "skip"
				return
			}
			site := strings.TrimPrefix(route, "unp-")
			ucfgc, err := ucfg.NewFrom(map[string]interface{}{"v": unpWrap(site, src)})
			if err != nil {
				return
			}
			sty, prep, rec := unpSite(kind, site)
			target := reflect.New(sty)
			prep(target, false, false)
			if err := ucfgc.Unpack(target.Interface()); err != nil {
				return
			}
			r := rec(target)
			if r == nil || r.Calls != 1 {
				out = "unpacker not called exactly once"
				return
			}
			switch x := r.Got.(type) {
			case bool:
				out = "bool:" + strconv.FormatBool(x)
			case string:
				out = "string:" + x
			case float64:
				out = "float:" + canonFloat(x)
			case int64:
				out = "int:" + strconv.FormatInt(x, 10)
			case uint64:
				out = "int:" + strconv.FormatUint(x, 10)
			}
			return
		}
		st := reflect.New(reflect.StructOf([]reflect.StructField{{Name: "V", Type: convTextTypes[tgt], Tag: reflect.StructTag(`config:"` + key + `"`)}}))
		if err := cfg.Unpack(st.Interface(), opts...); err != nil {
			return
		}
		v := st.Elem().Field(0)
		switch v.Kind() {
		case reflect.Bool:
			out = "bool:" + strconv.FormatBool(v.Bool())
		case reflect.String:
			out = "string:" + v.String()
		case reflect.Float64:
			out = "float:" + canonFloat(v.Float())
		case reflect.Int8, reflect.Int16, reflect.Int64:
			out = "int:" + strconv.FormatInt(v.Int(), 10)
		default:
			out = "int:" + strconv.FormatUint(v.Uint(), 10)
		}
	})
	return out
}

func convTextReplay(args []string) int {
	fs := flag.NewFlagSet("convtext", flag.ExitOnError)
	fs.Int64("seed", 1, "seed")
	fs.Parse(args)
	rep := newReporter("convtext")
	runCases(func(raw []byte, rep *reporter) {
		var c convTextCase
		if err := json.Unmarshal(raw, &c); err != nil {
			rep.infra("case: " + err.Error())
			return
		}
		var src interface{}
		if c.Kind == "text" {
			if msg := checkTextFact(c.Text); msg != "" {
				rep.infra(msg)
				return
			}
			src = c.Text.S
		} else {
			switch c.Value.K {
			case "bool":
				src = c.Value.Txt == "true"
			case "int":
				n, _ := strconv.ParseInt(c.Value.Txt, 10, 64)
				src = n
			case "uint":
				n, _ := strconv.ParseUint(c.Value.Txt, 10, 64)
				src = n
			default:
				f, _ := strconv.ParseFloat(c.Value.Txt, 64)
				src = f
			}
		}
		rep.begin(raw)
		rep.nontrivial(raw[:len(raw)*2/3])
		for _, route := range []string{"field", "ref", "getter", "set-field", "set-getter", "unp-field", "unp-ptr", "unp-pre", "unp-elem", "unp-pelem", "unp-mapval"} {
			if c.Kind == "text" && route == "ref" && c.Text.S == "" {
				continue
			}
			got := runConvText(src, c.Tgt, route)
			if got == "skip" {
				continue
			}
			eq := func(exp json.RawMessage) bool {
				var e struct {
					Ok  string          `json:"ok"`
					V   json.RawMessage `json:"v"`
					Err bool            `json:"err"`
				}
				if json.Unmarshal(exp, &e) != nil {
					return false
				}
				if e.Err {
					return got == "err"
				}
				var want string
				switch e.Ok {
				case "int":
					var n int64
					json.Unmarshal(e.V, &n)
					want = "int:" + strconv.FormatInt(n, 10)
				default:
					var s string
					json.Unmarshal(e.V, &s)
					want = e.Ok + ":" + s
				}
				if e.Ok == "string" && c.Kind == "value" && c.Value.K == "float" {
					f, _ := strconv.ParseFloat(c.Value.Txt, 64)
					want = "string:" + fmt.Sprintf("%v", f)
				}
				return got == want
			}
			rep.classify(raw, c.Exp.Ideal, c.Exp.Alts, eq, func() interface{} {
				return map[string]interface{}{"source": fmt.Sprintf("%T(%v)", src, src), "target": c.Tgt, "route": route, "got": got}
			}, "convert-text/"+route)
		}
	}, rep)
	return rep.finish()
}

func init() {
	register("convtext", &family{replay: convTextReplay})
}
