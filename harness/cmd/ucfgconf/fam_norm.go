package main

import (
	"encoding/json"
	"flag"
	"fmt"
	"math/rand"
	"os"
	"reflect"
	"sort"
	"strconv"
	"strings"

	ucfg "github.com/elastic/go-ucfg"
)

// ---- abstract Go values of the normalisation spec ------------------------------

type gval struct {
	G  string   `json:"g"`
	Ty string   `json:"ty,omitempty"`
	V  string   `json:"v,omitempty"`
	Xs []*gval  `json:"xs,omitempty"`
	Es []gentry `json:"es,omitempty"`
	T  *tree    `json:"t,omitempty"`
}

type gentry struct {
	Key []seg
	Val *gval
}

func (e *gentry) UnmarshalJSON(b []byte) error {
	var raw []json.RawMessage
	if err := json.Unmarshal(b, &raw); err != nil {
		return err
	}
	if len(raw) != 2 {
		return fmt.Errorf("entry needs 2 elements")
	}
	if err := json.Unmarshal(raw[0], &e.Key); err != nil {
		return err
	}
	e.Val = &gval{}
	return json.Unmarshal(raw[1], e.Val)
}

func (e gentry) MarshalJSON() ([]byte, error) {
	k := e.Key
	if k == nil {
		k = []seg{}
	}
	return json.Marshal([]interface{}{k, e.Val})
}

func (g *gval) MarshalJSON() ([]byte, error) {
	switch g.G {
	case "nil":
		return []byte(`{"g":"nil"}`), nil
	case "p":
		return json.Marshal(map[string]string{"g": "p", "ty": g.Ty, "v": g.V})
	case "l":
		xs := g.Xs
		if xs == nil {
			xs = []*gval{}
		}
		return json.Marshal(map[string]interface{}{"g": "l", "xs": xs})
	case "m":
		es := g.Es
		if es == nil {
			es = []gentry{}
		}
		return json.Marshal(map[string]interface{}{"g": "m", "es": es})
	case "cfg":
		return json.Marshal(map[string]interface{}{"g": "cfg", "t": g.T})
	}
	return nil, fmt.Errorf("gval kind %q", g.G)
}

func segKey(k []seg) string { return nameString(k) }

// numeric Go types used for "n" primitives, chosen by representation
func numAs(text, repr string) interface{} {
	if i, err := strconv.ParseInt(text, 10, 64); err == nil {
		switch repr {
		case "msi":
			return int(i)
		case "mii":
			return i
		case "struct":
			if i >= 0 && i < 256 {
				return uint8(i)
			}
			return int32(i)
		case "typed":
			return float64(i)
		case "ptr":
			v := int16(i)
			return &v
		case "cfg":
			if i >= 0 {
				return uint64(i)
			}
			return i
		}
		return i
	}
	f, _ := strconv.ParseFloat(text, 64)
	if repr == "ptr" {
		return &f
	}
	return f
}

func primAs(g *gval, repr string) interface{} {
	switch g.Ty {
	case "n":
		return numAs(g.V, repr)
	case "b":
		b := g.V == "true"
		if repr == "ptr" {
			return &b
		}
		return b
	}
	if repr == "ptr" {
		s := g.V
		return &s
	}
	return g.V
}

func allPrimsOf(vals []*gval) (string, bool) {
	ty := ""
	for _, v := range vals {
		if v.G != "p" {
			return "", false
		}
		if ty == "" {
			ty = v.Ty
		} else if ty != v.Ty {
			return "", false
		}
	}
	return ty, ty != ""
}

type normBuilder struct {
	sep  string // the path separator the keys are written with ("" = ".")
	repr string
	rng  *rand.Rand // nil: entries inserted in the given order
	opts []ucfg.Option
	err  error
}

func (b *normBuilder) key(k []seg) string {
	if b.sep == "" || b.sep == "." {
		return segKey(k)
	}
	p := make([]string, len(k))
	for i, s := range k {
		p[i] = s.S
	}
	return strings.Join(p, b.sep)
}

func (b *normBuilder) build(g *gval, top bool) interface{} {
	switch g.G {
	case "nil":
		return nil
	case "p":
		return primAs(g, b.repr)
	case "cfg":
		c, err := ucfg.NewFrom(g.T.toGo(), b.opts...)
		if err != nil {
			b.err = err
			return nil
		}
		return c
	case "l":
		vals := make([]interface{}, len(g.Xs))
		for i, x := range g.Xs {
			vals[i] = b.build(x, false)
		}
		switch b.repr {
		case "struct":
			arr := reflect.New(reflect.ArrayOf(len(vals), tIface)).Elem()
			for i, v := range vals {
				if v != nil {
					arr.Index(i).Set(reflect.ValueOf(v))
				}
			}
			return arr.Interface()
		case "typed":
			if ty, ok := allPrimsOf(g.Xs); ok && len(vals) > 0 {
				sl := reflect.MakeSlice(reflect.SliceOf(reflect.TypeOf(vals[0])), len(vals), len(vals))
				for i, v := range vals {
					sl.Index(i).Set(reflect.ValueOf(v))
				}
				_ = ty
				return sl.Interface()
			}
		case "ptr":
			return &vals
		}
		return vals
	case "m":
		es := append([]gentry{}, g.Es...)
		if b.rng != nil {
			b.rng.Shuffle(len(es), func(i, j int) { es[i], es[j] = es[j], es[i] })
		}
		var out interface{}
		switch b.repr {
		case "struct":
			fields := make([]reflect.StructField, len(es))
			vals := make([]interface{}, len(es))
			for i, e := range es {
				vals[i] = b.build(e.Val, false)
				typ := tIface
				if vals[i] != nil {
					k := reflect.TypeOf(vals[i]).Kind()
					if k == reflect.Struct || k == reflect.Array {
						typ = reflect.TypeOf(vals[i])
					}
				}
				fields[i] = reflect.StructField{Name: "F" + strconv.Itoa(i), Type: typ,
					Tag: reflect.StructTag(`config:"` + b.key(e.Key) + `"`)}
			}
			st := reflect.New(reflect.StructOf(fields)).Elem()
			for i, v := range vals {
				if v != nil {
					st.Field(i).Set(reflect.ValueOf(v))
				}
			}
			out = st.Interface()
		case "mii":
			m := map[interface{}]interface{}{}
			for _, e := range es {
				m[b.key(e.Key)] = b.build(e.Val, false)
			}
			out = m
		case "typed":
			var vs []*gval
			for _, e := range es {
				vs = append(vs, e.Val)
			}
			if _, ok := allPrimsOf(vs); ok {
				first := b.build(es[0].Val, false)
				m := reflect.MakeMap(reflect.MapOf(reflect.TypeOf(""), reflect.TypeOf(first)))
				for _, e := range es {
					m.SetMapIndex(reflect.ValueOf(b.key(e.Key)), reflect.ValueOf(b.build(e.Val, false)))
				}
				out = m.Interface()
				break
			}
			fallthrough
		default:
			m := map[string]interface{}{}
			for _, e := range es {
				m[b.key(e.Key)] = b.build(e.Val, false)
			}
			out = m
			if b.repr == "ptr" && !top {
				out = &m
			}
		}
		if b.repr == "cfg" && !top {
			c, err := ucfg.NewFrom(out, b.opts...)
			if err != nil {
				if b.err == nil {
					b.err = err
				}
				return nil
			}
			return c
		}
		return out
	}
	panic("gval " + g.G)
}

func normErrClass(err error) string {
	e, ok := err.(ucfg.Error)
	if !ok {
		return "bare"
	}
	switch e.Reason() {
	case ucfg.ErrDuplicateKey:
		return "duplicate"
	case ucfg.ErrExpectedObject:
		return "object"
	case ucfg.ErrMissing:
		return "missing"
	case ucfg.ErrTypeMismatch:
		return "type"
	}
	if e.Reason() == nil {
		return "noreason"
	}
	return e.Reason().Error()
}

type normOutcome struct {
	Err string      `json:"err,omitempty"`
	M   interface{} `json:"m"`
	L   interface{} `json:"l"`
}

// runNorm normalises one value on the real code and observes the result; it also
// checks that feeding the unpacked data back in yields an identical config.
func runNorm(g *gval, pol, repr string, rng *rand.Rand) (out normOutcome, refeed string) {
	return runNormSep(g, pol, repr, rng, ".")
}

// runNormSep: the same with the keys written with another path separator (the meaning of an input does not
// depend on which separator spells its paths)
func runNormSep(g *gval, pol, repr string, rng *rand.Rand, sep string) (out normOutcome, refeed string) {
	opts := append([]ucfg.Option{ucfg.PathSep(sep)}, polOption(pol)...)
	panicked, msg := guard(func() {
		b := &normBuilder{repr: repr, rng: rng, opts: opts, sep: sep}
		v := b.build(g, true)
		if b.err != nil {
			out.Err = normErrClass(b.err)
			return
		}
		c, err := ucfg.NewFrom(v, opts...)
		if err != nil {
			out.Err = normErrClass(err)
			return
		}
		if repr == "cfg" {
			// an existing Config as the input value
			c2, err := ucfg.NewFrom(c, opts...)
			if err != nil {
				out.Err = "from-config: " + normErrClass(err)
				return
			}
			c = c2
		}
		m, l, err := observeTop(c, ucfg.PathSep(sep))
		if err != nil {
			out.Err = "unpack: " + err.Error()
			return
		}
		out.M, out.L = m, l
		// idempotence through the generic representation
		var back interface{}
		if l == nil {
			var mm map[string]interface{}
			c.Unpack(&mm, ucfg.PathSep(sep))
			back = mm
		} else if m == nil {
			var ll []interface{}
			c.Unpack(&ll, ucfg.PathSep(sep))
			back = ll
		}
		if back != nil {
			c3, err := ucfg.NewFrom(back, ucfg.PathSep(sep))
			if err != nil {
				refeed = "re-feeding the unpacked data failed: " + err.Error()
				return
			}
			m3, l3, _ := observeTop(c3, ucfg.PathSep(sep))
			if !reflect.DeepEqual(m3, m) || !reflect.DeepEqual(l3, l) {
				refeed = "re-feeding the unpacked data gives " + jsonOf([]interface{}{m3, l3}) + " instead of " + jsonOf([]interface{}{m, l})
			}
		}
	})
	if panicked {
		out = normOutcome{Err: "panic: " + msg}
	}
	return
}

type normExp struct {
	Ok  *topObs `json:"ok"`
	Err string  `json:"err"`
}

func eqNorm(out normOutcome) func(exp json.RawMessage) bool {
	return func(exp json.RawMessage) bool {
		var e normExp
		if err := json.Unmarshal(exp, &e); err != nil {
			return false
		}
		if e.Ok == nil {
			return out.Err != "" && out.Err == e.Err
		}
		if out.Err != "" {
			return false
		}
		return reflect.DeepEqual(out.M, e.Ok.M.canon()) && reflect.DeepEqual(out.L, e.Ok.L.canon())
	}
}

type normCase struct {
	Gv   *gval  `json:"gv"`
	Pol  string `json:"pol"`
	Kind string `json:"kind"`
	Exp  struct {
		Ideal json.RawMessage `json:"ideal"`
		Alts  []altExp        `json:"alts"`
	} `json:"exp"`
	Orders []json.RawMessage `json:"orders"`
}

func normReplay(args []string) int {
	fs := flag.NewFlagSet("norm", flag.ExitOnError)
	reprs := fs.String("reprs", "struct,msi,mii,typed,ptr,cfg", "representations")
	repeat := fs.Int("repeat", 2, "repetitions of every map-like representation with shuffled insertion order")
	seps := fs.String("seps", "/,::", "further path separators the keys are spelled with (struct representation)")
	seed := fs.Int64("seed", 1, "seed")
	fs.Parse(args)
	rl := strings.Split(*reprs, ",")
	rep := newReporter("norm")
	runCases(func(raw []byte, rep *reporter) {
		var c normCase
		if err := json.Unmarshal(raw, &c); err != nil {
			rep.infra("case: " + err.Error())
			return
		}
		rep.begin(raw)
		if len(c.Gv.Es) >= 2 {
			key, _ := json.Marshal([]interface{}{c.Gv, c.Pol})
			rep.nontrivial(key)
		}
		rep.class("kind:" + c.Kind)
		h := int64(0)
		for _, ch := range raw {
			h = h*131 + int64(ch)
		}
		rng := rand.New(rand.NewSource(*seed ^ h))
		// the same input spelled with other separators (struct representation: the declaration order is the visiting order)
		for _, sep := range strings.Split(*seps, ",") {
			if sep == "" || sep == "." {
				continue
			}
			out, refeed := runNormSep(c.Gv, c.Pol, "struct", nil, sep)
			if refeed != "" {
				rep.violate("not-idempotent/struct/sep="+sep, raw, refeed, nil, "")
				continue
			}
			rep.classify(raw, c.Exp.Ideal, c.Exp.Alts, eqNorm(out), func() interface{} { return out }, "normalize/struct/sep="+sep)
		}
		for _, repr := range rl {
			if repr == "struct" {
				out, refeed := runNorm(c.Gv, c.Pol, repr, nil)
				if refeed != "" {
					rep.violate("not-idempotent/"+repr, raw, refeed, nil, "")
					continue
				}
				rep.classify(raw, c.Exp.Ideal, c.Exp.Alts, eqNorm(out), func() interface{} { return out }, "normalize/"+repr)
				continue
			}
			// map-like representations: a map is visited in the order of its key strings, so the outcome is ONE
			// (C09: every repetition, whatever order the runtime enumerates the map in) - the order-free result, or
			// under the listed deviation the result of visiting the entries in sorted order
			var sorted json.RawMessage
			for _, o := range c.Orders {
				var oo struct {
					Perm []int           `json:"perm"`
					Out  json.RawMessage `json:"out"`
				}
				if json.Unmarshal(o, &oo) != nil || len(oo.Perm) != len(c.Gv.Es) {
					continue
				}
				isSorted := true
				for i := 1; i < len(oo.Perm); i++ {
					if segKey(c.Gv.Es[oo.Perm[i-1]-1].Key) >= segKey(c.Gv.Es[oo.Perm[i]-1].Key) {
						isSorted = false
					}
				}
				if isSorted {
					sorted = oo.Out
				}
			}
			var first *normOutcome
			same := true
			for k := 0; k < *repeat; k++ {
				out, refeed := runNorm(c.Gv, c.Pol, repr, rng)
				if refeed != "" {
					rep.violate("not-idempotent/"+repr, raw, refeed, nil, "")
					first, same = nil, false
					break
				}
				if first == nil {
					o := out
					first = &o
				} else if !reflect.DeepEqual(*first, out) {
					rep.violate("order-dependent/"+repr, raw, []interface{}{*first, out}, "one outcome for every repetition",
						"the outcome of creating a config from a map depends on the order in which the runtime enumerates it")
					same = false
					break
				}
			}
			if first == nil || !same {
				continue
			}
			eq := eqNorm(*first)
			switch {
			case eq(c.Exp.Ideal):
				rep.okIdeal()
			case sorted != nil && eq(sorted):
				rep.okKnown([]string{"DupDependsOnOrder"}, raw)
			default:
				var want interface{}
				json.Unmarshal(c.Exp.Ideal, &want)
				rep.violate("normalize/"+repr, raw, *first, want, "not the order-free result and not the result of visiting the entries in the order of their keys under the listed deviation")
			}
		}
	}, rep)
	return rep.finish()
}

// ---- driver --------------------------------------------------------------------------

func randGTree(rng *rand.Rand, depth int) *tree {
	if depth == 0 || rng.Intn(3) == 0 {
		switch rng.Intn(6) {
		case 0:
			return &tree{K: "nil"}
		case 1:
			return &tree{K: "p", Ty: "n", V: strconv.Itoa(rng.Intn(5))}
		case 2:
			return &tree{K: "p", Ty: "b", V: "true"}
		default:
			return &tree{K: "p", Ty: "s", V: []string{"1", "x", "y"}[rng.Intn(3)]}
		}
	}
	t := &tree{K: "n"}
	if rng.Intn(4) == 0 {
		for n := rng.Intn(3) + 1; n > 0; n-- {
			t.A = append(t.A, randGTree(rng, depth-1))
		}
		return t
	}
	t.D = map[string]*tree{}
	for n := rng.Intn(3) + 1; n > 0; n-- {
		t.D[driveKeys[rng.Intn(len(driveKeys))]] = randGTree(rng, depth-1)
	}
	return t
}

// flatten renders dictionary node t as entries, flattening each entry with probability 1/2.
func flattenTree(rng *rand.Rand, t *tree, prefix []seg, out *[]gentry) {
	for k, c := range t.D {
		pk := append(append([]seg{}, prefix...), seg{S: k, I: -1})
		switch {
		case c.K == "n" && len(c.D) > 0 && len(c.A) == 0 && rng.Intn(2) == 0:
			flattenTree(rng, c, pk, out)
		case c.K == "n" && len(c.D) == 0 && len(c.A) > 0 && rng.Intn(3) == 0:
			for i, e := range c.A {
				*out = append(*out, gentry{Key: append(append([]seg{}, pk...), seg{S: strconv.Itoa(i), I: i}), Val: goOfTree(rng, e)})
			}
		default:
			*out = append(*out, gentry{Key: pk, Val: goOfTree(rng, c)})
		}
	}
}

func goOfTree(rng *rand.Rand, t *tree) *gval {
	switch t.K {
	case "nil":
		return &gval{G: "nil"}
	case "p":
		return &gval{G: "p", Ty: t.Ty, V: t.V}
	}
	if len(t.D) == 0 {
		g := &gval{G: "l"}
		for _, e := range t.A {
			g.Xs = append(g.Xs, goOfTree(rng, e))
		}
		return g
	}
	g := &gval{G: "m"}
	flattenTree(rng, t, nil, &g.Es)
	return g
}

// sortEntries orders the entries of every map of the input by their key strings.
func sortEntries(g *gval) {
	if g == nil {
		return
	}
	if g.G == "m" {
		sort.SliceStable(g.Es, func(i, j int) bool { return segKey(g.Es[i].Key) < segKey(g.Es[j].Key) })
		for i := range g.Es {
			sortEntries(g.Es[i].Val)
		}
	}
	for _, x := range g.Xs {
		sortEntries(x)
	}
}

func normDrive(args []string) int {
	fs := flag.NewFlagSet("norm", flag.ExitOnError)
	seed := fs.Int64("seed", 1, "seed")
	n := fs.Int("n", 1000, "events")
	fs.Parse(args)
	rng := rand.New(rand.NewSource(*seed))
	w := json.NewEncoder(os.Stdout)
	reprs := []string{"struct", "msi", "mii", "typed", "ptr", "cfg"}
	for i := 0; i < *n; i++ {
		t := randGTree(rng, 1+rng.Intn(4))
		for t.K != "n" || len(t.D) == 0 {
			t = randGTree(rng, 1+rng.Intn(4))
		}
		g := goOfTree(rng, t)
		// sometimes add an overlapping entry (a conflict or a nil)
		if rng.Intn(5) == 0 && len(g.Es) > 0 && len(g.Es) < 5 {
			e := g.Es[rng.Intn(len(g.Es))]
			k := append(append([]seg{}, e.Key...), seg{S: driveKeys[rng.Intn(3)], I: -1})
			dup := false
			for _, o := range g.Es {
				if segKey(o.Key) == segKey(k) {
					dup = true
				}
			}
			if !dup {
				v := &gval{G: "p", Ty: "s", V: "z"}
				if rng.Intn(3) == 0 {
					v = &gval{G: "nil"}
				}
				g.Es = append(g.Es, gentry{Key: k, Val: v})
			}
		}
		pol := "default"
		repr := reprs[rng.Intn(len(reprs))]
		var r *rand.Rand
		if repr != "struct" {
			r = rng
		}
		if repr != "struct" {
			// a map is visited in the order of its key strings: the recorded input lists the entries in that order
			sortEntries(g)
		}
		out, refeed := runNorm(g, pol, repr, r)
		ev := map[string]interface{}{"gv": g, "pol": pol, "repr": repr, "exact_order": true}
		switch {
		case refeed != "":
			ev["out"] = map[string]interface{}{"err": "not idempotent: " + refeed}
		case out.Err != "":
			ev["out"] = map[string]interface{}{"err": out.Err}
		default:
			ev["out"] = map[string]interface{}{"ok": map[string]interface{}{"m": obsJSON(out.M), "l": obsJSON(out.L)}}
		}
		if err := w.Encode(ev); err != nil {
			return 2
		}
	}
	return 0
}

func init() {
	register("norm", &family{replay: normReplay, drive: normDrive})
}
