package main

import (
	"bufio"
	"encoding/json"
	"fmt"
	"hash/fnv"
	"io"
	"math"
	"os"
	"reflect"
	"runtime"
	"runtime/debug"
	"sort"
	"strconv"
	"strings"
	"sync"
	"sync/atomic"
)

// ---------------------------------------------------------------------------
// Case stream: TLC prints one line per case, a JSON string literal holding JSON.
// Lines that are not such literals (TLC banner, progress) are passed to stderr
// of the summary as "tlc" lines so that the orchestrator can read TLC's own counts.
// ---------------------------------------------------------------------------

type lineFn func(raw []byte, rep *reporter)

// headerFn, when set, receives lines of the form {"hdr":...} synchronously before
// any later case is dispatched (TLC prints them while evaluating Init).
var headerFn func(raw []byte)

func runCases(fn lineFn, rep *reporter) {
	sc := bufio.NewReaderSize(os.Stdin, 1<<20)
	lines := make(chan []byte, 4096)
	var wg sync.WaitGroup
	nw := runtime.NumCPU()
	if s := os.Getenv("VERIF_WORKERS"); s != "" {
		if n, err := strconv.Atoi(s); err == nil && n > 0 {
			nw = n
		}
	}
	for w := 0; w < nw; w++ {
		wg.Add(1)
		go func() {
			defer wg.Done()
			for ln := range lines {
				var inner string
				if err := json.Unmarshal(ln, &inner); err != nil {
					rep.infra("bad case line: " + err.Error())
					continue
				}
				safeCase(fn, []byte(inner), rep)
			}
		}()
	}
	tlcLog := os.Stderr
	for {
		ln, err := sc.ReadBytes('\n')
		if len(ln) > 0 {
			t := strings.TrimRight(string(ln), "\r\n")
			if headerFn != nil && strings.HasPrefix(t, `"{\"hdr\":`) {
				var inner string
				if err := json.Unmarshal([]byte(t), &inner); err == nil {
					headerFn([]byte(inner))
				}
			} else if len(t) > 2 && t[0] == '"' && t[1] == '{' {
				lines <- []byte(t)
			} else if len(t) > 0 && t[0] == '{' {
				// plain ndjson case (replay files)
				b, _ := json.Marshal(t)
				lines <- b
			} else {
				fmt.Fprintln(tlcLog, t)
			}
		}
		if err != nil {
			if err != io.EOF {
				rep.infra("read: " + err.Error())
			}
			break
		}
	}
	close(lines)
	wg.Wait()
}

// safeCase runs one case; a panic that escapes the per-call guards while the LIBRARY is on the
// stack (e.g. while the state is being observed) is real-code behaviour and reported as a
// violation with the case attached; a panic of the harness itself is an infrastructure error.
func safeCase(fn lineFn, raw []byte, rep *reporter) {
	defer func() {
		if r := recover(); r != nil {
			stack := string(debug.Stack())
			if strings.Contains(stack, "/repo/") {
				rep.violate("panic-while-observing", raw, fmt.Sprint(r), "a value or an error", firstRepoFrames(stack))
			} else {
				rep.infra("harness panic: " + fmt.Sprint(r) + "\n" + stack)
			}
		}
	}()
	fn(raw, rep)
}

func firstRepoFrames(stack string) string {
	var out []string
	for _, l := range strings.Split(stack, "\n") {
		if strings.Contains(l, "/repo/") && len(out) < 4 {
			out = append(out, strings.TrimSpace(l))
		}
	}
	return strings.Join(out, " <- ")
}

// ---------------------------------------------------------------------------
// Reporter: classification Ideal / known deviation / violation
// ---------------------------------------------------------------------------

type violation struct {
	Class string          `json:"class"`
	Case  json.RawMessage `json:"case"`
	Got   interface{}     `json:"got"`
	Want  interface{}     `json:"want"`
	Note  string          `json:"note,omitempty"`
}

type reporter struct {
	family string
	mu     sync.Mutex

	cases      int64
	ideal      int64
	skipped    int64
	known      map[string]int64
	knownEx    map[string]json.RawMessage
	violations int64
	vclasses   map[string]int64
	vsamples   []violation
	infraErrs  []string
	samples    []json.RawMessage
	classes    map[string]int64 // free-form coverage classes

	distinct [64]map[uint64]struct{}
	dmu      [64]sync.Mutex
}

func newReporter(fam string) *reporter {
	r := &reporter{family: fam, known: map[string]int64{}, knownEx: map[string]json.RawMessage{},
		vclasses: map[string]int64{}, classes: map[string]int64{}}
	for i := range r.distinct {
		r.distinct[i] = map[uint64]struct{}{}
	}
	return r
}

func (r *reporter) infra(msg string) {
	r.mu.Lock()
	if len(r.infraErrs) < 20 {
		r.infraErrs = append(r.infraErrs, msg)
	}
	r.mu.Unlock()
}

func (r *reporter) class(name string) {
	r.mu.Lock()
	r.classes[name]++
	r.mu.Unlock()
}

// nontrivial records that the case identified by key is non-trivial; the
// number of distinct keys is reported as distinct_nontrivial.
func (r *reporter) nontrivial(key []byte) {
	h := fnv.New64a()
	h.Write(key)
	s := h.Sum64()
	i := s & 63
	r.dmu[i].Lock()
	r.distinct[i][s] = struct{}{}
	r.dmu[i].Unlock()
}

func (r *reporter) sample(raw []byte) {
	n := atomic.LoadInt64(&r.cases)
	// keep a handful spread over the stream
	if n < 3 || (n&(n-1)) == 0 {
		r.mu.Lock()
		if len(r.samples) < 6 {
			r.samples = append(r.samples, append(json.RawMessage{}, raw...))
		} else if n&(n-1) == 0 {
			r.samples[3+int(n>>1)%3] = append(json.RawMessage{}, raw...)
		}
		r.mu.Unlock()
	}
}

func (r *reporter) okIdeal() { atomic.AddInt64(&r.ideal, 1) }
func (r *reporter) skip()    { atomic.AddInt64(&r.skipped, 1) }
func (r *reporter) begin(raw []byte) {
	atomic.AddInt64(&r.cases, 1)
	r.sample(raw)
}

func (r *reporter) okKnown(devs []string, raw []byte) {
	r.mu.Lock()
	for _, d := range devs {
		r.known[d]++
		if _, ok := r.knownEx[d]; !ok {
			r.knownEx[d] = append(json.RawMessage{}, raw...)
		}
	}
	r.mu.Unlock()
}

func (r *reporter) violate(class string, raw []byte, got, want interface{}, note string) {
	atomic.AddInt64(&r.violations, 1)
	r.mu.Lock()
	r.vclasses[class]++
	if (r.vclasses[class] <= 2 && len(r.vsamples) < 12) || os.Getenv("VERIF_ALL_SAMPLES") != "" {
		r.vsamples = append(r.vsamples, violation{class, append(json.RawMessage{}, raw...), got, want, note})
	}
	r.mu.Unlock()
}

// expectation emitted by the Gen_ specifications
type altExp struct {
	Devs []string        `json:"devs"`
	Out  json.RawMessage `json:"out"`
}

// classify compares got with the Ideal expectation and the alternatives under
// known deviations using eq. It returns true when explained.
func (r *reporter) classify(raw []byte, ideal json.RawMessage, alts []altExp, eq func(exp json.RawMessage) bool, got func() interface{}, class string) bool {
	if eq(ideal) {
		r.okIdeal()
		return true
	}
	var blame map[string]bool
	matched := false
	for _, a := range alts {
		if eq(a.Out) {
			if !matched {
				blame = map[string]bool{}
				for _, d := range a.Devs {
					blame[d] = true
				}
				matched = true
			} else {
				nb := map[string]bool{}
				for _, d := range a.Devs {
					if blame[d] {
						nb[d] = true
					}
				}
				if len(nb) > 0 {
					blame = nb
				}
			}
		}
	}
	if matched {
		var ds []string
		for d := range blame {
			ds = append(ds, d)
		}
		sort.Strings(ds)
		r.okKnown(ds, raw)
		return true
	}
	var want interface{}
	json.Unmarshal(ideal, &want)
	r.violate(class, raw, got(), want, "")
	return false
}

func (r *reporter) finish() int {
	d := 0
	for i := range r.distinct {
		d += len(r.distinct[i])
	}
	out := map[string]interface{}{
		"family": r.family, "cases": r.cases, "ideal": r.ideal, "skipped": r.skipped,
		"known": r.known, "known_examples": r.knownEx,
		"violations": r.violations, "violation_classes": r.vclasses, "violation_samples": r.vsamples,
		"infra": r.infraErrs, "samples": r.samples, "distinct_nontrivial": d, "classes": r.classes,
	}
	b, _ := json.Marshal(out)
	fmt.Println("SUMMARY " + string(b))
	if len(r.infraErrs) > 0 {
		return 2
	}
	if r.violations > 0 {
		return 1
	}
	return 0
}

// ---------------------------------------------------------------------------
// Trees in the TLA+ encoding: {"k":"nil"} | {"k":"p","v":"text"} |
// {"k":"n","d":{key:tree}|[] ,"a":[tree]}
// ---------------------------------------------------------------------------

type tree struct {
	K  string
	Ty string // "s" string (default), "n" number, "b" bool
	V  string
	To string // alias: the referenced name
	D  map[string]*tree
	A  []*tree
}

func (t *tree) UnmarshalJSON(b []byte) error {
	var raw struct {
		K  string            `json:"k"`
		Ty string            `json:"ty"`
		V  string            `json:"v"`
		To string            `json:"to"`
		D  json.RawMessage   `json:"d"`
		A  []json.RawMessage `json:"a"`
	}
	if err := json.Unmarshal(b, &raw); err != nil {
		return err
	}
	t.K, t.V, t.Ty, t.To = raw.K, raw.V, raw.Ty, raw.To
	if t.K == "p" && t.Ty == "" {
		t.Ty = "s"
	}
	if len(raw.D) > 0 && raw.D[0] == '{' {
		if err := json.Unmarshal(raw.D, &t.D); err != nil {
			return err
		}
	}
	for _, e := range raw.A {
		c := &tree{}
		if err := json.Unmarshal(e, c); err != nil {
			return err
		}
		t.A = append(t.A, c)
	}
	return nil
}

func (t *tree) MarshalJSON() ([]byte, error) {
	switch t.K {
	case "nil":
		return []byte(`{"k":"nil"}`), nil
	case "alias":
		return []byte(`{"k":"alias","to":"` + t.To + `"}`), nil
	case "p":
		v, _ := json.Marshal(t.V)
		ty := t.Ty
		if ty == "" {
			ty = "s"
		}
		return []byte(`{"k":"p","ty":"` + ty + `","v":` + string(v) + `}`), nil
	}
	d := t.D
	if d == nil {
		d = map[string]*tree{}
	}
	a := t.A
	if a == nil {
		a = []*tree{}
	}
	db, err := json.Marshal(d)
	if err != nil {
		return nil, err
	}
	ab, err := json.Marshal(a)
	if err != nil {
		return nil, err
	}
	return []byte(`{"k":"n","d":` + string(db) + `,"a":` + string(ab) + `}`), nil
}

// prim is the Go value of a primitive leaf.
func (t *tree) prim() interface{} {
	switch t.Ty {
	case "b":
		return t.V == "true"
	case "n":
		if i, err := strconv.ParseInt(t.V, 10, 64); err == nil {
			return i
		}
		if u, err := strconv.ParseUint(t.V, 10, 64); err == nil {
			return u
		}
		f, _ := strconv.ParseFloat(t.V, 64)
		return f
	}
	return t.V
}

// toGo builds the generic Go value for a tree.
func (t *tree) toGo() interface{} {
	switch t.K {
	case "nil":
		return nil
	case "alias":
		return "${" + t.To + "}"
	case "p":
		return t.prim()
	}
	if len(t.A) > 0 && len(t.D) == 0 {
		l := make([]interface{}, len(t.A))
		for i, e := range t.A {
			l[i] = e.toGo()
		}
		return l
	}
	m := map[string]interface{}{}
	for k, e := range t.D {
		m[k] = e.toGo()
	}
	for i, e := range t.A { // mixed node: index keys (only meaningful with a path separator)
		m[strconv.Itoa(i)] = e.toGo()
	}
	return m
}

// ---------------------------------------------------------------------------
// Observations: what Unpack into generic targets returns, canonicalised.
// obs encoding (from the spec's Obs operator): {"t":"nil"} | {"t":"s","s":..} |
// {"t":"m","m":{..}} | {"t":"l","l":[..]}
// ---------------------------------------------------------------------------

type obs struct {
	T string          `json:"t"`
	S string          `json:"s"`
	M map[string]*obs `json:"-"`
	L []*obs          `json:"l"`
}

func (o *obs) UnmarshalJSON(b []byte) error {
	var raw struct {
		T string            `json:"t"`
		S string            `json:"s"`
		M json.RawMessage   `json:"m"`
		L []json.RawMessage `json:"l"`
	}
	if err := json.Unmarshal(b, &raw); err != nil {
		return err
	}
	o.T, o.S = raw.T, raw.S
	if len(raw.M) > 0 && raw.M[0] == '{' {
		if err := json.Unmarshal(raw.M, &o.M); err != nil {
			return err
		}
	}
	for _, e := range raw.L {
		c := &obs{}
		if err := json.Unmarshal(e, c); err != nil {
			return err
		}
		o.L = append(o.L, c)
	}
	return nil
}

func (o *obs) toGo() interface{} {
	if o == nil {
		return nil
	}
	switch o.T {
	case "nil":
		return nil
	case "s":
		return o.S
	case "m":
		m := map[string]interface{}{}
		for k, v := range o.M {
			m[k] = v.toGo()
		}
		return m
	case "l":
		l := make([]interface{}, len(o.L))
		for i, v := range o.L {
			l[i] = v.toGo()
		}
		return l
	}
	return "?" + o.T
}

// canonText is the canonical decimal text of a number, shared by the spec's
// string payloads and the Go observation.
func canonFloat(f float64) string {
	if math.IsNaN(f) {
		return "NaN"
	}
	if math.IsInf(f, 1) {
		return "+Inf"
	}
	if math.IsInf(f, -1) {
		return "-Inf"
	}
	if f == math.Trunc(f) && math.Abs(f) < 1e18 {
		return strconv.FormatFloat(f, 'f', 0, 64)
	}
	return strconv.FormatFloat(f, 'g', -1, 64)
}

// canonGo maps a generic unpack result to the canonical comparison form: nil and
// empty containers are equal, nil-valued map entries are dropped, numbers and
// booleans are their canonical text.
func canonGo(v interface{}) interface{} {
	switch x := v.(type) {
	case nil:
		return nil
	case map[string]interface{}:
		m := map[string]interface{}{}
		for k, e := range x {
			if c := canonGo(e); c != nil {
				m[k] = c
			}
		}
		if len(m) == 0 {
			return nil
		}
		return m
	case []interface{}:
		if len(x) == 0 {
			return nil
		}
		l := make([]interface{}, len(x))
		for i, e := range x {
			l[i] = canonGo(e)
		}
		return l
	case int64:
		return "n:" + strconv.FormatInt(x, 10)
	case uint64:
		return "n:" + strconv.FormatUint(x, 10)
	case int:
		return "n:" + strconv.Itoa(x)
	case float64:
		return "n:" + canonFloat(x)
	case bool:
		return "b:" + strconv.FormatBool(x)
	case string:
		return "s:" + x
	}
	rv := reflect.ValueOf(v)
	switch rv.Kind() {
	case reflect.Map:
		m := map[string]interface{}{}
		for _, k := range rv.MapKeys() {
			if c := canonGo(rv.MapIndex(k).Interface()); c != nil {
				m[fmt.Sprint(k.Interface())] = c
			}
		}
		if len(m) == 0 {
			return nil
		}
		return m
	case reflect.Slice, reflect.Array:
		if rv.Len() == 0 {
			return nil
		}
		l := make([]interface{}, rv.Len())
		for i := range l {
			l[i] = canonGo(rv.Index(i).Interface())
		}
		return l
	}
	return fmt.Sprintf("%v", v)
}

// canon is the comparison form of an expected observation (already typed text).
func (o *obs) canon() interface{} {
	if o == nil {
		return nil
	}
	switch o.T {
	case "s":
		return o.S
	case "m":
		m := map[string]interface{}{}
		for k, v := range o.M {
			if c := v.canon(); c != nil {
				m[k] = c
			}
		}
		if len(m) == 0 {
			return nil
		}
		return m
	case "l":
		if len(o.L) == 0 {
			return nil
		}
		l := make([]interface{}, len(o.L))
		for i, v := range o.L {
			l[i] = v.canon()
		}
		return l
	}
	return nil
}

// obsJSON renders a canonical Go observation in the spec's Obs encoding.
func obsJSON(v interface{}) interface{} {
	switch x := v.(type) {
	case nil:
		return map[string]interface{}{"t": "nil"}
	case string:
		return map[string]interface{}{"t": "s", "s": x}
	case map[string]interface{}:
		m := map[string]interface{}{}
		for k, e := range x {
			m[k] = obsJSON(e)
		}
		return map[string]interface{}{"t": "m", "m": m}
	case []interface{}:
		l := make([]interface{}, len(x))
		for i, e := range x {
			l[i] = obsJSON(e)
		}
		return map[string]interface{}{"t": "l", "l": l}
	}
	return map[string]interface{}{"t": "s", "s": fmt.Sprint(v)}
}

func jsonOf(v interface{}) string {
	b, err := json.Marshal(v)
	if err != nil {
		return fmt.Sprintf("%#v", v)
	}
	return string(b)
}

// guard runs f and turns a panic into an outcome string.
func guard(f func()) (panicked bool, msg string) {
	defer func() {
		if r := recover(); r != nil {
			panicked = true
			msg = fmt.Sprint(r)
		}
	}()
	f()
	return
}
