package main

import (
	"encoding/json"
	"errors"
	"flag"
	"fmt"
	"reflect"
	"strings"
	"time"

	ucfg "github.com/elastic/go-ucfg"
)

func init() {
	var i interface{}
	packPrims["iface"] = reflect.TypeOf(&i).Elem()
	packPrims["chan"] = reflect.TypeOf(make(chan int))
	packPrims["func"] = reflect.TypeOf(func() {})
	packPrims["complex"] = reflect.TypeOf(complex(0, 0))
}

type targetCase struct {
	Ty   tdesc           `json:"ty"`
	VTag string          `json:"vtag"`
	Tree json.RawMessage `json:"tree"`
}

// allocate gives every nil pointer / slice / map of v (one level) an allocated value, so that the
// merge-into-existing paths of Unpack are taken as well
func allocate(v reflect.Value) {
	switch v.Kind() {
	case reflect.Ptr:
		if v.IsNil() && v.Type().Elem().Kind() != reflect.Chan && v.Type().Elem().Kind() != reflect.Func {
			v.Set(reflect.New(v.Type().Elem()))
			allocate(v.Elem())
		}
	case reflect.Interface:
		// an interface-typed field that already holds a concrete value
		switch {
		case v.Type() == packPrims["ifst"]:
			v.Set(reflect.ValueOf(tHeld{A: 1}))
		case v.Type() == packPrims["ifpst"]:
			v.Set(reflect.ValueOf(&tHeld{A: 1}))
		case v.Type() == packPrims["ifarr"]:
			v.Set(reflect.ValueOf([2]int64{1, 2}))
		case v.Type() == packPrims["ifsl"]:
			v.Set(reflect.ValueOf([]int64{1, 2}))
		case v.Type() == packPrims["ifmap"]:
			v.Set(reflect.ValueOf(map[string]int64{"z": 1}))
		case v.NumMethod() == 0:
			v.Set(reflect.ValueOf("old"))
		case v.Type() == packPrims["iunp"]:
			v.Set(reflect.ValueOf(new(uAny)))
		case v.Type() == packPrims["istr"]:
			v.Set(reflect.ValueOf(time.Second))
		case v.Type() == packPrims["ierr"]:
			v.Set(reflect.ValueOf(errors.New("old")))
		}
	case reflect.Slice:
		// (elements allocated too: a slice of non-nil pointers)
		v.Set(reflect.MakeSlice(v.Type(), 1, 1))
		allocate(v.Index(0))
	case reflect.Array:
		for i := 0; i < v.Len(); i++ {
			allocate(v.Index(i))
		}
	case reflect.Map:
		m := reflect.MakeMap(v.Type())
		e := reflect.New(v.Type().Elem()).Elem()
		allocate(e)
		m.SetMapIndex(reflect.ValueOf("k").Convert(v.Type().Key()), e)
		v.Set(m)
	}
}

// named primitive types WITHOUT methods (kinds nstr, nbool, nint, nfloat of the target universe)
type ntStr string
type ntBool bool
type ntInt int32
type ntFloat float64

func init() {
	packPrims["nstr"] = reflect.TypeOf(ntStr(""))
	packPrims["nbool"] = reflect.TypeOf(ntBool(false))
	packPrims["nint"] = reflect.TypeOf(ntInt(0))
	packPrims["nfloat"] = reflect.TypeOf(ntFloat(0))
}

// interface{} fields that already HOLD a value of a given shape (kinds ifst, ifpst, ifarr, ifsl, ifmap): named empty
// interface types, so that allocate knows what to put there
type tHeld struct {
	A int `config:"x"`
}
type ifSt interface{}
type ifPSt interface{}
type ifArr interface{}
type ifSl interface{}
type ifMap interface{}

func init() {
	packPrims["ifst"] = reflect.TypeOf((*ifSt)(nil)).Elem()
	packPrims["ifpst"] = reflect.TypeOf((*ifPSt)(nil)).Elem()
	packPrims["ifarr"] = reflect.TypeOf((*ifArr)(nil)).Elem()
	packPrims["ifsl"] = reflect.TypeOf((*ifSl)(nil)).Elem()
	packPrims["ifmap"] = reflect.TypeOf((*ifMap)(nil)).Elem()
}

// types whose method set LOOKS like an unpacker but is not one (kinds of the target universe):
//
//	unores   Unpack(*Config) without a result      ubad2    Unpack with two parameters
//	uother   Unpack(int) error                      uvalrc   a valid Unpack on a VALUE receiver
//
// and fields of INTERFACE types with methods: iunp (ucfg.Unpacker), istr (fmt.Stringer), ierr (error)
type tNoRes struct{ A int }

func (t *tNoRes) Unpack(c *ucfg.Config) {}

type tBad2 struct{ A int }

func (t *tBad2) Unpack(c *ucfg.Config, x int) error { return nil }

type tOther struct{ A int }

func (t *tOther) Unpack(x int) error { return nil }

type tValRc struct{ A int }

func (t tValRc) Unpack(v interface{}) error { return nil }

type tNoResAny struct{ A int }

func (t *tNoResAny) Unpack(v interface{}) {}

func init() {
	packPrims["unores"] = reflect.TypeOf(tNoRes{})
	packPrims["unoresany"] = reflect.TypeOf(tNoResAny{})
	packPrims["ubad2"] = reflect.TypeOf(tBad2{})
	packPrims["uother"] = reflect.TypeOf(tOther{})
	packPrims["uvalrc"] = reflect.TypeOf(tValRc{})
	packPrims["iunp"] = reflect.TypeOf((*ucfg.Unpacker)(nil)).Elem()
	packPrims["istr"] = reflect.TypeOf((*fmt.Stringer)(nil)).Elem()
	packPrims["ierr"] = reflect.TypeOf((*error)(nil)).Elem()
}

type targetRes struct {
	Pre  string `json:"pre"`
	Kind string `json:"kind"` // ok | err | untyped | panic | infra
	Msg  string `json:"msg,omitempty"`
	Type string `json:"type,omitempty"`
}

// targetsChild runs one case (three target variants) inside a child process: a target that makes Unpack
// spin or recurse forever kills only that child, and the case is reported as a hang
func targetsChild(req []byte) interface{} {
	var c targetCase
	if err := json.Unmarshal(req, &c); err != nil {
		return []targetRes{{Kind: "infra", Msg: err.Error()}}
	}
	ft := buildType(c.Ty.F[0].T)
	tag := `config:"f0"`
	if c.VTag != "" {
		tag += fmt.Sprintf(` validate:"%s"`, c.VTag)
	}
	st := reflect.StructOf([]reflect.StructField{{Name: "F0", Type: ft, Tag: reflect.StructTag(tag)}})
	cfg, err := ucfg.NewFrom(faultTreeGo(c.Tree))
	if err != nil {
		return []targetRes{{Kind: "infra", Msg: "config: " + err.Error()}}
	}
	var out []targetRes
	for _, pre := range []string{"zero", "allocated", "bare-field-type"} {
		r := targetRes{Pre: pre, Type: fmt.Sprint(st)}
		var uerr error
		panicked, msg := guard(func() {
			switch pre {
			case "bare-field-type":
				// the field type itself as the top-level target (mostly unsupported: an error, not a panic)
				t := reflect.New(ft)
				uerr = cfg.Unpack(t.Interface())
			default:
				t := reflect.New(st)
				if pre == "allocated" {
					allocate(t.Elem().Field(0))
				}
				uerr = cfg.Unpack(t.Interface())
			}
		})
		switch {
		case panicked:
			r.Kind, r.Msg = "panic", msg
		case uerr == nil:
			r.Kind = "ok"
		default:
			r.Kind, r.Msg = "err", uerr.Error()
			if _, ok := uerr.(ucfg.Error); !ok {
				r.Kind = "untyped"
			}
		}
		out = append(out, r)
	}
	return out
}

func targetsReplay(args []string) int {
	fs := flag.NewFlagSet("targets", flag.ExitOnError)
	fs.Int64("seed", 1, "seed")
	fs.Parse(args)
	rep := newReporter("targets")
	pool := newIsoPool("targets", 8, 3*time.Second)
	defer pool.close()
	runCases(func(raw []byte, rep *reporter) {
		rep.begin(raw)
		rep.nontrivial(raw)
		resp, status := pool.do(raw)
		if status != "ok" {
			if strings.HasPrefix(status, "infra") {
				rep.infra(status)
				return
			}
			// the child died (stack overflow, out of memory) or did not answer within the deadline
			rep.violate("target-"+status, raw, status, "Unpack returns a value or an error", "Unpack did not return (child process "+status+")")
			return
		}
		var rs []targetRes
		if err := json.Unmarshal(resp, &rs); err != nil {
			rep.infra("child answer: " + err.Error())
			return
		}
		for _, r := range rs {
			switch r.Kind {
			case "infra":
				rep.infra(r.Msg)
			case "panic":
				short := r.Msg
				if i := strings.Index(short, "\n"); i >= 0 {
					short = short[:i]
				}
				if len(short) > 70 {
					short = short[:70]
				}
				rep.violate("target-panic/"+short, raw, r.Msg, "a value or an error", fmt.Sprintf("Unpack into %s (%s)", r.Type, r.Pre))
			case "untyped":
				rep.violate("target-untyped-error/"+r.Pre, raw, r.Msg, "a ucfg.Error", fmt.Sprintf("Unpack into %s (%s)", r.Type, r.Pre))
			default:
				rep.class("outcome:" + r.Kind)
				rep.okIdeal()
			}
		}
	}, rep)
	return rep.finish()
}

func init() {
	register("targets", &family{replay: targetsReplay})
	registerChild("targets", targetsChild)
}
