package main

import (
	"encoding/json"
	"flag"
	"fmt"
	"reflect"
	"strings"

	ucfg "github.com/elastic/go-ucfg"
)

func init() {
	var i interface{}
	packPrims["iface"] = reflect.TypeOf(&i).Elem()
	packPrims["chan"] = reflect.TypeOf(make(chan int))
	packPrims["func"] = reflect.TypeOf(func() {})
	packPrims["complex"] = reflect.TypeOf(complex(0, 0))
}

type targetCase struct {
	Ty   tdesc           `json:"ty"`
	VTag string          `json:"vtag"`
	Tree json.RawMessage `json:"tree"`
}

// allocate gives every nil pointer / slice / map of v (one level) an allocated value, so that the
// merge-into-existing paths of Unpack are taken as well
func allocate(v reflect.Value) {
	switch v.Kind() {
	case reflect.Ptr:
		if v.IsNil() && v.Type().Elem().Kind() != reflect.Chan && v.Type().Elem().Kind() != reflect.Func {
			v.Set(reflect.New(v.Type().Elem()))
			allocate(v.Elem())
		}
	case reflect.Interface:
		if v.NumMethod() == 0 {
			v.Set(reflect.ValueOf("old"))
		}
	case reflect.Slice:
		v.Set(reflect.MakeSlice(v.Type(), 1, 1))
	case reflect.Map:
		m := reflect.MakeMap(v.Type())
		m.SetMapIndex(reflect.ValueOf("k"), reflect.Zero(v.Type().Elem()))
		v.Set(m)
	}
}

func targetsReplay(args []string) int {
	fs := flag.NewFlagSet("targets", flag.ExitOnError)
	fs.Int64("seed", 1, "seed")
	fs.Parse(args)
	rep := newReporter("targets")
	runCases(func(raw []byte, rep *reporter) {
		var c targetCase
		if err := json.Unmarshal(raw, &c); err != nil {
			rep.infra("case: " + err.Error())
			return
		}
		rep.begin(raw)
		rep.nontrivial(raw)
		ft := buildType(c.Ty.F[0].T)
		tag := `config:"f0"`
		if c.VTag != "" {
			tag += fmt.Sprintf(` validate:"%s"`, c.VTag)
		}
		st := reflect.StructOf([]reflect.StructField{{Name: "F0", Type: ft, Tag: reflect.StructTag(tag)}})
		cfg, err := ucfg.NewFrom(faultTreeGo(c.Tree))
		if err != nil {
			rep.infra("config: " + err.Error())
			return
		}
		for _, pre := range []string{"zero", "allocated", "bare-field-type"} {
			var uerr error
			panicked, msg := guard(func() {
				switch pre {
				case "bare-field-type":
					// the field type itself as the top-level target (mostly unsupported: an error, not a panic)
					t := reflect.New(ft)
					uerr = cfg.Unpack(t.Interface())
				default:
					t := reflect.New(st)
					if pre == "allocated" {
						allocate(t.Elem().Field(0))
					}
					uerr = cfg.Unpack(t.Interface())
				}
			})
			if panicked {
				short := msg
				if i := strings.Index(short, "\n"); i >= 0 {
					short = short[:i]
				}
				if len(short) > 70 {
					short = short[:70]
				}
				rep.violate("target-panic/"+short, raw, msg, "a value or an error", fmt.Sprintf("Unpack into %v (%s)", st, pre))
				continue
			}
			if uerr != nil {
				rep.class("outcome:error")
				if _, ok := uerr.(ucfg.Error); !ok {
					rep.violate("target-untyped-error/"+pre, raw, uerr.Error(), "a ucfg.Error", fmt.Sprintf("Unpack into %v (%s)", st, pre))
					continue
				}
			} else {
				rep.class("outcome:ok")
			}
			rep.okIdeal()
		}
	}, rep)
	return rep.finish()
}

func init() {
	register("targets", &family{replay: targetsReplay})
}
