package main

import (
	"encoding/json"
	"flag"
	"fmt"
	"math/rand"
	"os"
	"reflect"
	"sort"
	"strconv"
	"strings"

	ucfg "github.com/elastic/go-ucfg"
	"github.com/elastic/go-ucfg/diff"
)

// ---- operations of the store state machine ----------------------------------

type seg struct {
	S string `json:"s"`
	I int    `json:"i"`
}

type frag struct {
	Key string           `json:"key,omitempty"`
	Sub string           `json:"sub,omitempty"`
	F   string           `json:"f"`
	Ty  string           `json:"ty,omitempty"`
	V   string           `json:"v,omitempty"`
	M   map[string]*frag `json:"m,omitempty"`
	L   []*frag          `json:"l,omitempty"`
	H   int              `json:"h,omitempty"`
	K1  string           `json:"k1,omitempty"`
	K2  string           `json:"k2,omitempty"`
	Val *frag            `json:"val,omitempty"`
}

func (f *frag) UnmarshalJSON(b []byte) error {
	var raw struct {
		F   string            `json:"f"`
		Ty  string            `json:"ty"`
		V   string            `json:"v"`
		M   json.RawMessage   `json:"m"`
		L   []json.RawMessage `json:"l"`
		H   int               `json:"h"`
		Key string            `json:"key"`
		Sub string            `json:"sub"`
		K1  string            `json:"k1"`
		K2  string            `json:"k2"`
		Val json.RawMessage   `json:"val"`
	}
	if err := json.Unmarshal(b, &raw); err != nil {
		return err
	}
	f.F, f.Ty, f.V, f.H, f.Key, f.Sub = raw.F, raw.Ty, raw.V, raw.H, raw.Key, raw.Sub
	f.K1, f.K2 = raw.K1, raw.K2
	if len(raw.Val) > 0 && raw.Val[0] == '{' {
		f.Val = &frag{}
		if err := json.Unmarshal(raw.Val, f.Val); err != nil {
			return err
		}
	}
	if len(raw.M) > 0 && raw.M[0] == '{' {
		if err := json.Unmarshal(raw.M, &f.M); err != nil {
			return err
		}
	}
	for _, e := range raw.L {
		c := &frag{}
		if err := json.Unmarshal(e, c); err != nil {
			return err
		}
		f.L = append(f.L, c)
	}
	return nil
}

type storeOp struct {
	Op   string `json:"op"`
	H    int    `json:"h"`
	Name []seg  `json:"name"`
	Sep  bool   `json:"sep"`
	Idx  int    `json:"idx"`
	Ty   string `json:"ty,omitempty"`
	V    string `json:"v,omitempty"`
	J    int    `json:"j,omitempty"`
	Fr   *frag  `json:"fr,omitempty"`
	Pol  string `json:"pol,omitempty"`
}

type addr struct {
	Name []seg `json:"name"`
	Sep  bool  `json:"sep"`
	Idx  int   `json:"idx"`
}

func nameString(name []seg) string {
	p := make([]string, len(name))
	for i, s := range name {
		p[i] = s.S
	}
	return strings.Join(p, ".")
}

func sepOpts(sep bool) []ucfg.Option {
	if sep {
		return []ucfg.Option{ucfg.PathSep(".")}
	}
	return nil
}

func (f *frag) build(hs []*ucfg.Config) interface{} {
	switch f.F {
	case "p":
		return (&tree{K: "p", Ty: f.Ty, V: f.V}).prim()
	case "nil":
		return nil
	case "cfg":
		return hs[f.H-1]
	case "cs":
		// ordered struct: the embedded config first, then a dotted sibling that lands inside it
		st := reflect.New(reflect.StructOf([]reflect.StructField{
			{Name: "F0", Type: reflect.TypeOf((*ucfg.Config)(nil)), Tag: reflect.StructTag(`config:"` + f.Key + `"`)},
			{Name: "F1", Type: reflect.TypeOf(""), Tag: reflect.StructTag(`config:"` + f.Key + "." + f.Sub + `"`)},
		})).Elem()
		st.Field(0).Set(reflect.ValueOf(hs[f.H-1]))
		st.Field(1).SetString(f.V)
		return st.Interface()
	case "dk":
		return map[string]interface{}{f.K1 + "." + f.K2: f.Val.build(hs)}
	case "m":
		m := map[string]interface{}{}
		for k, v := range f.M {
			m[k] = v.build(hs)
		}
		return m
	case "l":
		l := make([]interface{}, len(f.L))
		for i, v := range f.L {
			l[i] = v.build(hs)
		}
		return l
	}
	panic("frag " + f.F)
}

func storeErr(err error) string {
	e, ok := err.(ucfg.Error)
	if !ok {
		return "err:bare"
	}
	switch e.Reason() {
	case ucfg.ErrMissing:
		return "err:missing"
	case ucfg.ErrExpectedObject:
		return "err:object"
	case ucfg.ErrIndexOutOfRange:
		return "err:index"
	case ucfg.ErrTypeMismatch:
		return "err:type"
	case ucfg.ErrDuplicateKey:
		return "err:duplicate"
	}
	if e.Reason() == nil {
		return "err:noreason"
	}
	return "err:" + e.Reason().Error()
}

// applyStore executes one operation on the real code.
func applyStore(hs *[]*ucfg.Config, op storeOp) (res string) {
	panicked, _ := guard(func() {
		h := (*hs)[op.H-1]
		name := nameString(op.Name)
		switch op.Op {
		case "set":
			var err error
			switch op.Ty {
			case "n":
				if i, e := strconv.ParseInt(op.V, 10, 64); e == nil {
					err = h.SetInt(name, op.Idx, i, sepOpts(op.Sep)...)
				} else {
					f, _ := strconv.ParseFloat(op.V, 64)
					err = h.SetFloat(name, op.Idx, f, sepOpts(op.Sep)...)
				}
			case "b":
				err = h.SetBool(name, op.Idx, op.V == "true", sepOpts(op.Sep)...)
			default:
				err = h.SetString(name, op.Idx, op.V, sepOpts(op.Sep)...)
			}
			if err != nil {
				res = storeErr(err)
				return
			}
			res = "ok"
		case "setchild":
			if err := h.SetChild(name, op.Idx, (*hs)[op.J-1], sepOpts(op.Sep)...); err != nil {
				res = storeErr(err)
				return
			}
			res = "ok"
		case "remove":
			ok, err := h.Remove(name, op.Idx, sepOpts(op.Sep)...)
			if err != nil {
				res = storeErr(err)
				return
			}
			res = strconv.FormatBool(ok)
		case "child":
			c, err := h.Child(name, op.Idx, sepOpts(op.Sep)...)
			if err != nil {
				*hs = append(*hs, h)
				res = storeErr(err)
				return
			}
			*hs = append(*hs, c)
			res = "ok"
		case "parent":
			p := h.Parent()
			if p == nil {
				*hs = append(*hs, h)
				res = "nil"
				return
			}
			*hs = append(*hs, p)
			res = "ok"
		case "merge":
			opts := append([]ucfg.Option{ucfg.PathSep(".")}, polOption(op.Pol)...)
			if err := h.Merge(op.Fr.build(*hs), opts...); err != nil {
				res = storeErr(err)
				return
			}
			res = "ok"
		default:
			res = "?" + op.Op
		}
	})
	if panicked {
		return "panic"
	}
	return res
}

// ---- projection through the public API ------------------------------------------

func walkPtrs(c *ucfg.Config, path []string, depth int, out map[*ucfg.Config][]string) {
	out[c] = append(out[c], strings.Join(path, "\x00"))
	if depth == 0 {
		return
	}
	fields := c.GetFields()
	for _, k := range fields {
		c1, e1 := c.Child(k, -1)
		c2, e2 := c.Child(k, -1)
		if e1 == nil && e2 == nil && c1 == c2 {
			walkPtrs(c1, append(append([]string{}, path...), k), depth-1, out)
		}
	}
	n, _ := c.CountField("")
	for i := 0; i < n-len(fields); i++ {
		c1, e1 := c.Child("", i)
		c2, e2 := c.Child("", i)
		if e1 == nil && e2 == nil && c1 == c2 {
			walkPtrs(c1, append(append([]string{}, path...), strconv.Itoa(i)), depth-1, out)
		}
	}
}

// badUp lists (by dotted access path) the sub-configs stored below c whose Parent() is not the config holding them.
func badUp(c *ucfg.Config, pre string, depth int, out *[]string) {
	if depth == 0 {
		return
	}
	visit := func(name string, idx int, label string) {
		c1, e1 := c.Child(name, idx)
		c2, e2 := c.Child(name, idx)
		if e1 != nil || e2 != nil || c1 != c2 { // not a stored sub-config
			return
		}
		p := label
		if pre != "" {
			p = pre + "." + label
		}
		if c1.Parent() != c {
			*out = append(*out, p)
		}
		badUp(c1, p, depth-1, out)
	}
	fields := c.GetFields()
	for _, k := range fields {
		visit(k, -1, k)
	}
	n, _ := c.CountField("")
	for i := 0; i < n-len(fields); i++ {
		visit("", i, strconv.Itoa(i))
	}
}

type handleProj struct {
	Obs    map[string]interface{} `json:"obs"`
	Path   string                 `json:"path"`
	IsRoot bool                   `json:"isroot"`
	IsDict bool                   `json:"isdict"`
	IsArr  bool                   `json:"isarr"`
	Flat   []string               `json:"flat"`
	At     [][][]string           `json:"at"`
	Sweep  map[string]string      `json:"sweep"`
	Count  map[string]int         `json:"count"`
	Up     []string               `json:"up"` // sub-configs whose Parent() is not the config that holds them
}

type stateProj struct {
	H   []handleProj        `json:"h"`
	Cmp map[string][]string `json:"cmp"`
}

func dedupSorted(in []string) []string {
	out := append(make([]string, 0, len(in)), in...)
	sort.Strings(out)
	j := 0
	for i, s := range out {
		if i == 0 || s != out[j-1] {
			out[j] = s
			j++
		}
	}
	return out[:j]
}

func sweepCode(c *ucfg.Config, a addr) string {
	var code string
	panicked, _ := guard(func() {
		name := nameString(a.Name)
		s, err := c.String(name, a.Idx, sepOpts(a.Sep)...)
		if err != nil {
			code = "e:" + strings.TrimPrefix(storeErr(err), "err:")
		} else {
			code = "v:" + s
		}
		ok, err := c.Has(name, a.Idx, sepOpts(a.Sep)...)
		switch {
		case err != nil:
			code += "|e:" + strings.TrimPrefix(storeErr(err), "err:")
		case ok:
			code += "|T"
		default:
			code += "|F"
		}
	})
	if panicked {
		return "e:panic|e:panic"
	}
	return code
}

func projectStore(hs []*ucfg.Config, addrs map[string]addr, comps map[string]bool) stateProj {
	sp := stateProj{}
	sep := ucfg.PathSep(".")
	for _, c := range hs {
		hp := handleProj{Obs: map[string]interface{}{}, Flat: []string{}, At: [][][]string{}, Sweep: map[string]string{}, Count: map[string]int{}, Up: []string{}}
		if comps["obs"] {
			m, l, err := observeTop(c, sep)
			if err != nil {
				hp.Obs = map[string]interface{}{"err": err.Error()}
			} else {
				hp.Obs = map[string]interface{}{"m": obsJSON(m), "l": obsJSON(l)}
			}
		}
		if comps["path"] {
			hp.Path = c.Path(".")
			hp.IsRoot = c.Parent() == nil
			// PathOf(name) is the path a setting of that name has (or would have) in this sub-config: Path() + name
			for _, k := range append(c.GetFields(), "zq") {
				want := k
				if hp.Path != "" {
					want = hp.Path + "." + k
				}
				if got := c.PathOf(k, "."); got != want {
					hp.Path += " !PathOf(" + k + ")=" + got
				}
			}
		}
		if comps["kind"] {
			hp.IsDict, hp.IsArr = c.IsDict(), c.IsArray()
		}
		if comps["flat"] {
			guard(func() { hp.Flat = dedupSorted(c.FlattenedKeys(sep)) })
			if hp.Flat == nil {
				hp.Flat = []string{}
			}
		}
		if comps["at"] {
			ptrs := map[*ucfg.Config][]string{}
			walkPtrs(c, nil, 4, ptrs)
			for _, o := range hs {
				ps := [][]string{}
				got := append([]string{}, ptrs[o]...)
				sort.Strings(got)
				for _, p := range got {
					if p == "" {
						ps = append(ps, []string{})
					} else {
						ps = append(ps, strings.Split(p, "\x00"))
					}
				}
				hp.At = append(hp.At, ps)
			}
		}
		if comps["up"] {
			badUp(c, "", 4, &hp.Up)
			sort.Strings(hp.Up)
		}
		if comps["sweep"] {
			hp.Sweep = map[string]string{}
			for lab, a := range addrs {
				if code := sweepCode(c, a); code != "e:missing|F" {
					hp.Sweep[lab] = code
				}
			}
		}
		if comps["count"] {
			hp.Count = map[string]int{}
			n, err := c.CountField("")
			if err != nil {
				n = -1
			}
			hp.Count[""] = n
			for _, k := range c.GetFields() {
				n, err := c.CountField(k)
				if err != nil {
					n = -1
				}
				hp.Count[k] = n
				// HasField agrees with GetFields
				if !c.HasField(k) {
					hp.Count["!HasField("+k+")"] = -2
				}
			}
			if c.HasField("zq") {
				hp.Count["!HasField(zq)"] = -3
			}
		}
		sp.H = append(sp.H, hp)
	}
	sp.Cmp = map[string][]string{"removed": {}, "added": {}, "kept": {}}
	if comps["cmp"] && len(hs) >= 2 {
		guard(func() {
			d := diff.CompareConfigs(hs[0], hs[1], sep)
			sp.Cmp = map[string][]string{
				"removed": dedupSorted(d[diff.Remove]), "added": dedupSorted(d[diff.Add]), "kept": dedupSorted(d[diff.Keep])}
		})
	}
	return sp
}

// expected projection as emitted by the spec
type expHandle struct {
	Obs    topObs          `json:"obs"`
	Path   string          `json:"path"`
	IsRoot bool            `json:"isroot"`
	IsDict bool            `json:"isdict"`
	IsArr  bool            `json:"isarr"`
	Flat   []string        `json:"flat"`
	At     [][][]string    `json:"at"`
	Sweep  json.RawMessage `json:"sweep"`
	Count  json.RawMessage `json:"count"`
	Up     []string        `json:"up"`
}

type expState struct {
	H   []expHandle `json:"h"`
	Cmp struct {
		Removed []string `json:"removed"`
		Added   []string `json:"added"`
		Kept    []string `json:"kept"`
	} `json:"cmp"`
}

type expOutcome struct {
	Res  string   `json:"res"`
	Post expState `json:"post"`
}

func rawStrMap(raw json.RawMessage) map[string]string {
	m := map[string]string{}
	if len(raw) > 0 && raw[0] == '{' {
		json.Unmarshal(raw, &m)
	}
	return m
}

func rawIntMap(raw json.RawMessage) map[string]int {
	m := map[string]int{}
	if len(raw) > 0 && raw[0] == '{' {
		json.Unmarshal(raw, &m)
	}
	return m
}

func sameSet(a, b []string) bool {
	a, b = dedupSorted(a), dedupSorted(b)
	if len(a) != len(b) {
		return false
	}
	for i := range a {
		if a[i] != b[i] {
			return false
		}
	}
	return true
}

func pathSetKey(ps [][]string) []string {
	var out []string
	for _, p := range ps {
		out = append(out, strings.Join(p, "\x00"))
	}
	sort.Strings(out)
	return out
}

// diffStore returns "" when got matches exp on the selected components, else the
// first differing component.
func diffStore(res string, got stateProj, exp *expOutcome, comps map[string]bool) string {
	if res != exp.Res {
		return "result"
	}
	if len(got.H) != len(exp.Post.H) {
		return "handles"
	}
	for i, g := range got.H {
		e := exp.Post.H[i]
		if comps["obs"] {
			if _, bad := g.Obs["err"]; bad {
				return "obs"
			}
			gm, _ := json.Marshal(g.Obs)
			var gt topObs
			json.Unmarshal(gm, &gt)
			if !reflect.DeepEqual(gt.M.canon(), e.Obs.M.canon()) || !reflect.DeepEqual(gt.L.canon(), e.Obs.L.canon()) {
				return "obs"
			}
		}
		if comps["path"] && (g.Path != e.Path || g.IsRoot != e.IsRoot) {
			return "path"
		}
		if comps["kind"] && (g.IsDict != e.IsDict || g.IsArr != e.IsArr) {
			return "kind"
		}
		if comps["flat"] && !sameSet(g.Flat, e.Flat) {
			return "flat"
		}
		if comps["up"] && !sameSet(g.Up, e.Up) {
			return "up"
		}
		if comps["at"] {
			if len(g.At) != len(e.At) {
				return "at"
			}
			for j := range g.At {
				if !reflect.DeepEqual(pathSetKey(g.At[j]), pathSetKey(e.At[j])) && !(len(g.At[j]) == 0 && len(e.At[j]) == 0) {
					return "at"
				}
			}
		}
		if comps["sweep"] && !reflect.DeepEqual(g.Sweep, rawStrMap(e.Sweep)) {
			return "sweep"
		}
		if comps["count"] && !reflect.DeepEqual(g.Count, rawIntMap(e.Count)) {
			return "count"
		}
	}
	if comps["cmp"] && len(got.H) >= 2 {
		if !sameSet(got.Cmp["removed"], exp.Post.Cmp.Removed) || !sameSet(got.Cmp["added"], exp.Post.Cmp.Added) || !sameSet(got.Cmp["kept"], exp.Post.Cmp.Kept) {
			return "cmp"
		}
	}
	return ""
}

type storeCase struct {
	Hist  []storeOp       `json:"hist"`
	Op    storeOp         `json:"op"`
	Addrs map[string]addr `json:"addrs"`
	Exp   struct {
		Ideal json.RawMessage `json:"ideal"`
		Alts  []altExp        `json:"alts"`
	} `json:"exp"`
}

func parseComps(s string) map[string]bool {
	m := map[string]bool{}
	for _, c := range strings.Split(s, ",") {
		if c != "" {
			m[c] = true
		}
	}
	return m
}

func storeInit() []*ucfg.Config {
	return []*ucfg.Config{ucfg.New(), ucfg.MustNewFrom(map[string]interface{}{"x": "1"})}
}

// addrsFromLabels rebuilds the address universe from sweep labels ("!a.b#-1").
func addrFromLabel(lab string) addr {
	a := addr{Sep: true}
	if strings.HasPrefix(lab, "!") {
		a.Sep = false
		lab = lab[1:]
	}
	i := strings.LastIndex(lab, "#")
	a.Idx, _ = strconv.Atoi(lab[i+1:])
	name := lab[:i]
	if !a.Sep {
		a.Name = []seg{{S: name, I: -1}}
	} else if name != "" {
		for _, s := range strings.Split(name, ".") {
			a.Name = append(a.Name, seg{S: s, I: -1})
		}
	}
	return a
}

func storeReplay(args []string) int {
	fs := flag.NewFlagSet("store", flag.ExitOnError)
	compsFlag := fs.String("components", "obs,sweep,count,kind,at", "projection components to compare")
	addrLabels := fs.String("addrs", "", "comma separated sweep address labels")
	fs.Int64("seed", 1, "seed")
	fs.Parse(args)
	comps := parseComps(*compsFlag)
	addrs := map[string]addr{}
	for _, l := range strings.Split(*addrLabels, ",") {
		if l != "" {
			addrs[l] = addrFromLabel(l)
		}
	}
	headerFn = func(raw []byte) {
		var h struct {
			Hdr struct {
				Addrs []string `json:"addrs"`
			} `json:"hdr"`
		}
		if json.Unmarshal(raw, &h) == nil {
			for _, l := range h.Hdr.Addrs {
				addrs[l] = addrFromLabel(l)
			}
		}
	}
	rep := newReporter("store")
	runCases(func(raw []byte, rep *reporter) {
		var c storeCase
		if err := json.Unmarshal(raw, &c); err != nil {
			rep.infra("case: " + err.Error())
			return
		}
		rep.begin(raw)
		ad := addrs
		if len(c.Addrs) > 0 {
			ad = c.Addrs
		}
		hs := storeInit()
		for _, op := range c.Hist {
			applyStore(&hs, op)
		}
		res := applyStore(&hs, c.Op)
		got := projectStore(hs, ad, comps)
		if res != "false" && !(c.Op.Op == "child" && res != "ok") {
			key, _ := json.Marshal([]interface{}{c.Hist, c.Op})
			rep.nontrivial(key)
		}
		rep.class("op:" + c.Op.Op)
		var firstDiff []string
		eq := func(exp json.RawMessage) bool {
			var e expOutcome
			if err := json.Unmarshal(exp, &e); err != nil {
				return false
			}
			d := diffStore(res, got, &e, comps)
			firstDiff = append(firstDiff, d)
			return d == ""
		}
		rep.classify(raw, c.Exp.Ideal, c.Exp.Alts, eq, func() interface{} {
			return map[string]interface{}{"res": res, "post": got, "differs_from_ideal_and_alts_in": firstDiff}
		}, "store/"+c.Op.Op)
	}, rep)
	return rep.finish()
}

// ---- driver -----------------------------------------------------------------------

var storeDriveNames = [][]seg{
	{{"a", -1}}, {{"b", -1}}, {{"c", -1}}, {{"a", -1}, {"b", -1}}, {{"a", -1}, {"c", -1}}, {{"a", -1}, {"0", 0}},
	{{"b", -1}, {"1", 1}}, {{"a", -1}, {"b", -1}, {"c", -1}}, {{"l", -1}}, {{"l", -1}, {"0", 0}}, {{"l", -1}, {"1", 1}, {"x", -1}},
	{{"2", 2}}, {{"0", 0}}, {},
}

func randFrag(rng *rand.Rand, depth int, nh int, embed bool) *frag {
	if depth >= 2 && rng.Intn(10) == 0 {
		// a single dotted key (never next to other keys: overlapping spellings in one input are KF-13's business)
		return &frag{F: "dk", K1: []string{"a", "p"}[rng.Intn(2)], K2: []string{"x", "t"}[rng.Intn(2)], Val: randFrag(rng, depth-1, nh, embed)}
	}
	switch k := rng.Intn(10); {
	case depth == 0 || k < 3:
		if rng.Intn(5) == 0 {
			return &frag{F: "nil"}
		}
		return &frag{F: "p", Ty: "s", V: []string{"1", "2", "x"}[rng.Intn(3)]}
	case k < 7:
		f := &frag{F: "m", M: map[string]*frag{}}
		for n := rng.Intn(3) + 1; n > 0; n-- {
			f.M[[]string{"a", "b", "c", "l", "x"}[rng.Intn(5)]] = randFrag(rng, depth-1, nh, embed)
		}
		return f
	case k < 9 || !embed || nh < 2:
		f := &frag{F: "l"}
		for n := rng.Intn(3) + 1; n > 0; n-- {
			f.L = append(f.L, randFrag(rng, depth-1, nh, embed))
		}
		return f
	default:
		return &frag{F: "cfg", H: 2 + rng.Intn(nh-1)}
	}
}

func fragEmbeds(f *frag, out map[int]bool) {
	if f == nil {
		return
	}
	if f.F == "cfg" || f.F == "cs" {
		out[f.H] = true
	}
	for _, c := range f.M {
		fragEmbeds(c, out)
	}
	for _, c := range f.L {
		fragEmbeds(c, out)
	}
	fragEmbeds(f.Val, out)
}

func reach(c *ucfg.Config, depth int, out map[*ucfg.Config]bool) {
	ptrs := map[*ucfg.Config][]string{}
	walkPtrs(c, nil, depth, ptrs)
	for p := range ptrs {
		out[p] = true
	}
}

// disjoint reports whether storing b below a (or embedding b in a merge into a)
// keeps the structure acyclic: the two share no node, and no recorded ancestor of a
// (its Parent() chain, which a removed child keeps - known finding KF-15) lies in b.
func disjoint(a, b *ucfg.Config) bool {
	ra, rb := map[*ucfg.Config]bool{}, map[*ucfg.Config]bool{}
	reach(a, 8, ra)
	reach(b, 8, rb)
	for p := range ra {
		if rb[p] {
			return false
		}
	}
	// the recorded ancestors of EVERY node below a (a config returned by Child() on a nil entry, or a
	// removed child, claims a parent that does not contain it): none of them may lie in b
	for n := range ra {
		p := n
		for i := 0; i < 64 && p != nil; i++ {
			if rb[p] {
				return false
			}
			p = p.Parent()
		}
		if p != nil {
			return false
		}
	}
	return true
}

func storeDrive(args []string) int {
	fs := flag.NewFlagSet("store", flag.ExitOnError)
	seed := fs.Int64("seed", 1, "seed")
	n := fs.Int("n", 100, "sessions")
	steps := fs.Int("steps", 30, "operations per session")
	compsFlag := fs.String("components", "obs,sweep,count,kind,at", "projection components to record")
	merges := fs.Bool("merges", true, "include merge / setchild / parent operations")
	fs.Parse(args)
	comps := parseComps(*compsFlag)
	rng := rand.New(rand.NewSource(*seed))
	w := json.NewEncoder(os.Stdout)
	addrs := map[string]addr{}
	for _, nm := range storeDriveNames {
		for _, idx := range []int{-1, 0, 1} {
			if len(nm) == 0 && idx < 0 {
				continue
			}
			// index reads only below names that can hold a list; keeps the sweep to ~24 addresses
			if idx >= 0 && len(nm) > 0 && nm[len(nm)-1].S != "l" && nm[len(nm)-1].S != "a" {
				continue
			}
			addrs[nameString(nm)+"#"+strconv.Itoa(idx)] = addr{Name: nm, Sep: true, Idx: idx}
		}
	}
	pols := []string{"default", "replace", "arrreplace", "append", "prepend"}
	for s := 0; s < *n; s++ {
		hs := storeInit()
		w.Encode(map[string]interface{}{"sess": s, "op": map[string]interface{}{"op": "reset"}, "addrs": addrs,
			"res": "ok", "post": projectStore(hs, addrs, comps)})
		// every fifth session works on a LONG list (12 sub-configs under l: two-digit positions), removing and
		// writing all along it
		long := *merges && rng.Intn(5) == 0
		for i := 0; i < *steps; i++ {
			op := storeOp{H: 1 + rng.Intn(len(hs)), Sep: true}
			nm := storeDriveNames[rng.Intn(len(storeDriveNames))]
			op.Name = nm
			op.Idx = []int{-1, -1, -1, 0, 1, 2}[rng.Intn(6)]
			if len(nm) == 0 && op.Idx < 0 {
				op.Idx = rng.Intn(3)
			}
			if long && i > 0 && rng.Intn(2) == 0 {
				op.H, op.Name, op.Idx = 1, []seg{{"l", -1}}, rng.Intn(13)
			}
			switch k := rng.Intn(20); {
			case long && i == 0:
				op.H, op.Op, op.Name, op.Idx, op.Pol = 1, "merge", nil, 0, "default"
				l := &frag{F: "l"}
				for j := 0; j < 12; j++ {
					l.L = append(l.L, &frag{F: "m", M: map[string]*frag{"v": {F: "p", Ty: "s", V: "1"}}})
				}
				op.Fr = &frag{F: "m", M: map[string]*frag{"l": l}}
			case k == 17 && *merges && rng.Intn(3) == 0:
				// a config merged into ITSELF (the source is read as it was when the call began)
				op.Op = "merge"
				op.Name, op.Idx = nil, 0
				op.Pol = pols[rng.Intn(len(pols))]
				op.Fr = &frag{F: "cfg", H: op.H}
			case k < 8:
				op.Op, op.Ty, op.V = "set", "s", []string{"1", "2", "x"}[rng.Intn(3)]
			case k < 12:
				op.Op = "remove"
			case k < 15:
				op.Op = "child"
				if len(hs) >= 5 {
					op.Op = "remove"
				}
			case k < 16 && *merges:
				op.Op = "parent"
				op.Name, op.Idx = nil, 0
				if len(hs) >= 5 {
					continue
				}
			case k < 18 && *merges:
				op.Op = "merge"
				op.Name, op.Idx = nil, 0
				op.Pol = pols[rng.Intn(len(pols))]
				op.Fr = randFrag(rng, 3, len(hs), true)
				if op.Fr.F == "p" || op.Fr.F == "nil" {
					op.Fr = &frag{F: "m", M: map[string]*frag{"a": op.Fr}}
				}
				em := map[int]bool{}
				fragEmbeds(op.Fr, em)
				ok := true
				for j := range em {
					if j == op.H || !disjoint(hs[op.H-1], hs[j-1]) {
						ok = false
					}
				}
				if !ok {
					continue
				}
			case k < 20 && *merges && len(hs) >= 2:
				op.Op = "setchild"
				op.J = 1 + rng.Intn(len(hs))
				if op.J == op.H || !disjoint(hs[op.H-1], hs[op.J-1]) {
					continue
				}
			default:
				op.Op, op.Ty, op.V = "set", "s", "9"
			}
			if op.Name == nil {
				op.Name = []seg{}
			}
			res := applyStore(&hs, op)
			if os.Getenv("VERIF_DEBUG_CYCLE") != "" {
				for hi, h := range hs {
					p := h
					for k := 0; k < 64 && p != nil; k++ {
						p = p.Parent()
					}
					if p != nil {
						b, _ := json.Marshal(op)
						fmt.Fprintf(os.Stderr, "CTX CYCLE at handle %d after session %d step %d op %s\n", hi+1, s, i, b)
						return 3
					}
				}
			}
			ev := map[string]interface{}{"sess": s, "op": op, "res": res, "post": projectStore(hs, addrs, comps)}
			if err := w.Encode(ev); err != nil {
				fmt.Fprintln(os.Stderr, err)
				return 2
			}
			if res == "panic" {
				break
			}
		}
	}
	return 0
}

func init() {
	register("store", &family{replay: storeReplay, drive: storeDrive})
}
