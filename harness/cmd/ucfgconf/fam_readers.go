package main

import (
	"encoding/json"
	"flag"
	"fmt"
	"reflect"
	"strings"
	"sync"

	ucfg "github.com/elastic/go-ucfg"
	"github.com/elastic/go-ucfg/parse"
)

// C11: reads are pure and concurrent readers are safe.  The cases are the worlds of
// Gen_VarExp (references, splices, Env configs, resolvers); the expectations are the
// specification's, so concurrent executions are bound to the same spec as sequential ones.

type readOp struct {
	name string
	run  func(c *ucfg.Config, opts []ucfg.Option) string
}

type capture struct {
	N *ucfg.Config `config:"n"`
	A interface{}  `config:"a"`
}

func readOps() []readOp {
	str := func(n string) readOp {
		return readOp{"String(" + n + ")", func(c *ucfg.Config, o []ucfg.Option) string {
			s, err := c.String(n, -1, o...)
			if err != nil {
				return "err:" + varErrClass(err)
			}
			return "ok:" + s
		}}
	}
	ops := []readOp{str("a"), str("b"), str("c"), str("n.k"), str("m")}
	ops = append(ops,
		readOp{"Unpack(map)", func(c *ucfg.Config, o []ucfg.Option) string {
			var m map[string]interface{}
			if err := c.Unpack(&m, o...); err != nil {
				return "err:" + varErrClass(err)
			}
			return "ok:" + jsonOf(canonGo(m))
		}},
		readOp{"Unpack(struct capturing *Config)", func(c *ucfg.Config, o []ucfg.Option) string {
			var t capture
			if err := c.Unpack(&t, o...); err != nil {
				return "err:" + varErrClass(err)
			}
			return "ok:" + jsonOf(canonGo(t.A))
		}},
		readOp{"Unpack twice into the same struct capturing a *Config reached through a reference", func(c *ucfg.Config, o []ucfg.Option) string {
			// the second Unpack finds the captured config already in the target; with AppendValues a
			// self-merge through a shared view would double the referenced lists
			var t struct {
				C *ucfg.Config `config:"c"`
				B *ucfg.Config `config:"b"`
				A *ucfg.Config `config:"a"`
			}
			res := ""
			for i := 0; i < 3; i++ {
				oo := o
				if i == 2 {
					oo = append(append([]ucfg.Option{}, o...), ucfg.AppendValues)
				}
				if err := c.Unpack(&t, oo...); err != nil {
					res += "err;"
				} else {
					res += "ok;"
				}
			}
			return res
		}},
		readOp{"Has/CountField/Child/GetFields/Path", func(c *ucfg.Config, o []ucfg.Option) string {
			h, _ := c.Has("n.k", -1, o...)
			n, _ := c.CountField("n", o...)
			ch, err := c.Child("n", -1, o...)
			p := ""
			if err == nil {
				p = ch.Path(".")
			}
			return fmt.Sprint(h, n, len(c.GetFields()), p, c.Path("."), c.IsDict(), c.IsArray())
		}},
		readOp{"use as merge source", func(c *ucfg.Config, o []ucfg.Option) string {
			d := ucfg.New()
			if err := d.Merge(c, ucfg.PathSep("."), ucfg.VarExp); err != nil {
				return "err"
			}
			// ... into a destination that already holds sub-configs at the same keys, with source metadata for the merge
			d2 := ucfg.MustNewFrom(map[string]interface{}{"n": map[string]interface{}{"zz": 1}, "a": 1}, ucfg.PathSep("."))
			if err := d2.Merge(c, ucfg.PathSep("."), ucfg.VarExp, ucfg.MetaData(ucfg.Meta{Source: "overlay.yml"})); err != nil {
				return "err"
			}
			return fmt.Sprint(len(d.GetFields()))
		}},
		readOp{"use as merge source: embedded (root and the sub-config n) in a map, a list and an ordered struct with a dotted sibling", func(c *ucfg.Config, o []ucfg.Option) string {
			res := ""
			srcs := []*ucfg.Config{c}
			if n, err := c.Child("n", -1); err == nil && n != nil {
				srcs = append(srcs, n)
			}
			for _, src := range srcs {
				// (MetaData: the source of the MERGED settings is recorded in the destination, never in the source)
				for _, pol := range [][]ucfg.Option{nil, {ucfg.AppendValues, ucfg.MetaData(ucfg.Meta{Source: "overlay.yml"})}} {
					oo := append([]ucfg.Option{ucfg.PathSep(".")}, pol...)
					inputs := []interface{}{
						[]interface{}{src},
						struct {
							S *ucfg.Config `config:"s"`
							Z string       `config:"s.zz"`
							K string       `config:"s.k"`
						}{src, "z", "kk"},
						map[string]interface{}{"s": src, "s.n.zz": "z"},
					}
					for _, in := range inputs {
						d := ucfg.New()
						if err := d.Merge(in, oo...); err != nil {
							res += "e"
						} else {
							res += "k"
						}
						// ... and writing into the destination afterwards must not reach the source either
						d.SetString("s.k", -1, "w", ucfg.PathSep("."))
						d.SetString("s.n.k", -1, "w", ucfg.PathSep("."))
						d.Remove("s.k", -1, ucfg.PathSep("."))
					}
				}
			}
			return res
		}},
		readOp{"Int/Bool/Float getters", func(c *ucfg.Config, o []ucfg.Option) string {
			_, e1 := c.Int("a", -1, o...)
			_, e2 := c.Bool("b", -1, o...)
			_, e3 := c.Float("c", -1, o...)
			return fmt.Sprint(e1 == nil, e2 == nil, e3 == nil)
		}},
	)
	return ops
}

// a second option set whose resolver answers differently: a memo stored on the shared value
// by the first read would be served here
func otherResolver(base []ucfg.Option) []ucfg.Option {
	o := append([]ucfg.Option{}, base...)
	return append(o, ucfg.Resolve(func(name string) (string, parse.Config, error) {
		return "other-" + name, parse.DefaultConfig, nil
	}))
}

func readersReplay(args []string) int {
	fs := flag.NewFlagSet("readers", flag.ExitOnError)
	fs.Int64("seed", 1, "seed")
	goroutines := fs.Int("goroutines", 8, "concurrent readers per world")
	every := fs.Int("every", 1, "use every n-th world only")
	fs.Parse(args)
	rep := newReporter("readers")
	ops := readOps()
	var counter int64
	var cmu sync.Mutex
	runCases(func(raw []byte, rep *reporter) {
		var c varCase
		if err := json.Unmarshal(raw, &c); err != nil {
			rep.infra("case: " + err.Error())
			return
		}
		cmu.Lock()
		counter++
		k := counter
		cmu.Unlock()
		if k%int64(*every) != 0 {
			return
		}
		if c.Cyc && expectsOverflow(c.Flat) {
			return // FlattenedKeys is not called here, but keep cyclic-through-dictionary worlds out of the in-process run
		}
		var w vworld
		if err := json.Unmarshal(c.W, &w); err != nil {
			rep.infra("world: " + err.Error())
			return
		}
		rep.begin(raw)
		rep.nontrivial(c.W)
		// ---- sequential: every read leaves the internal state bit-identical ----
		cfg, opts, err := w.build(vworldOpts{})
		if err != nil {
			rep.violate("build", raw, err.Error(), "accepted", "")
			return
		}
		ref := make([]string, len(ops))
		h0 := DeepHash(cfg)
		for i, op := range ops {
			panicked, msg := guard(func() { ref[i] = op.run(cfg, opts) })
			if panicked {
				rep.violate("panic/"+op.name, raw, msg, "returns", "")
				return
			}
			if h := DeepHash(cfg); h != h0 {
				rep.violate("read-modifies-config/"+op.name, raw, "deep hash "+h0+" -> "+h, "internal state identical after a read", "")
				return
			}
		}
		// the first String reads must be what the specification says (binding to UcfgVarExp)
		if !c.Amb {
			for i := 0; i < 4 && i < len(c.Reads); i++ {
				got := map[string]interface{}{}
				if strings.HasPrefix(ref[i], "ok:") {
					got["ok"] = ref[i][3:]
				} else {
					got["err"] = strings.TrimPrefix(ref[i], "err:")
				}
				if !eqText(got)(c.Reads[i].Str.Ideal) {
					rep.violate("sequential-result/"+ops[i].name, raw, got, string(c.Reads[i].Str.Ideal), "")
					return
				}
			}
		}
		// a different resolver must be honoured by a later call on the same config (no memo on the value)
		other := otherResolver(opts)
		fresh, _, _ := w.build(vworldOpts{})
		for i := 0; i < 5; i++ {
			a := ops[i].run(cfg, other)
			b := ops[i].run(fresh, other)
			if a != b {
				rep.violate("result-depends-on-earlier-read/"+ops[i].name, raw, a, b, "the same read on a config that was read before gives another answer")
				return
			}
		}
		// ---- concurrent: a FRESH config, several goroutines, same answers as alone ----
		shared, sopts, _ := w.build(vworldOpts{})
		hs0 := DeepHash(shared)
		// which error a whole-config read reports first depends on field order: compare the class only
		class := func(j int, s string) string {
			if j >= 5 && strings.HasPrefix(s, "err") {
				return "err"
			}
			return s
		}
		var wg sync.WaitGroup
		bad := make(chan string, *goroutines)
		for g := 0; g < *goroutines; g++ {
			wg.Add(1)
			go func(g int) {
				defer wg.Done()
				defer func() {
					if r := recover(); r != nil {
						bad <- fmt.Sprint("panic: ", r)
					}
				}()
				for r := 0; r < 3; r++ {
					for i := range ops {
						j := (i + g + r) % len(ops)
						if got := ops[j].run(shared, sopts); class(j, got) != class(j, ref[j]) && !(c.Cyc && j >= 5) {
							bad <- ops[j].name + ": concurrent " + got + " alone " + ref[j]
							return
						}
					}
				}
			}(g)
		}
		wg.Wait()
		close(bad)
		if msg, ok := <-bad; ok {
			rep.violate("concurrent-result-differs", raw, msg, "the result of the same read running alone", "")
			return
		}
		if h := DeepHash(shared); h != hs0 {
			rep.violate("concurrent-reads-modify-config", raw, h, hs0, "")
			return
		}
		rep.okIdeal()
	}, rep)
	return rep.finish()
}

var _ = reflect.TypeOf

func init() {
	register("readers", &family{replay: readersReplay})
}
