package main

import (
	"bufio"
	"encoding/json"
	"fmt"
	"io"
	"os"
	"os/exec"
	"runtime/debug"
	"sync"
	"time"
)

// Crash isolation: reads that may overflow the stack or never return run in child
// processes (`ucfgconf child <family>`).  A child answers one JSON line per request;
// when it dies or exceeds the deadline the request in flight is reported as "crash" /
// "hang" and a fresh child takes over, so a dead child is an observation about one
// case, never a lost run.

var childHandlers = map[string]func(req []byte) interface{}{}

func registerChild(name string, f func(req []byte) interface{}) { childHandlers[name] = f }

func childMain(family string) int {
	h, ok := childHandlers[family]
	if !ok {
		fmt.Fprintln(os.Stderr, "no child handler for", family)
		return 2
	}
	debug.SetMaxStack(4 << 20) // make unbounded recursion die quickly
	in := bufio.NewReaderSize(os.Stdin, 1<<20)
	out := bufio.NewWriter(os.Stdout)
	for {
		ln, err := in.ReadBytes('\n')
		if len(ln) > 1 {
			b, _ := json.Marshal(h(ln))
			out.Write(b)
			out.WriteByte('\n')
			out.Flush()
		}
		if err != nil {
			return 0
		}
	}
}

type isoChild struct {
	cmd *exec.Cmd
	in  io.WriteCloser
	out *bufio.Reader
}

type isoPool struct {
	family  string
	timeout time.Duration
	free    chan *isoChild
	mu      sync.Mutex
	spawned int
}

func newIsoPool(family string, n int, timeout time.Duration) *isoPool {
	p := &isoPool{family: family, timeout: timeout, free: make(chan *isoChild, n)}
	for i := 0; i < n; i++ {
		p.free <- nil // started lazily
	}
	return p
}

func (p *isoPool) start() (*isoChild, error) {
	cmd := exec.Command(os.Args[0], "child", p.family)
	in, err := cmd.StdinPipe()
	if err != nil {
		return nil, err
	}
	out, err := cmd.StdoutPipe()
	if err != nil {
		return nil, err
	}
	cmd.Stderr = nil
	if err := cmd.Start(); err != nil {
		return nil, err
	}
	p.mu.Lock()
	p.spawned++
	p.mu.Unlock()
	return &isoChild{cmd: cmd, in: in, out: bufio.NewReaderSize(out, 1<<20)}, nil
}

// do sends one request; status is "ok", "crash" or "hang".
func (p *isoPool) do(req []byte) (resp []byte, status string) {
	c := <-p.free
	defer func() { p.free <- c }()
	if c == nil {
		var err error
		if c, err = p.start(); err != nil {
			return nil, "infra: " + err.Error()
		}
	}
	line := append(append([]byte{}, req...), '\n')
	if _, err := c.in.Write(line); err != nil {
		c.cmd.Process.Kill()
		c.cmd.Wait()
		c = nil
		return nil, "crash"
	}
	type res struct {
		b   []byte
		err error
	}
	ch := make(chan res, 1)
	go func(r *bufio.Reader) {
		b, err := r.ReadBytes('\n')
		ch <- res{b, err}
	}(c.out)
	select {
	case r := <-ch:
		if r.err != nil {
			c.cmd.Process.Kill()
			c.cmd.Wait()
			c = nil
			return nil, "crash"
		}
		return r.b, "ok"
	case <-time.After(p.timeout):
		c.cmd.Process.Kill()
		c.cmd.Wait()
		c = nil
		return nil, "hang"
	}
}

func (p *isoPool) close() {
	for i := 0; i < cap(p.free); i++ {
		c := <-p.free
		if c != nil {
			c.in.Close()
			c.cmd.Wait()
		}
	}
}
