package main

import (
	"encoding/json"
	"flag"
	"fmt"
	"reflect"
	"strings"

	ucfg "github.com/elastic/go-ucfg"
)

// Gen_Reach: validators on fields reached through every kind of wrapper (C04).

type reachIn struct {
	X int `config:"x" validate:"min=2"`
	Y int `config:"y"`
}

type reachCase struct {
	W   string `json:"w"`
	Def struct {
		Nil bool  `json:"nil"`
		Xs  []int `json:"xs"`
	} `json:"def"`
	Set string `json:"set"`
	Exp struct {
		Ideal json.RawMessage `json:"ideal"`
		Alts  []altExp        `json:"alts"`
	} `json:"exp"`
}

// reachUnp: a custom unpacker with Validate() (wrappers Unp, PUnp)
type reachUnp struct{ X int }

func (u *reachUnp) Unpack(v interface{}) error {
	switch n := v.(type) {
	case int64:
		u.X = int(n)
	case uint64:
		u.X = int(n)
	default:
		return fmt.Errorf("reachUnp: %T", v)
	}
	return nil
}

func (u *reachUnp) Validate() error {
	if u.X < 2 {
		return fmt.Errorf("X must be >= 2")
	}
	return nil
}

// reachVP / reachVV: named primitives with Validate() on the pointer / the value receiver (forms VP, PVP, VV)
type reachVP int
type reachVV int

func (p *reachVP) Validate() error {
	if *p < 2 {
		return fmt.Errorf("must be >= 2")
	}
	return nil
}
func (p reachVV) Validate() error {
	if p < 2 {
		return fmt.Errorf("must be >= 2")
	}
	return nil
}

var tReachVP = reflect.TypeOf(reachVP(0))
var tReachVV = reflect.TypeOf(reachVV(0))
var tReachUnp = reflect.TypeOf(reachUnp{})
var tReachIn = reflect.TypeOf(reachIn{})

// reachElemType / reachElem: the element forms In, PIn (*In), PPIn, PPPIn, IfPIn (interface{} holding *In), IfIn, IfPPIn
func reachElemType(form string) reflect.Type {
	switch form {
	case "VP":
		return tReachVP
	case "PVP":
		return reflect.PtrTo(tReachVP)
	case "VV":
		return tReachVV
	case "Unp":
		return tReachUnp
	case "PUnp":
		return reflect.PtrTo(tReachUnp)
	case "In":
		return tReachIn
	case "PIn":
		return reflect.PtrTo(tReachIn)
	case "PPIn":
		return reflect.PtrTo(reflect.PtrTo(tReachIn))
	case "PPPIn":
		return reflect.PtrTo(reflect.PtrTo(reflect.PtrTo(tReachIn)))
	}
	return tIface
}

func reachElem(form string, x int) reflect.Value {
	switch form {
	case "VP", "PVP":
		p := reflect.New(tReachVP)
		p.Elem().SetInt(int64(x))
		if form == "VP" {
			return p.Elem()
		}
		return p
	case "VV":
		return reflect.ValueOf(reachVV(x))
	}
	if form == "Unp" || form == "PUnp" {
		u := reflect.New(tReachUnp)
		u.Elem().Field(0).SetInt(int64(x))
		if form == "Unp" {
			return u.Elem()
		}
		return u
	}
	v := reflect.New(tReachIn)
	v.Elem().Field(0).SetInt(int64(x))
	ptr := func(p reflect.Value) reflect.Value {
		pp := reflect.New(p.Type())
		pp.Elem().Set(p)
		return pp
	}
	switch form {
	case "In":
		return v.Elem()
	case "PIn":
		return v
	case "PPIn":
		return ptr(v)
	case "PPPIn":
		return ptr(ptr(v))
	case "IfPIn":
		return v
	case "IfIn":
		return v.Elem()
	case "IfPPIn":
		return ptr(v)
	}
	panic("form " + form)
}

// reachXs collects the X of every In reachable from v.
func reachXs(v reflect.Value, out *[]int) {
	for v.IsValid() && (v.Kind() == reflect.Ptr || v.Kind() == reflect.Interface) {
		if v.IsNil() {
			return
		}
		v = v.Elem()
	}
	if !v.IsValid() {
		return
	}
	switch v.Kind() {
	case reflect.Int:
		if v.Type() == tReachVP || v.Type() == tReachVV {
			*out = append(*out, int(v.Int()))
		}
	case reflect.Struct:
		if v.Type() == tReachIn || v.Type() == tReachUnp {
			*out = append(*out, int(v.Field(0).Int()))
		}
	case reflect.Slice, reflect.Array:
		for i := 0; i < v.Len(); i++ {
			reachXs(v.Index(i), out)
		}
	case reflect.Map:
		for _, k := range []string{"k0", "k1", "k2"} {
			if e := v.MapIndex(reflect.ValueOf(k)); e.IsValid() {
				reachXs(e, out)
			}
		}
	}
}

func reachReplay(args []string) int {
	fs := flag.NewFlagSet("reach", flag.ExitOnError)
	fs.Int64("seed", 1, "seed")
	repeat := fs.Int("repeat", 4, "repetitions of every case (the outcome must not depend on the runtime's map order)")
	fs.Parse(args)
	rep := newReporter("reach")
	runCases(func(raw []byte, rep *reporter) {
		var c reachCase
		if err := json.Unmarshal(raw, &c); err != nil {
			rep.infra("case: " + err.Error())
			return
		}
		rep.begin(raw)
		rep.nontrivial(raw)
		var got []int
		var errText string
		outcomes := map[string]bool{}
		var panicked bool
		var msg string
		for k := 0; k < *repeat && !panicked; k++ {
			got, errText = nil, ""
			panicked, msg = guard(func() {
				// the wrapper type and its pre-filled value
				coll, form := "", c.W
				switch {
				case strings.HasPrefix(c.W, "PL"):
					coll, form = "PL", c.W[2:]
				case strings.HasPrefix(c.W, "L"), strings.HasPrefix(c.W, "A"), strings.HasPrefix(c.W, "M"):
					coll, form = c.W[:1], c.W[1:]
				}
				et := reachElemType(form)
				var wt reflect.Type
				switch coll {
				case "":
					wt = et
				case "L":
					wt = reflect.SliceOf(et)
				case "PL":
					wt = reflect.PtrTo(reflect.SliceOf(et))
				case "A":
					wt = reflect.ArrayOf(2, et)
				case "M":
					wt = reflect.MapOf(reflect.TypeOf(""), et)
				}
				st := reflect.New(reflect.StructOf([]reflect.StructField{
					{Name: "Name", Type: reflect.TypeOf(""), Tag: `config:"name"`},
					{Name: "W", Type: wt, Tag: `config:"w"`},
				})).Elem()
				if !c.Def.Nil {
					w := st.Field(1)
					switch coll {
					case "":
						w.Set(reachElem(form, c.Def.Xs[0]))
					case "L", "PL":
						sl := reflect.MakeSlice(reflect.SliceOf(et), 0, 2)
						for _, x := range c.Def.Xs {
							sl = reflect.Append(sl, reachElem(form, x))
						}
						if coll == "PL" {
							p := reflect.New(sl.Type())
							p.Elem().Set(sl)
							sl = p
						}
						w.Set(sl)
					case "A":
						for i, x := range c.Def.Xs {
							w.Index(i).Set(reachElem(form, x))
						}
					case "M":
						m := reflect.MakeMap(wt)
						for i, x := range c.Def.Xs {
							m.SetMapIndex(reflect.ValueOf(fmt.Sprintf("k%d", i)), reachElem(form, x))
						}
						w.Set(m)
					}
				}
				in := map[string]interface{}{"name": "n"}
				switch c.Set {
				case "nil":
					in["w"] = nil
				case "obj-y":
					in["w"] = map[string]interface{}{"y": 7}
				case "u0":
					in["w"] = 0
				case "u5":
					in["w"] = 5
				case "null-new":
					in["w"] = map[string]interface{}{"fresh": nil, "other": "o"}
				case "first":
					var five interface{} = map[string]interface{}{"x": 5}
					if form == "VP" || form == "VV" {
						five = 5
					}
					if coll == "M" {
						in["w"] = map[string]interface{}{"k0": five}
					} else {
						in["w"] = []interface{}{five}
					}
				}
				cfg, err := ucfg.NewFrom(in, ucfg.PathSep("."))
				if err != nil {
					errText = "build: " + err.Error()
					return
				}
				if err := cfg.Unpack(st.Addr().Interface(), ucfg.PathSep(".")); err != nil {
					errText = err.Error()
					return
				}
				got = []int{}
				reachXs(st.Field(1), &got)
			})
			outcomes[fmt.Sprint(got, errText != "")] = true
		}
		if len(outcomes) > 1 {
			rep.violate("reach-order-dependent", raw, fmt.Sprint(outcomes), "one outcome for every repetition", "the outcome of Unpack depends on the order in which the runtime enumerates a map")
			return
		}
		if panicked {
			rep.violate("reach-panic", raw, msg, "returns", "")
			return
		}
		eq := func(exp json.RawMessage) bool {
			var e struct {
				Ok  *[]int `json:"ok"`
				Err string `json:"err"`
			}
			if json.Unmarshal(exp, &e) != nil {
				return false
			}
			if e.Ok == nil {
				return errText != "" && !strings.HasPrefix(errText, "build: ")
			}
			return errText == "" && reflect.DeepEqual(got, append([]int{}, (*e.Ok)...))
		}
		rep.classify(raw, c.Exp.Ideal, c.Exp.Alts, eq, func() interface{} {
			return map[string]interface{}{"xs": got, "err": errText}
		}, "reach/"+c.W)
	}, rep)
	return rep.finish()
}

func init() {
	register("reach", &family{replay: reachReplay})
}
