package main

import (
	"encoding/json"
	"flag"
	"reflect"

	ucfg "github.com/elastic/go-ucfg"
)

// Gen_GenericMerge: Unpack into pre-filled generic containers (C13).

type genericCase struct {
	Pol string `json:"pol"`
	U   *vtree `json:"u"`
	V   *vtree `json:"v"`
	Exp struct {
		Ideal json.RawMessage `json:"ideal"`
		Alts  []altExp        `json:"alts"`
	} `json:"exp"`
}

func genericReplay(args []string) int {
	fs := flag.NewFlagSet("generic", flag.ExitOnError)
	fs.Int64("seed", 1, "seed")
	fs.Parse(args)
	rep := newReporter("generic")
	runCases(func(raw []byte, rep *reporter) {
		var c genericCase
		if err := json.Unmarshal(raw, &c); err != nil {
			rep.infra("case: " + err.Error())
			return
		}
		rep.begin(raw)
		rep.nontrivial(raw)
		opts := append([]ucfg.Option{ucfg.PathSep(".")}, polOption(c.Pol)...)
		for _, route := range []string{"map-field", "iface-field", "top-map", "slice-of-maps"} {
			var got interface{}
			var errText string
			before := c.U.toGo()
			panicked, msg := guard(func() {
				var cfg *ucfg.Config
				var err error
				if route == "slice-of-maps" {
					// the pre-filled data as the ONLY element of a []interface{} field, the settings as element 0
					cfg, err = ucfg.NewFrom(map[string]interface{}{"m": []interface{}{c.V.toGo()}}, ucfg.PathSep("."))
				} else {
					cfg, err = ucfg.NewFrom(map[string]interface{}{"m": c.V.toGo()}, ucfg.PathSep("."))
				}
				if err != nil {
					errText = "build: " + err.Error()
					return
				}
				pre := c.U.toGo().(map[string]interface{})
				switch route {
				case "map-field":
					t := struct {
						Keep string                 `config:"other"`
						M    map[string]interface{} `config:"m"`
					}{"kept", pre}
					if err = cfg.Unpack(&t, opts...); err == nil {
						got = t.M
						if t.Keep != "kept" {
							errText = "the sibling field changed"
						}
					}
				case "iface-field":
					t := struct {
						M interface{} `config:"m"`
					}{pre}
					if err = cfg.Unpack(&t, opts...); err == nil {
						got = t.M
					}
				case "top-map":
					t := map[string]interface{}{"m": pre, "other": "kept"}
					if err = cfg.Unpack(&t, opts...); err == nil {
						got = t["m"]
						if t["other"] != "kept" {
							errText = "the sibling key changed"
						}
					}
				case "slice-of-maps":
					if c.Pol != "default" && c.Pol != "replace" {
						got = "skip"
						return
					}
					t := struct {
						M []interface{} `config:"m"`
					}{[]interface{}{pre}}
					if err = cfg.Unpack(&t, opts...); err == nil {
						if len(t.M) != 1 {
							errText = "the list changed its length"
						} else {
							got = t.M[0]
						}
					}
				}
				if err != nil {
					errText = "unpack: " + err.Error()
				}
			})
			if got == "skip" {
				continue
			}
			if panicked {
				errText = "panic: " + msg
			}
			_ = before
			eq := func(exp json.RawMessage) bool {
				var e struct {
					Ok *obs `json:"ok"`
				}
				if json.Unmarshal(exp, &e) != nil || e.Ok == nil || errText != "" {
					return false
				}
				return reflect.DeepEqual(stripTypes(canonGo(got)), stripTypes(e.Ok.canon()))
			}
			rep.classify(raw, c.Exp.Ideal, c.Exp.Alts, eq, func() interface{} {
				return map[string]interface{}{"route": route, "policy": c.Pol, "got": canonGo(got), "err": errText}
			}, "generic/"+route)
		}
	}, rep)
	return rep.finish()
}

func init() {
	register("generic", &family{replay: genericReplay})
}
