package main

import (
	"encoding/json"
	"flag"
	"fmt"
	"reflect"
	"time"

	ucfg "github.com/elastic/go-ucfg"
)

type vdVal struct {
	NilPtr bool `json:"nilptr"`
	N      int  `json:"n"`
}

type vdCase struct {
	Kind string `json:"kind"`
	Tag  string `json:"tag"`
	Dflt vdVal  `json:"dflt"`
	Set  struct {
		S string `json:"s"`
		N int    `json:"n"`
	} `json:"set"`
	Exp struct {
		Ideal json.RawMessage `json:"ideal"`
		Alts  []altExp        `json:"alts"`
	} `json:"exp"`
	VKey string `json:"vkey"` // the key the validators are written under ("" = validate)
	VOpt string `json:"vopt"` // the ValidatorTag option ("" = not given)
}

// vdInit: a named int type with InitDefaults (kind idint)
type vdInit int

func (v *vdInit) InitDefaults() { *v = 7 }

var vdBase = map[string]string{"pint": "int", "pdur": "dur", "pstring": "string", "pfloat64": "float64"}
var vdTypes = map[string]reflect.Type{"int": reflect.TypeOf(int(0)), "int8": reflect.TypeOf(int8(0)), "uint": reflect.TypeOf(uint(0)),
	"float64": reflect.TypeOf(float64(0)), "dur": reflect.TypeOf(time.Duration(0)), "string": reflect.TypeOf(""),
	"lint": reflect.TypeOf([]int(nil)), "mint": reflect.TypeOf(map[string]int(nil))}

// vdGo builds the Go value of base kind b for the abstract number n (units: 1, 1/2 for floats, ms for durations)
func vdGo(b string, n int) reflect.Value {
	v := reflect.New(vdTypes[b]).Elem()
	switch b {
	case "int", "int8":
		v.SetInt(int64(n))
	case "uint":
		v.SetUint(uint64(n))
	case "float64":
		v.SetFloat(float64(n) / 2)
	case "dur":
		v.SetInt(int64(time.Duration(n) * time.Millisecond))
	case "string":
		v.SetString("xyz"[:n])
	case "lint":
		if n >= 0 {
			s := reflect.MakeSlice(v.Type(), n, n)
			for i := 0; i < n; i++ {
				s.Index(i).SetInt(3)
			}
			v.Set(s)
		}
	case "mint":
		if n >= 0 {
			m := reflect.MakeMap(v.Type())
			for i := 0; i < n; i++ {
				m.SetMapIndex(reflect.ValueOf(fmt.Sprintf("k%d", i)), reflect.ValueOf(3))
			}
			v.Set(m)
		}
	}
	return v
}

// vdAbs is the inverse of vdGo (the abstract number of a Go value)
func vdAbs(b string, v reflect.Value) int {
	switch b {
	case "int", "int8":
		return int(v.Int())
	case "uint":
		return int(v.Uint())
	case "float64":
		return int(v.Float() * 2)
	case "dur":
		return int(time.Duration(v.Int()) / time.Millisecond)
	case "string":
		return len(v.String())
	}
	if v.IsNil() {
		return -1
	}
	return v.Len()
}

// the setting in every syntax the kind has
func vdSettings(b string, n int) []interface{} {
	switch b {
	case "int", "int8":
		return []interface{}{n, fmt.Sprint(n), float64(n)}
	case "uint":
		return []interface{}{uint(n), fmt.Sprint(n)}
	case "float64":
		return []interface{}{float64(n) / 2, fmt.Sprint(float64(n) / 2)}
	case "dur":
		out := []interface{}{fmt.Sprintf("%dms", n), (time.Duration(n) * time.Millisecond).String()}
		if n%1000 == 0 {
			out = append(out, n/1000)
		}
		return append(out, float64(n)/1000)
	case "string":
		return []interface{}{"xyz"[:n]}
	case "lint":
		l := make([]interface{}, n)
		for i := range l {
			l[i] = 3
		}
		return []interface{}{l}
	case "mint":
		m := map[string]interface{}{}
		for i := 0; i < n; i++ {
			m[fmt.Sprintf("k%d", i)] = 3
		}
		return []interface{}{m}
	}
	return nil
}

func validatorsReplay(args []string) int {
	fs := flag.NewFlagSet("validators", flag.ExitOnError)
	fs.Int64("seed", 1, "seed")
	fs.Parse(args)
	rep := newReporter("validators")
	runCases(func(raw []byte, rep *reporter) {
		var c vdCase
		if err := json.Unmarshal(raw, &c); err != nil {
			rep.infra("case: " + err.Error())
			return
		}
		rep.begin(raw)
		rep.nontrivial(raw)
		rep.class("kind:" + c.Kind)
		base, isPtr := vdBase[c.Kind]
		if !isPtr {
			base = c.Kind
		}
		if c.Kind == "idint" {
			base = "int"
		}
		ft := vdTypes[base]
		if c.Kind == "idint" {
			ft = reflect.TypeOf(vdInit(0))
		}
		if isPtr {
			ft = reflect.PtrTo(ft)
		}
		tag := `config:"f"`
		if c.Tag != "" {
			vkey := c.VKey
			if vkey == "" {
				vkey = "validate"
			}
			tag += fmt.Sprintf(` %s:"%s"`, vkey, c.Tag)
		}
		var uopts []ucfg.Option
		if c.VOpt != "" {
			uopts = append(uopts, ucfg.ValidatorTag(c.VOpt))
			rep.class("validatortag-option")
		}
		st := reflect.StructOf([]reflect.StructField{{Name: "F", Type: ft, Tag: reflect.StructTag(tag)}})
		var settings []interface{}
		switch c.Set.S {
		case "absent":
			settings = []interface{}{struct{}{}}
		case "nil":
			settings = []interface{}{nil}
		case "junk":
			settings = []interface{}{"zz", map[string]interface{}{"q": 1}}
		default:
			settings = vdSettings(base, c.Set.N)
		}
		for _, set := range settings {
			in := map[string]interface{}{}
			if c.Set.S != "absent" {
				in["f"] = set
			}
			target := reflect.New(st)
			if !c.Dflt.NilPtr {
				d := vdGo(base, c.Dflt.N)
				if c.Kind == "idint" {
					d = d.Convert(ft)
				}
				if isPtr {
					p := reflect.New(d.Type())
					p.Elem().Set(d)
					d = p
				}
				target.Elem().Field(0).Set(d)
			}
			var got string
			panicked, msg := guard(func() {
				cfg, err := ucfg.NewFrom(in)
				if err != nil {
					got = "build: " + err.Error()
					return
				}
				if err := cfg.Unpack(target.Interface(), uopts...); err != nil {
					got = "err:" + errPath(err)
					return
				}
				f := target.Elem().Field(0)
				if isPtr {
					if f.IsNil() {
						got = "ok:nilptr"
						return
					}
					f = f.Elem()
				}
				got = fmt.Sprintf("ok:%d", vdAbs(base, f))
			})
			if panicked {
				got = "panic: " + msg
			}
			eq := func(exp json.RawMessage) bool {
				var e struct {
					Ok  *vdVal   `json:"ok"`
					Err []string `json:"err"`
				}
				if json.Unmarshal(exp, &e) != nil {
					return false
				}
				if e.Ok != nil {
					if e.Ok.NilPtr {
						return got == "ok:nilptr"
					}
					return got == fmt.Sprintf("ok:%d", e.Ok.N)
				}
				return got == "err:f"
			}
			rep.classify(raw, c.Exp.Ideal, c.Exp.Alts, eq, func() interface{} {
				return map[string]interface{}{"type": fmt.Sprint(st), "setting": fmt.Sprintf("%T(%v)", set, set), "got": got}
			}, "validate/"+c.Kind)
		}
	}, rep)
	return rep.finish()
}

func init() {
	register("validators", &family{replay: validatorsReplay})
}
