package main

import (
	"encoding/json"
	"errors"
	"flag"
	"fmt"
	"reflect"
	"regexp"
	"strings"

	ucfg "github.com/elastic/go-ucfg"
)

// struct In of UcfgReify
type rIn struct {
	X int `config:"x" validate:"min=2"`
	Y int `config:"y"`
}

// variants of In (UcfgReify IVs): InitDefaults with a valid / an invalid default, Validate()
type rInD struct {
	X int `config:"x" validate:"min=2"`
	Y int `config:"y"`
}

func (d *rInD) InitDefaults() { d.X = 5 }

type rInB struct {
	X int `config:"x" validate:"min=2"`
	Y int `config:"y"`
}

func (d *rInB) InitDefaults() { d.X = 1 }

type rInV struct {
	X int `config:"x" validate:"min=2"`
	Y int `config:"y"`
}

func (d rInV) Validate() error {
	if d.X == 13 {
		return errors.New("unlucky")
	}
	return nil
}

// map types with InitDefaults (MD: a valid default entry, MB: one that violates min=2)
type rMapD map[string]rIn

func (m *rMapD) InitDefaults() { (*m)["d"] = rIn{X: 5} }

type rMapB map[string]rIn

func (m *rMapB) InitDefaults() { (*m)["d"] = rIn{X: 1} }

var rInTys = map[string]reflect.Type{"iv:plain": reflect.TypeOf(rIn{}), "iv:dgood": reflect.TypeOf(rInD{}), "iv:dbad": reflect.TypeOf(rInB{}),
	"iv:val13": reflect.TypeOf(rInV{}), "": reflect.TypeOf(rIn{})}

// rTypeOf: the Go type of field F for a (type, variant) pair
func rTypeOf(ty, iv string) reflect.Type {
	in := rInTys[iv]
	switch ty {
	case "S":
		return in
	case "PS":
		return reflect.PtrTo(in)
	case "LS":
		return reflect.SliceOf(in)
	case "MS":
		return reflect.MapOf(reflect.TypeOf(""), in)
	case "MD":
		return reflect.TypeOf(rMapD(nil))
	case "MB":
		return reflect.TypeOf(rMapB(nil))
	}
	return rTys[ty]
}

type rGVal struct {
	G     string          `json:"g"`
	I     int             `json:"i"`
	P     *rGVal          `json:"p"`
	X     int             `json:"x"`
	Y     int             `json:"y"`
	IsNil bool            `json:"isnil"`
	Xs    []rGVal         `json:"xs"`
	M     json.RawMessage `json:"m"`
}

// config trees of UcfgReify: {"k":"nil"} | {"k":"i","i":n} | {"k":"s","s":text} | {"k":"n","d":..,"a":[..]}
type rTree struct {
	K string            `json:"k"`
	I int               `json:"i"`
	S string            `json:"s"`
	D json.RawMessage   `json:"d"`
	A []json.RawMessage `json:"a"`
}

func rBuildCfg(raw json.RawMessage) interface{} {
	var t rTree
	if err := json.Unmarshal(raw, &t); err != nil {
		panic(err)
	}
	switch t.K {
	case "nil":
		return nil
	case "i":
		return t.I
	case "s":
		return t.S
	}
	if len(t.A) > 0 {
		out := make([]interface{}, len(t.A))
		for i, e := range t.A {
			out[i] = rBuildCfg(e)
		}
		return out
	}
	m := map[string]interface{}{}
	if len(t.D) > 0 && t.D[0] == '{' {
		d := map[string]json.RawMessage{}
		json.Unmarshal(t.D, &d)
		for k, v := range d {
			m[k] = rBuildCfg(v)
		}
	}
	return m
}

var rTys = map[string]reflect.Type{
	"I": reflect.TypeOf(int(0)), "PI": reflect.TypeOf((*int)(nil)), "S": reflect.TypeOf(rIn{}), "PS": reflect.TypeOf((*rIn)(nil)),
	"LI": reflect.TypeOf([]int(nil)), "LS": reflect.TypeOf([]rIn(nil)), "MI": reflect.TypeOf(map[string]int(nil)), "MS": reflect.TypeOf(map[string]rIn(nil)),
}
var rVTag = map[string]string{"nonzero": "nonzero", "positive": "positive", "min2": "min=2", "max5": "max=5", "required": "required"}

func rGMap(g rGVal) map[string]rGVal {
	m := map[string]rGVal{}
	if len(g.M) > 0 && g.M[0] == '{' {
		json.Unmarshal(g.M, &m)
	}
	return m
}

func rBuildVal(g rGVal, t reflect.Type) reflect.Value {
	switch g.G {
	case "int":
		return reflect.ValueOf(g.I)
	case "nilptr":
		return reflect.Zero(t)
	case "ptr":
		p := reflect.New(t.Elem())
		p.Elem().Set(rBuildVal(*g.P, t.Elem()))
		return p
	case "in":
		v := reflect.New(t).Elem()
		v.Field(0).SetInt(int64(g.X))
		v.Field(1).SetInt(int64(g.Y))
		return v
	case "slice":
		if g.IsNil {
			return reflect.Zero(t)
		}
		s := reflect.MakeSlice(t, len(g.Xs), len(g.Xs))
		for i, x := range g.Xs {
			s.Index(i).Set(rBuildVal(x, t.Elem()))
		}
		return s
	case "map":
		if g.IsNil {
			return reflect.Zero(t)
		}
		m := reflect.MakeMap(t)
		for k, v := range rGMap(g) {
			m.SetMapIndex(reflect.ValueOf(k), rBuildVal(v, t.Elem()))
		}
		return m
	}
	panic("gval " + g.G)
}

func rEqVal(g rGVal, v reflect.Value) bool {
	switch g.G {
	case "int":
		return v.Kind() == reflect.Int && int(v.Int()) == g.I
	case "nilptr":
		return v.Kind() == reflect.Ptr && v.IsNil()
	case "ptr":
		return v.Kind() == reflect.Ptr && !v.IsNil() && rEqVal(*g.P, v.Elem())
	case "in":
		return v.Kind() == reflect.Struct && int(v.Field(0).Int()) == g.X && int(v.Field(1).Int()) == g.Y
	case "slice":
		if v.Kind() != reflect.Slice || v.IsNil() != g.IsNil || v.Len() != len(g.Xs) {
			return false
		}
		for i, x := range g.Xs {
			if !rEqVal(x, v.Index(i)) {
				return false
			}
		}
		return true
	case "map":
		m := rGMap(g)
		if v.Kind() != reflect.Map || v.IsNil() != g.IsNil || v.Len() != len(m) {
			return false
		}
		for k, x := range m {
			e := v.MapIndex(reflect.ValueOf(k))
			if !e.IsValid() || !rEqVal(x, e) {
				return false
			}
		}
		return true
	}
	return false
}

var quotedRe = regexp.MustCompile(`'([^']*)'`)

// errPath extracts the setting path an error message names.
func errPath(err error) string {
	msg := err.Error()
	if i := strings.Index(msg, "\nTrace:"); i >= 0 {
		msg = msg[:i]
	}
	if strings.HasSuffix(msg, "accessing config") {
		return ""
	}
	all := quotedRe.FindAllStringSubmatch(msg, -1)
	if len(all) == 0 {
		return "?noquote:" + msg
	}
	return all[len(all)-1][1]
}

type reifyObs struct {
	Kind   string `json:"kind"` // ok | err | panic
	Path   string `json:"path,omitempty"`
	Typed  string `json:"typed,omitempty"`  // C14: what is wrong with the error value
	Atomic string `json:"atomic,omitempty"` // C13: which field changed although Unpack failed
	Msg    string `json:"msg,omitempty"`
	v      reflect.Value
	Value  string `json:"value,omitempty"`
}

type reifyCase struct {
	Pol string          `json:"pol"`
	IV  string          `json:"iv"`
	Ty  string          `json:"ty"`
	Vs  []string        `json:"vs"`
	Old rGVal           `json:"old"`
	Cfg json.RawMessage `json:"cfg"`
	Exp struct {
		Ideal json.RawMessage `json:"ideal"`
		Alts  []altExp        `json:"alts"`
	} `json:"exp"`
}

func runReify(c *reifyCase) (o reifyObs) {
	var tag string
	if len(c.Vs) > 0 {
		var vs []string
		for _, v := range c.Vs {
			vs = append(vs, rVTag[v])
		}
		tag = fmt.Sprintf(` validate:"%s"`, strings.Join(vs, ","))
	}
	ft := rTypeOf(c.Ty, c.IV)
	st := reflect.StructOf([]reflect.StructField{
		{Name: "G", Type: reflect.TypeOf(0), Tag: `config:"g"`},
		{Name: "F", Type: ft, Tag: reflect.StructTag(`config:"f"` + tag)},
		{Name: "H", Type: reflect.TypeOf(0), Tag: `config:"h"`},
	})
	target := reflect.New(st)
	target.Elem().Field(0).SetInt(1)
	target.Elem().Field(2).SetInt(1)
	old := rBuildVal(c.Old, ft)
	target.Elem().Field(1).Set(old)
	cfg, err := ucfg.NewFrom(rBuildCfg(c.Cfg))
	if err != nil {
		return reifyObs{Kind: "panic", Msg: "config: " + err.Error()}
	}
	panicked, msg := guard(func() {
		err = cfg.Unpack(target.Interface(), polOption(c.Pol)...)
	})
	if panicked {
		return reifyObs{Kind: "panic", Msg: msg}
	}
	if err != nil {
		o = reifyObs{Kind: "err", Path: errPath(err), Msg: err.Error()}
		// C14: a typed error with reason and class
		if ue, ok := err.(ucfg.Error); !ok {
			o.Typed = "not a ucfg.Error"
		} else if ue.Reason() == nil {
			o.Typed = "nil Reason"
		} else if ue.Class() == nil {
			o.Typed = "nil Class"
		}
		// C13: the struct passed in still holds its previous field values (shared maps / pointees may differ)
		if target.Elem().Field(0).Int() != 1 {
			o.Atomic = "G"
		} else if target.Elem().Field(2).Int() != 1 {
			o.Atomic = "H"
		} else {
			f := target.Elem().Field(1)
			switch f.Kind() {
			case reflect.Int, reflect.Struct:
				if !reflect.DeepEqual(f.Interface(), old.Interface()) {
					o.Atomic = "F"
				}
			case reflect.Ptr, reflect.Map:
				if f.Pointer() != old.Pointer() {
					o.Atomic = "F (pointer/map replaced)"
				}
			case reflect.Slice:
				if f.Len() != old.Len() || f.IsNil() != old.IsNil() || (f.Len() > 0 && f.Pointer() != old.Pointer()) {
					o.Atomic = "F (slice header replaced)"
				}
			}
		}
		return o
	}
	return reifyObs{Kind: "ok", v: target.Elem(), Value: fmt.Sprintf("%+v", target.Elem().Interface())}
}

type reifyExp struct {
	Ok *struct {
		G rGVal `json:"g"`
		F rGVal `json:"f"`
		H rGVal `json:"h"`
	} `json:"ok"`
	Err      []string   `json:"err"`
	ErrSet   [][]string `json:"errset"`
	Panic    bool       `json:"panic"`
	MayPanic bool       `json:"maypanic"`
}

func eqReify(o reifyObs) func(json.RawMessage) bool {
	return func(exp json.RawMessage) bool {
		var r reifyExp
		if json.Unmarshal(exp, &r) != nil {
			return false
		}
		switch {
		case r.Ok != nil:
			return o.Kind == "ok" && rEqVal(r.Ok.G, o.v.Field(0)) && rEqVal(r.Ok.F, o.v.Field(1)) && rEqVal(r.Ok.H, o.v.Field(2))
		case r.Panic:
			return o.Kind == "panic"
		case r.ErrSet != nil:
			if o.Kind == "panic" && r.MayPanic {
				return true
			}
			if o.Kind != "err" || o.Typed != "" || o.Atomic != "" {
				return false
			}
			for _, p := range r.ErrSet {
				if strings.Join(p, ".") == o.Path {
					return true
				}
			}
			return false
		}
		return o.Kind == "err" && o.Typed == "" && o.Atomic == "" && strings.Join(r.Err, ".") == o.Path
	}
}

func reifyReplay(args []string) int {
	fs := flag.NewFlagSet("reify", flag.ExitOnError)
	fs.Int64("seed", 1, "seed")
	fs.Parse(args)
	rep := newReporter("reify")
	runCases(func(raw []byte, rep *reporter) {
		var c reifyCase
		if err := json.Unmarshal(raw, &c); err != nil {
			rep.infra("case: " + err.Error())
			return
		}
		rep.begin(raw)
		rep.nontrivial(raw[:len(raw)*2/3])
		o := runReify(&c)
		rep.class("outcome:" + o.Kind)
		rep.class("variant:" + c.IV)
		rep.classify(raw, c.Exp.Ideal, c.Exp.Alts, eqReify(o), func() interface{} { return o }, "unpack/"+c.Ty)
	}, rep)
	return rep.finish()
}

func init() {
	register("reify", &family{replay: reifyReplay})
}
