package main

import (
	"encoding/json"
	"flag"
	"fmt"
	"math"
	"math/big"
	"math/rand"
	"os"
	"reflect"
	"strings"
	"time"

	ucfg "github.com/elastic/go-ucfg"
)

func pow2(n uint) *big.Int              { return new(big.Int).Lsh(big.NewInt(1), n) }
func bsub(a *big.Int, b int64) *big.Int { return new(big.Int).Sub(a, big.NewInt(b)) }
func bneg(a *big.Int) *big.Int          { return new(big.Int).Neg(a) }

// the concretisation table of UcfgConvert's named boundaries (ascending)
var convBaseNames = []string{"f32min_fprev", "f32min", "i64min_fprev", "i64min", "dmin", "i32min", "i16min", "i8min", "zero", "i8max", "u8max",
	"i16max", "u16max", "i32max", "u32max", "dmax", "two53", "i64max_fprev", "i64max", "u64max_fprev", "u64max", "f32max", "f32max_fnext"}
var convBases = map[string]*big.Int{
	"i64min_fprev": bsub(bneg(pow2(63)), 2048), "i64min": bneg(pow2(63)), "dmin": big.NewInt(-9223372036), "i32min": bneg(pow2(31)),
	"i16min": bneg(pow2(15)), "i8min": big.NewInt(-128), "zero": big.NewInt(0), "i8max": big.NewInt(127), "u8max": big.NewInt(255),
	"i16max": bsub(pow2(15), 1), "u16max": bsub(pow2(16), 1), "i32max": bsub(pow2(31), 1), "u32max": bsub(pow2(32), 1),
	"dmax": big.NewInt(9223372036), "two53": pow2(53), "i64max_fprev": bsub(pow2(63), 1024), "i64max": bsub(pow2(63), 1),
	"u64max_fprev": bsub(pow2(64), 2048), "u64max": bsub(pow2(64), 1),
	// MaxFloat32 = 2^128 - 2^104; the next float64 above it is 2^75 further
	"f32max": bsub2(pow2(128), pow2(104)), "f32max_fnext": new(big.Int).Add(bsub2(pow2(128), pow2(104)), pow2(75)),
	"f32min": bneg(bsub2(pow2(128), pow2(104))), "f32min_fprev": bneg(new(big.Int).Add(bsub2(pow2(128), pow2(104)), pow2(75))),
}

func bsub2(a, b *big.Int) *big.Int { return new(big.Int).Sub(a, b) }

// checkConvTable verifies the table against the Go definitions it stands for.
func checkConvTable() string {
	want := map[string]*big.Int{"i64min": big.NewInt(math.MinInt64), "i64max": big.NewInt(math.MaxInt64), "u64max": new(big.Int).SetUint64(math.MaxUint64),
		"i32min": big.NewInt(math.MinInt32), "i32max": big.NewInt(math.MaxInt32), "u32max": big.NewInt(math.MaxUint32),
		"i16min": big.NewInt(math.MinInt16), "i16max": big.NewInt(math.MaxInt16), "u16max": big.NewInt(math.MaxUint16),
		"i8min": big.NewInt(math.MinInt8), "i8max": big.NewInt(math.MaxInt8), "u8max": big.NewInt(math.MaxUint8),
		"dmax": big.NewInt(int64(math.MaxInt64 / int64(time.Second))), "dmin": big.NewInt(-int64(math.MaxInt64 / int64(time.Second)))}
	for k, v := range want {
		if convBases[k].Cmp(v) != 0 {
			return "boundary " + k + " is wrong"
		}
	}
	for i := 1; i < len(convBaseNames); i++ {
		if convBases[convBaseNames[i-1]].Cmp(convBases[convBaseNames[i]]) >= 0 {
			return "boundaries are not ascending at " + convBaseNames[i]
		}
	}
	if f := math.Nextafter(math.Pow(2, 63), 0); new(big.Float).SetFloat64(f).Cmp(new(big.Float).SetInt(convBases["i64max_fprev"])) != 0 {
		return "i64max_fprev is not the float64 below 2^63"
	}
	if new(big.Float).SetFloat64(math.MaxFloat32).Cmp(new(big.Float).SetInt(convBases["f32max"])) != 0 ||
		new(big.Float).SetFloat64(-math.MaxFloat32).Cmp(new(big.Float).SetInt(convBases["f32min"])) != 0 {
		return "f32max / f32min are not +-MaxFloat32"
	}
	if f := math.Nextafter(math.MaxFloat32, math.Inf(1)); new(big.Float).SetFloat64(f).Cmp(new(big.Float).SetInt(convBases["f32max_fnext"])) != 0 ||
		new(big.Float).SetFloat64(-f).Cmp(new(big.Float).SetInt(convBases["f32min_fprev"])) != 0 {
		return "f32max_fnext / f32min_fprev are not the float64 neighbours of +-MaxFloat32"
	}
	if f := math.Nextafter(math.Pow(2, 64), 0); new(big.Float).SetFloat64(f).Cmp(new(big.Float).SetInt(convBases["u64max_fprev"])) != 0 {
		return "u64max_fprev is not the float64 below 2^64"
	}
	return ""
}

type cnum struct {
	K string `json:"k"`
	B string `json:"b,omitempty"`
	O int64  `json:"o"`
	H bool   `json:"h"`
}

func (n cnum) rat() *big.Rat {
	r := new(big.Rat).SetInt(new(big.Int).Add(convBases[n.B], big.NewInt(n.O)))
	if n.H {
		r.Add(r, big.NewRat(1, 2))
	}
	return r
}

type nInt8 int8
type nInt16 int16
type nInt32 int32
type nInt64 int64
type nInt int
type nUint8 uint8
type nUint16 uint16
type nUint32 uint32
type nUint64 uint64
type nUint uint
type nFloat64 float64
type nFloat32 float32

var convTypes = map[string][2]reflect.Type{
	"int8": {reflect.TypeOf(int8(0)), reflect.TypeOf(nInt8(0))}, "int16": {reflect.TypeOf(int16(0)), reflect.TypeOf(nInt16(0))},
	"int32": {reflect.TypeOf(int32(0)), reflect.TypeOf(nInt32(0))}, "int64": {reflect.TypeOf(int64(0)), reflect.TypeOf(nInt64(0))},
	"int":   {reflect.TypeOf(int(0)), reflect.TypeOf(nInt(0))},
	"uint8": {reflect.TypeOf(uint8(0)), reflect.TypeOf(nUint8(0))}, "uint16": {reflect.TypeOf(uint16(0)), reflect.TypeOf(nUint16(0))},
	"uint32": {reflect.TypeOf(uint32(0)), reflect.TypeOf(nUint32(0))}, "uint64": {reflect.TypeOf(uint64(0)), reflect.TypeOf(nUint64(0))},
	"uint":    {reflect.TypeOf(uint(0)), reflect.TypeOf(nUint(0))},
	"float64": {reflect.TypeOf(float64(0)), reflect.TypeOf(nFloat64(0))}, "float32": {reflect.TypeOf(float32(0)), reflect.TypeOf(nFloat32(0))},
	"duration": {reflect.TypeOf(time.Duration(0)), reflect.TypeOf(time.Duration(0))},
}

// convSource concretises (source kind, abstract number); ok=false when the kind cannot hold it exactly.
func convSource(src string, n cnum) (interface{}, bool) {
	if n.K != "num" {
		f := map[string]float64{"nan": math.NaN(), "pinf": math.Inf(1), "ninf": math.Inf(-1)}[n.K]
		switch src {
		case "float":
			return f, true
		case "str":
			return map[string]string{"nan": "NaN", "pinf": "+Inf", "ninf": "-Inf"}[n.K], true
		}
		return nil, false
	}
	r := n.rat()
	switch src {
	case "int":
		if !r.IsInt() || !r.Num().IsInt64() {
			return nil, false
		}
		return r.Num().Int64(), true
	case "uint":
		if !r.IsInt() || !r.Num().IsUint64() {
			return nil, false
		}
		return r.Num().Uint64(), true
	case "float":
		f, exact := r.Float64()
		if !exact {
			return nil, false
		}
		return f, true
	case "str":
		if r.IsInt() {
			return r.Num().String(), true
		}
		return r.FloatString(1), true
	}
	return nil, false
}

type convObs struct {
	err bool
	v   reflect.Value
	msg string
}

// runConv performs the conversion on the real code through one of several routes.
func runConv(tgt string, srcv interface{}, variant string) (o convObs) {
	panicked, msg := guard(func() {
		types := convTypes[tgt]
		switch variant {
		case "getter":
			cfg, err := ucfg.NewFrom(map[string]interface{}{"v": srcv})
			if err != nil {
				o = convObs{err: true, msg: err.Error()}
				return
			}
			switch tgt {
			case "int64", "int":
				x, err := cfg.Int("v", -1)
				o = convObs{err: err != nil, v: reflect.ValueOf(x)}
			case "uint64", "uint":
				x, err := cfg.Uint("v", -1)
				o = convObs{err: err != nil, v: reflect.ValueOf(x)}
			case "float64":
				x, err := cfg.Float("v", -1)
				o = convObs{err: err != nil, v: reflect.ValueOf(x)}
			}
			return
		}
		if strings.HasPrefix(variant, "unp-") {
			// a typed unpacker (IntUnpacker / UintUnpacker / FloatUnpacker) is handed the value the getter of its kind gives
			site := strings.TrimPrefix(variant, "unp-")
			st, prep, rec := unpSite(unpForTarget[tgt], site)
			cfg, err := ucfg.NewFrom(map[string]interface{}{"v": unpWrap(site, srcv)})
			if err != nil {
				o = convObs{err: true, msg: err.Error()}
				return
			}
			target := reflect.New(st)
			prep(target, false, false)
			if err := cfg.Unpack(target.Interface()); err != nil {
				o = convObs{err: true, msg: err.Error()}
				return
			}
			r := rec(target)
			if r == nil || r.Calls != 1 {
				o = convObs{v: reflect.ValueOf("the unpacker was not called exactly once"), msg: "calls"}
				return
			}
			o = convObs{v: reflect.ValueOf(r.Got)}
			return
		}
		ft := types[0]
		switch variant {
		case "ptr":
			ft = reflect.PtrTo(types[0])
		case "named":
			ft = types[1]
		}
		st := reflect.StructOf([]reflect.StructField{{Name: "V", Type: ft, Tag: `config:"v"`}})
		var cfg *ucfg.Config
		var err error
		var opts []ucfg.Option
		if variant == "ref" {
			opts = []ucfg.Option{ucfg.VarExp}
			cfg, err = ucfg.NewFrom(map[string]interface{}{"v": "${x}", "x": srcv}, opts...)
		} else if variant == "splice" {
			opts = []ucfg.Option{ucfg.VarExp}
			cfg, err = ucfg.NewFrom(map[string]interface{}{"v": "${x:0}", "x": srcv}, opts...)
		} else if variant == "set" {
			cfg = ucfg.New()
			switch x := srcv.(type) {
			case int64:
				err = cfg.SetInt("v", -1, x)
			case uint64:
				err = cfg.SetUint("v", -1, x)
			case float64:
				err = cfg.SetFloat("v", -1, x)
			case string:
				err = cfg.SetString("v", -1, x)
			}
		} else {
			cfg, err = ucfg.NewFrom(map[string]interface{}{"v": srcv})
		}
		if err != nil {
			o = convObs{err: true, msg: err.Error()}
			return
		}
		target := reflect.New(st)
		if err := cfg.Unpack(target.Interface(), opts...); err != nil {
			o = convObs{err: true, msg: err.Error()}
			return
		}
		v := target.Elem().Field(0)
		if variant == "ptr" {
			if v.IsNil() {
				o = convObs{err: true, msg: "nil pointer left"}
				return
			}
			v = v.Elem()
		}
		o = convObs{v: v}
	})
	if panicked {
		o = convObs{err: true, msg: "panic: " + msg}
	}
	return
}

func truncRat(r *big.Rat) *big.Int { return new(big.Int).Quo(r.Num(), r.Denom()) }

// convExact: does the stored value equal the mathematically expected one?
func convExact(n cnum, tgt string, v reflect.Value) bool {
	if v.Kind() == reflect.String {
		return false // the note of an unpacker route that was not called once
	}
	isFloat := v.Kind() == reflect.Float32 || v.Kind() == reflect.Float64
	if n.K != "num" {
		if !isFloat {
			return false
		}
		f := v.Float()
		switch n.K {
		case "nan":
			return math.IsNaN(f)
		case "pinf":
			return math.IsInf(f, 1)
		}
		return math.IsInf(f, -1)
	}
	r := n.rat()
	switch tgt {
	case "float64":
		f, _ := r.Float64()
		return v.Float() == f
	case "float32":
		f, _ := r.Float32()
		return float32(v.Float()) == f
	case "duration":
		ns := new(big.Rat).Mul(r, big.NewRat(1000000000, 1))
		want := truncRat(ns)
		got := big.NewInt(v.Int())
		d := new(big.Int).Sub(want, got)
		d.Abs(d)
		tol := new(big.Int).Quo(new(big.Int).Abs(want), big.NewInt(1<<50)) // float64 seconds carry 53 bits
		tol.Add(tol, big.NewInt(1))
		return d.Cmp(tol) <= 0
	}
	want := truncRat(r)
	var got *big.Int
	if v.Kind() >= reflect.Uint && v.Kind() <= reflect.Uint64 {
		got = new(big.Int).SetUint64(v.Uint())
	} else {
		got = big.NewInt(v.Int())
	}
	return got.Cmp(want) == 0
}

func convOutcome(n cnum, tgt string, o convObs) string {
	switch {
	case o.err:
		return "err"
	case convExact(n, tgt, o.v):
		return "exact"
	}
	return "inexact"
}

type convExp struct {
	Ok  string `json:"ok"`
	Err bool   `json:"err"`
}

func convAllows(exp json.RawMessage, outcome string) bool {
	var e convExp
	if json.Unmarshal(exp, &e) != nil {
		return false
	}
	if e.Err {
		return outcome == "err"
	}
	switch e.Ok {
	case "val", "same":
		return outcome == "exact"
	case "wrapped":
		return outcome == "inexact"
	case "wrapped_or_err":
		return outcome == "err" || outcome == "inexact"
	}
	return false
}

type convCase struct {
	Src string `json:"src"`
	N   cnum   `json:"n"`
	Tgt string `json:"tgt"`
	Exp struct {
		Ideal json.RawMessage `json:"ideal"`
		Alts  []altExp        `json:"alts"`
	} `json:"exp"`
}

func convVariants(tgt string) []string {
	// "set": the setting is stored by the typed setter, which keeps the kind verbatim
	// (NewFrom stores every non-negative Go integer as an unsigned setting)
	// "splice": the value reaches the target THROUGH TEXT (${x:0}: rendered, spliced, parsed again)
	vs := []string{"field", "ptr", "named", "ref", "set", "splice"}
	switch tgt {
	case "int64", "int", "uint64", "uint", "float64":
		vs = append(vs, "getter")
	}
	if _, ok := unpForTarget[tgt]; ok {
		vs = append(vs, "unp-field", "unp-ptr", "unp-pre", "unp-elem", "unp-pelem", "unp-mapval")
	}
	return vs
}

func convReplay(args []string) int {
	fs := flag.NewFlagSet("conv", flag.ExitOnError)
	fs.Int64("seed", 1, "seed")
	fs.Parse(args)
	rep := newReporter("conv")
	if msg := checkConvTable(); msg != "" {
		rep.infra(msg)
		return rep.finish()
	}
	runCases(func(raw []byte, rep *reporter) {
		var c convCase
		if err := json.Unmarshal(raw, &c); err != nil {
			rep.infra("case: " + err.Error())
			return
		}
		srcv, ok := convSource(c.Src, c.N)
		if !ok {
			rep.skip() // the source kind cannot hold this number exactly
			return
		}
		rep.begin(raw)
		rep.nontrivial(raw[:len(raw)/3])
		rep.class("src:" + c.Src)
		for _, variant := range convVariants(c.Tgt) {
			if variant == "splice" && c.Src == "str" {
				continue // a TEXT that goes through a splice is parsed again and becomes a number of whatever kind it spells
			}
			o := runConv(c.Tgt, srcv, variant)
			outcome := convOutcome(c.N, c.Tgt, o)
			rep.classify(raw, c.Exp.Ideal, c.Exp.Alts, func(exp json.RawMessage) bool { return convAllows(exp, outcome) },
				func() interface{} {
					got := map[string]interface{}{"source": fmt.Sprintf("%T(%v)", srcv, srcv), "target": c.Tgt, "route": variant, "outcome": outcome, "error": o.msg}
					if !o.err {
						got["stored"] = fmt.Sprint(o.v.Interface())
					}
					return got
				}, "convert/"+variant)
		}
	}, rep)
	return rep.finish()
}

// ---- driver -----------------------------------------------------------------------------

// classOf maps an exact rational to the abstract number of the spec: the greatest named
// boundary not above it, the (capped) integer offset from it and whether a fraction remains.
func classOf(r *big.Rat) cnum {
	fl := new(big.Int).Div(r.Num(), r.Denom()) // floor
	frac := new(big.Rat).Sub(r, new(big.Rat).SetInt(fl)).Sign() != 0
	base := convBaseNames[0]
	for _, b := range convBaseNames {
		if convBases[b].Cmp(fl) <= 0 {
			base = b
		}
	}
	off := new(big.Int).Sub(fl, convBases[base])
	o := int64(1000)
	if off.IsInt64() && off.Int64() < 1000 {
		o = off.Int64()
		if o < -1000 {
			o = -1000
		}
	}
	return cnum{K: "num", B: base, O: o, H: frac}
}

func convDrive(args []string) int {
	fs := flag.NewFlagSet("conv", flag.ExitOnError)
	seed := fs.Int64("seed", 1, "seed")
	n := fs.Int("n", 1000, "events")
	fs.Parse(args)
	if msg := checkConvTable(); msg != "" {
		fmt.Fprintln(os.Stderr, msg)
		return 2
	}
	rng := rand.New(rand.NewSource(*seed))
	w := json.NewEncoder(os.Stdout)
	tgts := []string{"int8", "int16", "int32", "int64", "int", "uint8", "uint16", "uint32", "uint64", "uint", "float64", "float32", "duration"}
	for i := 0; i < *n; {
		var srcv interface{}
		var r *big.Rat
		src := []string{"int", "uint", "float", "str"}[rng.Intn(4)]
		bits := rng.Uint64() >> uint(rng.Intn(64))
		switch src {
		case "int":
			v := int64(bits)
			if rng.Intn(2) == 0 {
				v = -v
			}
			srcv, r = v, new(big.Rat).SetInt64(v)
		case "uint":
			srcv, r = bits, new(big.Rat).SetInt(new(big.Int).SetUint64(bits))
		case "float":
			f := math.Float64frombits(rng.Uint64())
			if rng.Intn(2) == 0 {
				f = float64(int64(bits)) / []float64{1, 2, 4, 1024}[rng.Intn(4)]
				if rng.Intn(2) == 0 {
					f = -f
				}
			}
			if math.IsNaN(f) || math.IsInf(f, 0) || math.Abs(f) > 1e30 {
				continue
			}
			srcv = f
			r, _ = new(big.Rat).SetString(new(big.Float).SetFloat64(f).Text('f', 400))
			if r == nil {
				continue
			}
		default:
			v := new(big.Int).SetUint64(bits)
			if rng.Intn(3) == 0 {
				v.Neg(v)
			}
			srcv, r = v.String(), new(big.Rat).SetInt(v)
		}
		c := classOf(r)
		if c.B == convBaseNames[0] && c.O < 0 {
			continue // below the table
		}
		tgt := tgts[rng.Intn(len(tgts))]
		vs := convVariants(tgt)
		variant := vs[rng.Intn(len(vs))]
		if variant == "splice" && src == "str" {
			variant = "field"
		}
		o := runConv(tgt, srcv, variant)
		// exactness is judged on the exact rational, not on its class
		outcome := "err"
		if !o.err {
			outcome = "inexact"
			if convExactRat(r, tgt, o.v) {
				outcome = "exact"
			}
		}
		if w.Encode(map[string]interface{}{"src": src, "n": c, "tgt": tgt, "route": variant, "value": fmt.Sprint(srcv), "out": outcome}) != nil {
			return 2
		}
		i++
	}
	return 0
}

func convExactRat(r *big.Rat, tgt string, v reflect.Value) bool {
	switch tgt {
	case "float64":
		f, _ := r.Float64()
		return v.Float() == f
	case "float32":
		f, _ := r.Float32()
		return float32(v.Float()) == f
	case "duration":
		ns := new(big.Rat).Mul(r, big.NewRat(1000000000, 1))
		want := truncRat(ns)
		got := big.NewInt(v.Int())
		d := new(big.Int).Sub(want, got)
		d.Abs(d)
		tol := new(big.Int).Quo(new(big.Int).Abs(want), big.NewInt(1<<50))
		tol.Add(tol, big.NewInt(1))
		return d.Cmp(tol) <= 0
	}
	want := truncRat(r)
	var got *big.Int
	if v.Kind() >= reflect.Uint && v.Kind() <= reflect.Uint64 {
		got = new(big.Int).SetUint64(v.Uint())
	} else {
		got = big.NewInt(v.Int())
	}
	return got.Cmp(want) == 0
}

func init() {
	register("conv", &family{replay: convReplay, drive: convDrive})
}
