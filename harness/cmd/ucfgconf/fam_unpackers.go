package main

import (
	"encoding/json"
	"flag"
	"fmt"
	"reflect"
	"strings"

	ucfg "github.com/elastic/go-ucfg"
)

// Gen_Unpackers: the call protocol of the typed unpacker interfaces (unpackers.go holds the recording targets).

type unpCase struct {
	Kind string `json:"kind"`
	Site string `json:"site"`
	Set  string `json:"set"`
	Beh  string `json:"beh"`
	Exp  struct {
		Ideal json.RawMessage `json:"ideal"`
		Alts  []altExp        `json:"alts"`
	} `json:"exp"`
}

type unpObs struct {
	Err      string `json:"err,omitempty"` // class of the error
	Msg      string `json:"msg,omitempty"`
	Path     string `json:"path,omitempty"`
	Typed    string `json:"typed,omitempty"`
	Calls    int    `json:"calls"`
	Got      string `json:"got,omitempty"`
	NilAfter bool   `json:"nil_after,omitempty"` // the nil pointer field is still nil
	Replaced bool   `json:"replaced,omitempty"`  // the pre-filled unpacker was exchanged for another one
}

var unpSettings = map[string]interface{}{"true": true, "neg": int64(-3), "pos": uint64(7), "frac": 1.5, "word": "x", "numword": "7",
	"obj": map[string]interface{}{"x": 1}, "list": []interface{}{1, 2}}

func unpRender(kind string, got interface{}) string {
	switch x := got.(type) {
	case bool:
		if kind == "any" {
			return fmt.Sprintf("any:b:%v", x)
		}
		return fmt.Sprintf("bool:%v", x)
	case int64:
		if kind == "any" {
			return fmt.Sprintf("any:n:%d", x)
		}
		return fmt.Sprintf("int:%d", x)
	case uint64:
		if kind == "any" {
			return fmt.Sprintf("any:n:%d", x)
		}
		return fmt.Sprintf("uint:%d", x)
	case float64:
		if kind == "any" {
			return "any:n:" + canonFloat(x)
		}
		return "float:" + canonFloat(x)
	case string:
		if kind == "any" {
			return "any:s:" + x
		}
		return "string:" + x
	case *ucfg.Config:
		if x == nil {
			return "config:nil"
		}
		if x.IsArray() && !x.IsDict() {
			return "config:list"
		}
		return "config:obj"
	case map[string]interface{}:
		return "any:obj"
	case []interface{}:
		return "any:list"
	case nil:
		return "any:nil"
	}
	return fmt.Sprintf("?%T", got)
}

func unpErrClass(err error) string {
	var last error = err
	for i := 0; i < 8; i++ {
		if last == errUnpRejected {
			return "custom"
		}
		if last == errUnpInvalid {
			return "validation"
		}
		e, ok := last.(ucfg.Error)
		if !ok || e.Reason() == nil {
			break
		}
		last = e.Reason()
	}
	msg := err.Error()
	switch {
	case strings.Contains(msg, errUnpRejected.Error()):
		return "custom"
	case strings.Contains(msg, errUnpInvalid.Error()):
		return "validation"
	}
	return "conversion" // every other failure of the library: type mismatch, conversion, expected object, ...
}

func unpackersReplay(args []string) int {
	fs := flag.NewFlagSet("unpackers", flag.ExitOnError)
	fs.Int64("seed", 1, "seed")
	fs.Parse(args)
	rep := newReporter("unpackers")
	runCases(func(raw []byte, rep *reporter) {
		var c unpCase
		if err := json.Unmarshal(raw, &c); err != nil {
			rep.infra("case: " + err.Error())
			return
		}
		rep.begin(raw)
		rep.nontrivial(raw)
		rep.class("kind:" + c.Kind)
		rep.class("site:" + c.Site)
		var o unpObs
		panicked, msg := guard(func() {
			in := map[string]interface{}{"other": "o"}
			switch c.Set {
			case "absent":
			case "nil":
				in["v"] = unpWrap(c.Site, nil)
			default:
				in["v"] = unpWrap(c.Site, unpSettings[c.Set])
			}
			opts := []ucfg.Option{ucfg.PathSep("."), ucfg.MetaData(ucfg.Meta{Source: faultSource})}
			cfg, err := ucfg.NewFrom(in, opts...)
			if err != nil {
				o = unpObs{Err: "build", Msg: err.Error()}
				return
			}
			st, prep, rec := unpSite(c.Kind, c.Site)
			target := reflect.New(st)
			prep(target, c.Beh == "reject", c.Beh == "invalid")
			var before *UnpRec
			if c.Site != "ptr" {
				before = rec(target)
			}
			err = cfg.Unpack(target.Interface(), opts...)
			r := rec(target)
			if c.Site == "ptr" && r != nil && err == nil {
				// a freshly allocated unpacker cannot have been told how to behave: only "accept" is meaningful here
			}
			if r != nil {
				o.Calls = r.Calls
				if r.Calls > 0 {
					o.Got = unpRender(c.Kind, r.Got)
				}
			}
			o.NilAfter = c.Site == "ptr" && target.Elem().Field(0).IsNil()
			o.Replaced = before != nil && r != before && c.Site != "field" && c.Site != "elem"
			if err != nil {
				o.Err = unpErrClass(err)
				fo := observeErr(err)
				o.Msg, o.Path, o.Typed = fo.Msg, fo.Path, fo.Typed
				if fo.Source != faultSource && c.Set != "absent" && c.Set != "nil" { // (a null hands nothing over: the failure is the default's)
					o.Typed += " no-source"
				}
			}
		})
		if panicked {
			o = unpObs{Err: "panic", Msg: msg}
		}
		eq := func(exp json.RawMessage) bool {
			var e struct {
				Ok    bool   `json:"ok"`
				Err   string `json:"err"`
				Path  string `json:"path"`
				Calls int    `json:"calls"`
				Got   string `json:"got"`
			}
			if json.Unmarshal(exp, &e) != nil {
				return false
			}
			if c.Site == "ptr" && c.Beh != "accept" {
				return true // a nil pointer holds no unpacker that could have been told to misbehave: covered by "accept"
			}
			if e.Ok {
				return o.Err == "" && o.Calls == e.Calls && (e.Calls == 0 || o.Got == e.Got) && !o.Replaced
			}
			// a failed call leaves a field / element held BY VALUE as it was (C13): the calls were made on a copy
			byValue := c.Site == "field" || c.Site == "elem"
			if o.Err != e.Err || strings.TrimSpace(o.Typed) != "" || (o.Calls != e.Calls && !(byValue && o.Calls == 0)) {
				return false
			}
			if c.Site == "ptr" && !o.NilAfter {
				return false // C13: the field keeps what it held
			}
			return e.Path == "" || o.Path == e.Path
		}
		rep.classify(raw, c.Exp.Ideal, c.Exp.Alts, eq, func() interface{} { return o }, "unpacker/"+c.Kind+"/"+c.Site)
	}, rep)
	return rep.finish()
}

func init() {
	register("unpackers", &family{replay: unpackersReplay})
}
