package main

import (
	"encoding/json"
	"flag"
	"math/rand"
	"os"
	"path/filepath"
	"reflect"
	"strings"
	"sync"
	"time"

	ucfg "github.com/elastic/go-ucfg"
	uflag "github.com/elastic/go-ucfg/flag"
	ujson "github.com/elastic/go-ucfg/json"
	"github.com/elastic/go-ucfg/yaml"
)

type flagOpts struct {
	Sep      bool   `json:"sep"`
	Pol      string `json:"pol"`
	AutoBool bool   `json:"autoBool"`
}

func (o flagOpts) options() []ucfg.Option {
	var opts []ucfg.Option
	if o.Sep {
		opts = append(opts, ucfg.PathSep("."))
	}
	return append(opts, polOption(o.Pol)...)
}

type flagsCase struct {
	Args [][]string `json:"args"`
	Arg  []string   `json:"arg"`
	Opts flagOpts   `json:"opts"`
	Exp  struct {
		Ideal json.RawMessage `json:"ideal"`
		Alts  []altExp        `json:"alts"`
	} `json:"exp"`
}

type flagsOutcome struct {
	Panic string      `json:"panic,omitempty"`
	M     interface{} `json:"m"`
	L     interface{} `json:"l"`
	Err   bool        `json:"err"`
	First string      `json:"first_error,omitempty"`
	Note  string      `json:"note,omitempty"`
}

// runFlags feeds the arguments to a real FlagValue and observes Config()/Error().
func runFlags(args []string, o flagOpts) (out flagsOutcome) {
	panicked, msg := guard(func() {
		fv := uflag.NewFlagKeyValue(nil, o.AutoBool, o.options()...)
		var first error
		for _, a := range args {
			fv.Set(a)
			if first == nil && fv.Error() != nil {
				first = fv.Error()
			}
			if first != nil && fv.Error() != first {
				out.Note = "the collector stopped reporting the first error"
			}
		}
		m, l, err := observeTop(fv.Config(), ucfg.PathSep("."))
		if err != nil {
			out.Panic = "unpack: " + err.Error()
			return
		}
		out.M, out.L, out.Err = m, l, fv.Error() != nil
		if first != nil {
			out.First = first.Error()
		}
		_ = fv.String()
	})
	if panicked {
		out = flagsOutcome{Panic: msg}
	}
	return
}

func eqFlags(out flagsOutcome) func(exp json.RawMessage) bool {
	return func(exp json.RawMessage) bool {
		var e struct {
			Cfg topObs `json:"cfg"`
			Err bool   `json:"err"`
		}
		if json.Unmarshal(exp, &e) != nil || out.Panic != "" || out.Note != "" {
			return false
		}
		return out.Err == e.Err && reflect.DeepEqual(out.M, e.Cfg.M.canon()) && reflect.DeepEqual(out.L, e.Cfg.L.canon())
	}
}

func flagsReplay(args []string) int {
	fs := flag.NewFlagSet("flags", flag.ExitOnError)
	fs.Int64("seed", 1, "seed")
	fs.Parse(args)
	rep := newReporter("flags")
	runCases(func(raw []byte, rep *reporter) {
		var c flagsCase
		if err := json.Unmarshal(raw, &c); err != nil {
			rep.infra("case: " + err.Error())
			return
		}
		rep.begin(raw)
		var all []string
		for _, a := range append(append([][]string{}, c.Args...), c.Arg) {
			all = append(all, strings.Join(a, ""))
		}
		if len(all) >= 2 {
			key, _ := json.Marshal([]interface{}{all, c.Opts})
			rep.nontrivial(key)
		}
		rep.class("pol:" + c.Opts.Pol)
		out := runFlags(all, c.Opts)
		rep.classify(raw, c.Exp.Ideal, c.Exp.Alts, eqFlags(out), func() interface{} {
			return map[string]interface{}{"args": all, "outcome": out}
		}, "flags")
	}, rep)
	return rep.finish()
}

// ---- file flags (Gen_FlagFiles) -----------------------------------------------------------

type flagFile struct {
	Name string          `json:"name"`
	Ext  string          `json:"ext"`
	Doc  json.RawMessage `json:"doc"`
}

type flagFilesCase struct {
	Files []flagFile `json:"files"`
	Opts  struct {
		Sep  bool   `json:"sep"`
		Pol  string `json:"pol"`
		Dflt bool   `json:"dflt"`
	} `json:"opts"`
	Exp struct {
		Ideal json.RawMessage `json:"ideal"`
		Alts  []altExp        `json:"alts"`
	} `json:"exp"`
}

// gvalDoc renders a document value of the specification as generic Go data (keys joined with a dot)
func gvalDoc(g *gval) interface{} {
	switch g.G {
	case "nil":
		return nil
	case "p":
		return primAs(g, "msi")
	case "l":
		l := make([]interface{}, len(g.Xs))
		for i, x := range g.Xs {
			l[i] = gvalDoc(x)
		}
		return l
	}
	m := map[string]interface{}{}
	for _, e := range g.Es {
		m[segKey(e.Key)] = gvalDoc(e.Val)
	}
	return m
}

func flagFilesReplay(args []string) int {
	fs := flag.NewFlagSet("flagfiles", flag.ExitOnError)
	fs.Int64("seed", 1, "seed")
	fs.Parse(args)
	rep := newReporter("flagfiles")
	dir, err := os.MkdirTemp("", "ucfgconf-flagfiles-")
	if err != nil {
		rep.infra(err.Error())
		return rep.finish()
	}
	defer os.RemoveAll(dir)
	var written sync.Map
	runCases(func(raw []byte, rep *reporter) {
		var c flagFilesCase
		if err := json.Unmarshal(raw, &c); err != nil {
			rep.infra("case: " + err.Error())
			return
		}
		rep.begin(raw)
		rep.nontrivial(raw)
		var paths []string
		for _, f := range c.Files {
			p := filepath.Join(dir, f.Name+f.Ext)
			if _, done := written.LoadOrStore(p, true); !done {
				var text []byte
				var g gval
				if err := json.Unmarshal(f.Doc, &g); err != nil {
					rep.infra("doc: " + err.Error())
					return
				}
				if g.G == "malformed" {
					text = []byte("{ this is : [ not a document")
				} else {
					text, _ = json.Marshal(gvalDoc(&g)) // JSON is also YAML
				}
				if err := os.WriteFile(p+".tmp", text, 0o644); err != nil || os.Rename(p+".tmp", p) != nil {
					rep.infra("write " + p)
					return
				}
			}
			paths = append(paths, p)
		}
		var out flagsOutcome
		panicked, msg := guard(func() {
			var opts []ucfg.Option
			if c.Opts.Sep {
				opts = append(opts, ucfg.PathSep("."))
			}
			opts = append(opts, polOption(c.Opts.Pol)...)
			loaders := map[string]uflag.FileLoader{".json": ujson.NewConfigWithFile, ".yml": yaml.NewConfigWithFile}
			if c.Opts.Dflt {
				loaders[""] = ujson.NewConfigWithFile
			}
			fv := uflag.NewFlagFiles(nil, loaders, opts...)
			var first error
			for _, p := range paths {
				for { // the files are written by whichever worker needs them first
					if _, err := os.Stat(p); err == nil {
						break
					}
					time.Sleep(time.Millisecond)
				}
				fv.Set(p)
				if first == nil && fv.Error() != nil {
					first = fv.Error()
				}
				if first != nil && fv.Error() != first {
					out.Note = "the collector stopped reporting the first error"
				}
			}
			m, l, err := observeTop(fv.Config(), ucfg.PathSep("."))
			if err != nil {
				out.Panic = "unpack: " + err.Error()
				return
			}
			out.M, out.L, out.Err = m, l, fv.Error() != nil
			_ = fv.String()
		})
		if panicked {
			out = flagsOutcome{Panic: msg}
		}
		rep.classify(raw, c.Exp.Ideal, c.Exp.Alts, eqFlags(out), func() interface{} {
			return map[string]interface{}{"files": paths, "outcome": out}
		}, "flagfiles")
	}, rep)
	return rep.finish()
}

func init() {
	register("flagfiles", &family{replay: flagFilesReplay})
}

// ---- driver --------------------------------------------------------------------------

func flagsDrive(args []string) int {
	fs := flag.NewFlagSet("flags", flag.ExitOnError)
	seed := fs.Int64("seed", 1, "seed")
	n := fs.Int("n", 500, "sequences")
	fs.Parse(args)
	rng := rand.New(rand.NewSource(*seed))
	w := json.NewEncoder(os.Stdout)
	keys := []string{"a", "b", "c", "a.b", "a.c", "b.0", "b.1", "a.b.c", "l", "l.2", "0", "1.x", "2"}
	vals := []string{"1", "x", "true", "null", "1,2", "[3]", "[x,y,z]", "{b:1}", "{c:{a:2}}", "{b.c:1}", "", "[", "\"q", "'s'", " 7 ", "-4", "1.5", "[1,[2]]", "{a:[1]}"}
	pols := []string{"default", "default", "append", "prepend", "replace", "arrreplace"}
	for i := 0; i < *n; i++ {
		o := flagOpts{Sep: rng.Intn(5) > 0, Pol: pols[rng.Intn(len(pols))], AutoBool: rng.Intn(4) > 0}
		var seq []string
		for k := 1 + rng.Intn(8); k > 0; k-- {
			if rng.Intn(8) == 0 {
				seq = append(seq, keys[rng.Intn(len(keys))])
			} else {
				seq = append(seq, keys[rng.Intn(len(keys))]+"="+vals[rng.Intn(len(vals))])
			}
		}
		out := runFlags(seq, o)
		chars := make([][]string, len(seq))
		for j, a := range seq {
			chars[j] = runeSeq(a)
		}
		ev := map[string]interface{}{"args": chars, "opts": o}
		if out.Panic != "" || out.Note != "" {
			ev["out"] = map[string]interface{}{"bad": out.Panic + out.Note}
		} else {
			ev["out"] = map[string]interface{}{"cfg": map[string]interface{}{"m": obsJSON(out.M), "l": obsJSON(out.L)}, "err": out.Err}
		}
		if w.Encode(ev) != nil {
			return 2
		}
	}
	return 0
}

func init() {
	register("flags", &family{replay: flagsReplay, drive: flagsDrive})
}
