package main

import (
	"encoding/json"
	"flag"
	"math/rand"
	"os"
	"reflect"
	"strings"

	ucfg "github.com/elastic/go-ucfg"
	uflag "github.com/elastic/go-ucfg/flag"
)

type flagOpts struct {
	Sep      bool   `json:"sep"`
	Pol      string `json:"pol"`
	AutoBool bool   `json:"autoBool"`
}

func (o flagOpts) options() []ucfg.Option {
	var opts []ucfg.Option
	if o.Sep {
		opts = append(opts, ucfg.PathSep("."))
	}
	return append(opts, polOption(o.Pol)...)
}

type flagsCase struct {
	Args [][]string `json:"args"`
	Arg  []string   `json:"arg"`
	Opts flagOpts   `json:"opts"`
	Exp  struct {
		Ideal json.RawMessage `json:"ideal"`
		Alts  []altExp        `json:"alts"`
	} `json:"exp"`
}

type flagsOutcome struct {
	Panic string      `json:"panic,omitempty"`
	M     interface{} `json:"m"`
	L     interface{} `json:"l"`
	Err   bool        `json:"err"`
	First string      `json:"first_error,omitempty"`
	Note  string      `json:"note,omitempty"`
}

// runFlags feeds the arguments to a real FlagValue and observes Config()/Error().
func runFlags(args []string, o flagOpts) (out flagsOutcome) {
	panicked, msg := guard(func() {
		fv := uflag.NewFlagKeyValue(nil, o.AutoBool, o.options()...)
		var first error
		for _, a := range args {
			fv.Set(a)
			if first == nil && fv.Error() != nil {
				first = fv.Error()
			}
			if first != nil && fv.Error() != first {
				out.Note = "the collector stopped reporting the first error"
			}
		}
		m, l, err := observeTop(fv.Config(), ucfg.PathSep("."))
		if err != nil {
			out.Panic = "unpack: " + err.Error()
			return
		}
		out.M, out.L, out.Err = m, l, fv.Error() != nil
		if first != nil {
			out.First = first.Error()
		}
		_ = fv.String()
	})
	if panicked {
		out = flagsOutcome{Panic: msg}
	}
	return
}

func eqFlags(out flagsOutcome) func(exp json.RawMessage) bool {
	return func(exp json.RawMessage) bool {
		var e struct {
			Cfg topObs `json:"cfg"`
			Err bool   `json:"err"`
		}
		if json.Unmarshal(exp, &e) != nil || out.Panic != "" || out.Note != "" {
			return false
		}
		return out.Err == e.Err && reflect.DeepEqual(out.M, e.Cfg.M.canon()) && reflect.DeepEqual(out.L, e.Cfg.L.canon())
	}
}

func flagsReplay(args []string) int {
	fs := flag.NewFlagSet("flags", flag.ExitOnError)
	fs.Int64("seed", 1, "seed")
	fs.Parse(args)
	rep := newReporter("flags")
	runCases(func(raw []byte, rep *reporter) {
		var c flagsCase
		if err := json.Unmarshal(raw, &c); err != nil {
			rep.infra("case: " + err.Error())
			return
		}
		rep.begin(raw)
		var all []string
		for _, a := range append(append([][]string{}, c.Args...), c.Arg) {
			all = append(all, strings.Join(a, ""))
		}
		if len(all) >= 2 {
			key, _ := json.Marshal([]interface{}{all, c.Opts})
			rep.nontrivial(key)
		}
		rep.class("pol:" + c.Opts.Pol)
		out := runFlags(all, c.Opts)
		rep.classify(raw, c.Exp.Ideal, c.Exp.Alts, eqFlags(out), func() interface{} {
			return map[string]interface{}{"args": all, "outcome": out}
		}, "flags")
	}, rep)
	return rep.finish()
}

// ---- driver --------------------------------------------------------------------------

func flagsDrive(args []string) int {
	fs := flag.NewFlagSet("flags", flag.ExitOnError)
	seed := fs.Int64("seed", 1, "seed")
	n := fs.Int("n", 500, "sequences")
	fs.Parse(args)
	rng := rand.New(rand.NewSource(*seed))
	w := json.NewEncoder(os.Stdout)
	keys := []string{"a", "b", "c", "a.b", "a.c", "b.0", "b.1", "a.b.c", "l", "l.2", "0", "1.x", "2"}
	vals := []string{"1", "x", "true", "null", "1,2", "[3]", "[x,y,z]", "{b:1}", "{c:{a:2}}", "{b.c:1}", "", "[", "\"q", "'s'", " 7 ", "-4", "1.5", "[1,[2]]", "{a:[1]}"}
	pols := []string{"default", "default", "append", "prepend", "replace", "arrreplace"}
	for i := 0; i < *n; i++ {
		o := flagOpts{Sep: rng.Intn(5) > 0, Pol: pols[rng.Intn(len(pols))], AutoBool: rng.Intn(4) > 0}
		var seq []string
		for k := 1 + rng.Intn(8); k > 0; k-- {
			if rng.Intn(8) == 0 {
				seq = append(seq, keys[rng.Intn(len(keys))])
			} else {
				seq = append(seq, keys[rng.Intn(len(keys))]+"="+vals[rng.Intn(len(vals))])
			}
		}
		out := runFlags(seq, o)
		chars := make([][]string, len(seq))
		for j, a := range seq {
			chars[j] = runeSeq(a)
		}
		ev := map[string]interface{}{"args": chars, "opts": o}
		if out.Panic != "" || out.Note != "" {
			ev["out"] = map[string]interface{}{"bad": out.Panic + out.Note}
		} else {
			ev["out"] = map[string]interface{}{"cfg": map[string]interface{}{"m": obsJSON(out.M), "l": obsJSON(out.L)}, "err": out.Err}
		}
		if w.Encode(ev) != nil {
			return 2
		}
	}
	return 0
}

func init() {
	register("flags", &family{replay: flagsReplay, drive: flagsDrive})
}
