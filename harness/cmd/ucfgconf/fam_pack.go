package main

import (
	"encoding/json"
	"flag"
	"fmt"
	"math"
	"math/rand"
	"os"
	"reflect"
	"regexp"
	"strconv"
	"strings"
	"time"

	ucfg "github.com/elastic/go-ucfg"
)

// generic type / value descriptors of UcfgPack
type tdesc struct {
	K string  `json:"k"`
	E *tdesc  `json:"e"`
	N int     `json:"n"`
	F []fdesc `json:"f"`
}
type fdesc struct {
	N    string   `json:"n"`
	Tag  []string `json:"tag"`
	Mode string   `json:"mode"`
	T    tdesc    `json:"t"`
	Val  string   `json:"val"` // validate tag (Trace_Pack's random types)
}
type vdesc struct {
	K   string          `json:"k"`
	V   json.RawMessage `json:"v"`
	Nil bool            `json:"nil"`
	P   *vdesc          `json:"p"`
	Xs  []vdesc         `json:"xs"`
	M   json.RawMessage `json:"m"`
	F   []vdesc         `json:"f"`
}

var packPrims = map[string]reflect.Type{"bool": reflect.TypeOf(true), "int8": reflect.TypeOf(int8(0)), "int64": reflect.TypeOf(int64(0)),
	"uint64": reflect.TypeOf(uint64(0)), "float64": reflect.TypeOf(float64(0)), "string": reflect.TypeOf(""), "dur": reflect.TypeOf(time.Duration(0)),
	"int16": reflect.TypeOf(int16(0)), "int32": reflect.TypeOf(int32(0)), "int": reflect.TypeOf(int(0)), "uint8": reflect.TypeOf(uint8(0)),
	"uint16": reflect.TypeOf(uint16(0)), "uint32": reflect.TypeOf(uint32(0)), "uint": reflect.TypeOf(uint(0)), "float32": reflect.TypeOf(float32(0)),
	"re": reflect.TypeOf((*regexp.Regexp)(nil))}

func buildType(t tdesc) reflect.Type { return buildTypeTag(t, "config") }

// buildTypeTag: the struct tags are written under the given key (the StructTag option names the key that counts)
func buildTypeTag(t tdesc, key string) reflect.Type {
	if p, ok := packPrims[t.K]; ok {
		return p
	}
	switch t.K {
	case "ptr":
		return reflect.PtrTo(buildTypeTag(*t.E, key))
	case "slice":
		return reflect.SliceOf(buildTypeTag(*t.E, key))
	case "array":
		return reflect.ArrayOf(t.N, buildTypeTag(*t.E, key))
	case "map":
		return reflect.MapOf(reflect.TypeOf(""), buildTypeTag(*t.E, key))
	case "nkmap": // a map keyed by a NAMED string type (Gen_Targets)
		return reflect.MapOf(packPrims["nstr"], buildTypeTag(*t.E, key))
	case "struct":
		fs := make([]reflect.StructField, len(t.F))
		for i, f := range t.F {
			tag := strings.Join(f.Tag, ".")
			if f.Mode != "" {
				tag += "," + f.Mode
			}
			stag := fmt.Sprintf(`%s:"%s"`, key, tag)
			if f.Val != "" {
				stag += fmt.Sprintf(` validate:"%s"`, f.Val)
			}
			fs[i] = reflect.StructField{Name: f.N, Type: buildTypeTag(f.T, key), Tag: reflect.StructTag(stag)}
		}
		return reflect.StructOf(fs)
	}
	panic("type " + t.K)
}

// stripTags: the type as the library sees it when its tags are written under a key that does not count
func stripTags(t tdesc) tdesc {
	out := t
	if t.E != nil {
		e := stripTags(*t.E)
		out.E = &e
	}
	if len(t.F) > 0 {
		out.F = append(out.F[:0:0], t.F...)
		for i := range out.F {
			out.F[i].Tag, out.F[i].Mode = nil, ""
			out.F[i].T = stripTags(out.F[i].T)
		}
	}
	return out
}

func rawStr(raw json.RawMessage) string { var s string; json.Unmarshal(raw, &s); return s }

func buildVal(t tdesc, v vdesc, rt reflect.Type) reflect.Value {
	if v.Nil {
		return reflect.Zero(rt)
	}
	out := reflect.New(rt).Elem()
	switch t.K {
	case "bool":
		var b bool
		json.Unmarshal(v.V, &b)
		out.SetBool(b)
	case "int8", "int16", "int32", "int64", "int", "dur":
		n, err := strconv.ParseInt(rawStr(v.V), 10, rt.Bits())
		if err != nil {
			panic("universe: " + err.Error())
		}
		out.SetInt(n)
	case "uint8", "uint16", "uint32", "uint64", "uint":
		n, err := strconv.ParseUint(rawStr(v.V), 10, rt.Bits())
		if err != nil {
			panic("universe: " + err.Error())
		}
		out.SetUint(n)
	case "float32", "float64":
		f, err := strconv.ParseFloat(rawStr(v.V), 64)
		if err != nil || (t.K == "float32" && float64(float32(f)) != f) {
			panic("universe: " + rawStr(v.V) + " is not a " + t.K)
		}
		out.SetFloat(f)
	case "string", "ustr", "uany":
		out.SetString(rawStr(v.V))
	case "re":
		out.Set(reflect.ValueOf(regexp.MustCompile(rawStr(v.V))))
	case "ptr":
		p := reflect.New(rt.Elem())
		p.Elem().Set(buildVal(*t.E, *v.P, rt.Elem()))
		out.Set(p)
	case "slice":
		s := reflect.MakeSlice(rt, len(v.Xs), len(v.Xs))
		for i, x := range v.Xs {
			s.Index(i).Set(buildVal(*t.E, x, rt.Elem()))
		}
		out.Set(s)
	case "array":
		for i, x := range v.Xs {
			out.Index(i).Set(buildVal(*t.E, x, rt.Elem()))
		}
	case "map":
		m := reflect.MakeMap(rt)
		mm := map[string]vdesc{}
		if len(v.M) > 0 && v.M[0] == '{' {
			json.Unmarshal(v.M, &mm)
		}
		for k, x := range mm {
			m.SetMapIndex(reflect.ValueOf(k), buildVal(*t.E, x, rt.Elem()))
		}
		out.Set(m)
	case "struct":
		for i, f := range t.F {
			out.Field(i).Set(buildVal(f.T, v.F[i], rt.Field(i).Type))
		}
	}
	return out
}

// encodeVal is the inverse of buildVal: the value descriptor of a Go value of the described type.
func encodeVal(t tdesc, v reflect.Value) jm {
	switch t.K {
	case "bool":
		return jm{"k": "bool", "v": v.Bool()}
	case "int8", "int16", "int32", "int64", "int":
		return jm{"k": "int", "v": strconv.FormatInt(v.Int(), 10)}
	case "dur":
		return jm{"k": "dur", "v": strconv.FormatInt(v.Int(), 10)}
	case "uint8", "uint16", "uint32", "uint64", "uint":
		return jm{"k": "uint", "v": strconv.FormatUint(v.Uint(), 10)}
	case "float32", "float64":
		return jm{"k": "float", "v": strconv.FormatFloat(v.Float(), 'g', -1, 64)}
	case "string", "ustr", "uany":
		return jm{"k": "string", "v": v.String()}
	case "re":
		if v.IsNil() {
			return jm{"k": "re", "nil": true}
		}
		return jm{"k": "re", "v": v.Interface().(*regexp.Regexp).String()}
	case "ptr":
		if v.IsNil() {
			return jm{"k": "ptr", "nil": true}
		}
		return jm{"k": "ptr", "p": encodeVal(*t.E, v.Elem())}
	case "slice", "array":
		if t.K == "slice" && v.IsNil() {
			return jm{"k": "slice", "nil": true}
		}
		xs := []interface{}{}
		for i := 0; i < v.Len(); i++ {
			xs = append(xs, encodeVal(*t.E, v.Index(i)))
		}
		return jm{"k": t.K, "xs": xs}
	case "map":
		if v.IsNil() {
			return jm{"k": "map", "nil": true}
		}
		m := jm{}
		for _, k := range v.MapKeys() {
			m[k.String()] = encodeVal(*t.E, v.MapIndex(k))
		}
		return jm{"k": "map", "m": m}
	case "struct":
		fs := []interface{}{}
		for i, f := range t.F {
			fs = append(fs, encodeVal(f.T, v.Field(i)))
		}
		return jm{"k": "struct", "f": fs}
	}
	panic("encode " + t.K)
}

// sameFields: the field values of a struct passed to a failed Unpack are the previous ones.  What is held BY REFERENCE
// (the entries of a map, the elements of a slice, what a pointer points to) may have been written to: there only the
// identity-level facts are compared (nil-ness, length).
func sameFields(t tdesc, a, b reflect.Value) bool {
	switch t.K {
	case "re":
		return eqRegexp(a, b)
	case "ptr":
		return a.IsNil() == b.IsNil()
	case "slice":
		return a.IsNil() == b.IsNil() && a.Len() == b.Len()
	case "map":
		return a.IsNil() == b.IsNil()
	case "array":
		for i := 0; i < a.Len(); i++ {
			if !sameFields(*t.E, a.Index(i), b.Index(i)) {
				return false
			}
		}
		return true
	case "struct":
		for i, f := range t.F {
			if !sameFields(f.T, a.Field(i), b.Field(i)) {
				return false
			}
		}
		return true
	}
	return reflect.DeepEqual(a.Interface(), b.Interface())
}

// annotateSigns adds to every primitive value descriptor its sign ("sg": -1 / 0 / 1; strings: 0 = empty): TLC cannot
// look into the decimal text, and the validators nonzero / required / positive need nothing else.
func annotateSigns(v jm) {
	switch v["k"] {
	case "int", "dur", "uint", "float":
		f, _ := strconv.ParseFloat(fmt.Sprint(v["v"]), 64)
		switch {
		case f < 0:
			v["sg"] = -1
		case f > 0:
			v["sg"] = 1
		default:
			v["sg"] = 0
		}
	case "string":
		if v["v"] == "" {
			v["sg"] = 0
		} else {
			v["sg"] = 1
		}
	}
	if p, ok := v["p"].(jm); ok {
		annotateSigns(p)
	}
	for _, key := range []string{"xs", "f"} {
		if l, ok := v[key].([]interface{}); ok {
			for _, x := range l {
				if m, ok := x.(jm); ok {
					annotateSigns(m)
				}
			}
		}
	}
	if m, ok := v["m"].(jm); ok {
		for _, x := range m {
			if mm, ok := x.(jm); ok {
				annotateSigns(mm)
			}
		}
	}
}

// eqRegexp: two *regexp.Regexp are the same value when both are nil or both have the same source text
func eqRegexp(a, b reflect.Value) bool {
	if a.IsNil() || b.IsNil() {
		return a.IsNil() == b.IsNil()
	}
	return a.Interface().(*regexp.Regexp).String() == b.Interface().(*regexp.Regexp).String()
}

// hasInlineMap: the type holds an `,inline` map somewhere (open finding KF-28: not claimed by the frame events)
func hasInlineMap(t tdesc) bool {
	if t.E != nil && hasInlineMap(*t.E) {
		return true
	}
	for _, f := range t.F {
		if (f.Mode == "inline" && f.T.K == "map") || hasInlineMap(f.T) {
			return true
		}
	}
	return false
}

// eqPack: equality modulo nil ~ empty collections; ignored fields must come back zero.
func eqPack(t tdesc, a, b reflect.Value) bool {
	switch t.K {
	case "re":
		return eqRegexp(a, b)
	case "ptr":
		if a.IsNil() || b.IsNil() {
			return a.IsNil() == b.IsNil()
		}
		return eqPack(*t.E, a.Elem(), b.Elem())
	case "slice", "array":
		if a.Len() != b.Len() {
			return false
		}
		for i := 0; i < a.Len(); i++ {
			if !eqPack(*t.E, a.Index(i), b.Index(i)) {
				return false
			}
		}
		return true
	case "map":
		if a.Len() != b.Len() {
			return false
		}
		for _, k := range a.MapKeys() {
			bv := b.MapIndex(k)
			if !bv.IsValid() || !eqPack(*t.E, a.MapIndex(k), bv) {
				return false
			}
		}
		return true
	case "struct":
		for i, f := range t.F {
			if f.Mode == "ignore" {
				if !b.Field(i).IsZero() {
					return false
				}
				continue
			}
			if !eqPack(f.T, a.Field(i), b.Field(i)) {
				return false
			}
		}
		return true
	}
	return reflect.DeepEqual(a.Interface(), b.Interface())
}

// expected packed tree (PackProto encoding) -> canonical generic value
type packTree struct {
	K string            `json:"k"`
	V json.RawMessage   `json:"v"`
	D json.RawMessage   `json:"d"`
	A []json.RawMessage `json:"a"`
	E *string           `json:"err"`
}

func packReify(raw json.RawMessage) interface{} {
	var t packTree
	json.Unmarshal(raw, &t)
	switch t.K {
	case "nil":
		return nil
	case "bool":
		var b bool
		json.Unmarshal(t.V, &b)
		return "b:" + strconv.FormatBool(b)
	case "num":
		f, _ := strconv.ParseFloat(rawStr(t.V), 64)
		if u, err := strconv.ParseUint(rawStr(t.V), 10, 64); err == nil {
			return "n:" + strconv.FormatUint(u, 10)
		}
		if i, err := strconv.ParseInt(rawStr(t.V), 10, 64); err == nil {
			return "n:" + strconv.FormatInt(i, 10)
		}
		return "n:" + canonFloat(f)
	case "str":
		return "s:" + rawStr(t.V)
	}
	d := map[string]json.RawMessage{}
	if len(t.D) > 0 && t.D[0] == '{' {
		json.Unmarshal(t.D, &d)
	}
	m := map[string]interface{}{}
	for k, v := range d {
		if c := packReify(v); c != nil {
			m[k] = c
		}
	}
	l := []interface{}{}
	for _, e := range t.A {
		l = append(l, packReify(e))
	}
	switch {
	case len(m) == 0 && len(l) == 0:
		return nil
	case len(l) == 0:
		return m
	case len(m) == 0:
		return l
	}
	for i, e := range l {
		if e != nil { // in the map view of a mixed node a nil position is not there, like a nil entry
			m[strconv.Itoa(i)] = e
		}
	}
	return m
}

type packCase struct {
	Ty   tdesc           `json:"ty"`
	Val  vdesc           `json:"val"`
	Tree json.RawMessage `json:"tree"`
	Exp  struct {
		Ideal json.RawMessage `json:"ideal"`
		Alts  []altExp        `json:"alts"`
	} `json:"exp"`
	TagKey    string `json:"tagkey"`    // the key the type's tags are written under ("" = config)
	StructTag string `json:"structtag"` // the StructTag option ("" = not given)
}

type packObs struct {
	Stage string `json:"stage,omitempty"`
	Msg   string `json:"msg,omitempty"`
	back  reflect.Value
	Back  string `json:"back,omitempty"`
	Orig  string `json:"orig,omitempty"`
}

func packReplay(args []string) int {
	fs := flag.NewFlagSet("pack", flag.ExitOnError)
	fs.Int64("seed", 1, "seed")
	fs.Parse(args)
	rep := newReporter("pack")
	sep := ucfg.PathSep(".")
	runCases(func(raw []byte, rep *reporter) {
		var c packCase
		if err := json.Unmarshal(raw, &c); err != nil {
			rep.infra("case: " + err.Error())
			return
		}
		rep.begin(raw)
		rep.nontrivial(raw[:len(raw)/2])
		var o packObs
		var rt reflect.Type
		opts := []ucfg.Option{sep}
		if c.StructTag != "" {
			opts = append(opts, ucfg.StructTag(c.StructTag))
			rep.class("structtag-option")
		}
		if c.TagKey == "" {
			c.TagKey = "config"
		}
		panicked, msg := guard(func() {
			rt = buildTypeTag(c.Ty, c.TagKey)
			v := buildVal(c.Ty, c.Val, rt)
			o.Orig = fmt.Sprintf("%+v", v.Interface())
			cfg, err := ucfg.NewFrom(v.Interface(), opts...)
			if err != nil {
				o.Stage, o.Msg = "pack", err.Error()
				return
			}
			// the intermediate tree must be the one the specification packs
			var m map[string]interface{}
			if err := cfg.Unpack(&m, sep); err != nil {
				o.Stage, o.Msg = "generic-unpack", err.Error()
				return
			}
			var want interface{}
			if r := packReify(c.Tree); r != nil {
				want = r
			}
			if got := canonGo(m); !reflect.DeepEqual(got, want) {
				o.Stage, o.Msg = "tree", fmt.Sprintf("packed tree %v, specification %v", got, want)
				return
			}
			back := reflect.New(rt)
			if err := cfg.Unpack(back.Interface(), opts...); err != nil {
				o.Stage, o.Msg = "typed-unpack", err.Error()
				return
			}
			o.back = back.Elem()
			o.Back = fmt.Sprintf("%+v", back.Elem().Interface())
		})
		if panicked {
			o.Stage, o.Msg = "panic", msg
		}
		eq := func(exp json.RawMessage) bool {
			var e struct {
				Ok  *vdesc `json:"ok"`
				Err string `json:"err"`
			}
			if json.Unmarshal(exp, &e) != nil {
				return false
			}
			if e.Ok == nil {
				return o.Stage == "typed-unpack"
			}
			if o.Stage != "" {
				return false
			}
			ety := c.Ty
			if want := c.StructTag; (want == "" && c.TagKey != "config") || (want != "" && want != c.TagKey) {
				ety = stripTags(c.Ty) // the tags do not count: no field is renamed, inlined or ignored
			}
			return eqPack(ety, buildVal(c.Ty, *e.Ok, rt), o.back)
		}
		rep.class("stage:" + o.Stage)
		rep.classify(raw, c.Exp.Ideal, c.Exp.Alts, eq, func() interface{} { return o }, "roundtrip")
	}, rep)
	return rep.finish()
}

func init() {
	register("pack", &family{replay: packReplay, drive: packDrive})
}

// ---- driver (direction B): random struct types and values; events for Trace_Pack --------------------

type pgen struct {
	rng *rand.Rand
	ctr int
}

var pgenPrims = []string{"bool", "int8", "int16", "int32", "int64", "int", "uint8", "uint16", "uint32", "uint64", "uint", "float32", "float64",
	"string", "dur", "ustr", "uany", "re"}

type jm = map[string]interface{}

func (g *pgen) prim() jm { return jm{"k": pgenPrims[g.rng.Intn(len(pgenPrims))]} }

func (g *pgen) name() string { g.ctr++; return fmt.Sprintf("t%d", g.ctr) }

// strct: 1..4 fields; every tag is unique in the whole type, so no two fields ever name the same or a
// prefix-related setting (that is a separate, expected duplicate error)
func (g *pgen) strct(depth int, top bool) jm {
	n := 1 + g.rng.Intn(3)
	if top {
		n = 1 + g.rng.Intn(4)
	}
	fs := []interface{}{}
	for i := 0; i < n; i++ {
		mode := ""
		var t jm
		switch r := g.rng.Intn(10); {
		case r == 0:
			mode = "ignore"
			t = g.typ(depth-1, "field")
		case r == 1 && depth > 1:
			mode = "inline"
			t = g.strct(depth-1, false)
		default:
			t = g.typ(depth-1, "field")
		}
		tag := []string{}
		if mode == "" {
			if g.rng.Intn(3) == 0 {
				tag = []string{g.name(), g.name()}
			} else {
				tag = []string{g.name()}
			}
		}
		// a validator on every fourth plain primitive field (C04): nonzero / required / positive need only the sign
		val := ""
		if k, _ := t["k"].(string); mode == "" && g.rng.Intn(4) == 0 {
			switch {
			case k == "string":
				val = []string{"nonzero", "required"}[g.rng.Intn(2)]
			case k == "dur" || strings.HasPrefix(k, "int") || strings.HasPrefix(k, "uint") || strings.HasPrefix(k, "float"):
				val = []string{"nonzero", "required", "positive"}[g.rng.Intn(3)]
			}
		}
		fs = append(fs, jm{"n": fmt.Sprintf("F%d", i), "tag": tag, "mode": mode, "t": t, "val": val})
	}
	return jm{"k": "struct", "f": fs}
}

func (g *pgen) typ(depth int, pos string) jm {
	if depth <= 0 || g.rng.Intn(3) == 0 {
		return g.prim()
	}
	for {
		switch g.rng.Intn(6) {
		case 0:
			if pos != "field" {
				continue // pointers only as struct fields (nil pointers inside lists / maps are not claimed)
			}
			if g.rng.Intn(2) == 0 {
				return jm{"k": "ptr", "e": g.prim()}
			}
			return jm{"k": "ptr", "e": g.strct(depth-1, false)}
		case 1:
			return jm{"k": "slice", "e": g.typ(depth-1, "elem")}
		case 2:
			if pos == "mapval" {
				continue // fixed-size arrays directly as map values are not claimed
			}
			return jm{"k": "array", "n": 2, "e": g.typ(depth-1, "elem")}
		case 3:
			return jm{"k": "map", "e": g.typ(depth-1, "mapval")}
		case 4:
			return g.strct(depth-1, false)
		default:
			return g.prim()
		}
	}
}

var pgenInts = map[string][]int64{"int8": {-128, 127, 0, -1, 5}, "int16": {-32768, 32767, 0, 300}, "int32": {math.MinInt32, math.MaxInt32, 0, 70000},
	"int64": {math.MinInt64, math.MaxInt64, 0, -1, 1 << 40}, "int": {math.MinInt64, math.MaxInt64, 0, 42}}
var pgenUints = map[string][]uint64{"uint8": {0, 255, 7}, "uint16": {0, 65535, 256}, "uint32": {0, math.MaxUint32, 65536},
	"uint64": {0, math.MaxUint64, 1 << 63, math.MaxInt64}, "uint": {0, math.MaxUint64, 9}}
var pgenStrs = []string{"", "a$b.c,d{e}", "x y", "é", "0", "true", "[1,2]", "k: v", "ok", " pad\t", "\n"}
var pgenRes = []string{"a.*b", " ^x, $\t", "", "^\\s+key$", "[a-z]{2,3} ", "é|ö"}
var pgenDurs = []string{"1500000000", "0", "60000000000", "-1"}

func (g *pgen) val(t jm) jm {
	k := t["k"].(string)
	switch k {
	case "bool":
		return jm{"k": "bool", "v": g.rng.Intn(2) == 0}
	case "int8", "int16", "int32", "int64", "int":
		p := pgenInts[k]
		return jm{"k": "int", "v": strconv.FormatInt(p[g.rng.Intn(len(p))], 10)}
	case "uint8", "uint16", "uint32", "uint64", "uint":
		p := pgenUints[k]
		return jm{"k": "uint", "v": strconv.FormatUint(p[g.rng.Intn(len(p))], 10)}
	case "float32":
		fs := []float32{0, -1.5, 0.1, math.MaxFloat32, -math.MaxFloat32, math.SmallestNonzeroFloat32, 16777216, float32(g.rng.NormFloat64()), float32(math.Inf(1))}
		return jm{"k": "float", "v": canonFloat(float64(fs[g.rng.Intn(len(fs))]))}
	case "float64":
		fs := []float64{0, -1.5, 0.1, math.MaxFloat64, -math.MaxFloat64, math.SmallestNonzeroFloat64, 1e21, g.rng.NormFloat64() * 1e6, math.Inf(-1), 3.4028235e+38}
		return jm{"k": "float", "v": canonFloat(fs[g.rng.Intn(len(fs))])}
	case "string":
		return jm{"k": "string", "v": pgenStrs[g.rng.Intn(len(pgenStrs))]}
	case "ustr", "uany":
		return jm{"k": "string", "v": []string{"ok", "x y", "é"}[g.rng.Intn(3)]}
	case "dur":
		return jm{"k": "dur", "v": pgenDurs[g.rng.Intn(len(pgenDurs))]}
	case "re":
		return jm{"k": "re", "v": pgenRes[g.rng.Intn(len(pgenRes))]}
	case "ptr":
		if g.rng.Intn(4) == 0 {
			return jm{"k": "ptr", "nil": true}
		}
		return jm{"k": "ptr", "p": g.val(t["e"].(jm))}
	case "slice":
		if g.rng.Intn(5) == 0 {
			return jm{"k": "slice", "nil": true}
		}
		n := g.rng.Intn(4)
		xs := []interface{}{}
		for i := 0; i < n; i++ {
			xs = append(xs, g.val(t["e"].(jm)))
		}
		return jm{"k": "slice", "xs": xs}
	case "array":
		return jm{"k": "array", "xs": []interface{}{g.val(t["e"].(jm)), g.val(t["e"].(jm))}}
	case "map":
		if g.rng.Intn(5) == 0 {
			return jm{"k": "map", "nil": true}
		}
		m := jm{}
		for _, key := range []string{"k", "j", "k k"}[:g.rng.Intn(4)] {
			m[key] = g.val(t["e"].(jm))
		}
		return jm{"k": "map", "m": m}
	case "struct":
		fs := []interface{}{}
		for _, f := range t["f"].([]interface{}) {
			fs = append(fs, g.val(f.(jm)["t"].(jm)))
		}
		return jm{"k": "struct", "f": fs}
	}
	panic("val " + k)
}

// canonTree: canonical generic value (canonGo) -> the specification's tree encoding
func canonTree(v interface{}) jm {
	switch x := v.(type) {
	case nil:
		return jm{"k": "nil"}
	case string:
		switch x[:2] {
		case "s:":
			return jm{"k": "str", "v": x[2:]}
		case "n:":
			return jm{"k": "num", "v": x[2:]}
		default:
			return jm{"k": "bool", "v": x == "b:true"}
		}
	case map[string]interface{}:
		d := jm{}
		for k, e := range x {
			d[k] = canonTree(e)
		}
		return jm{"k": "n", "d": d, "a": []interface{}{}}
	case []interface{}:
		a := []interface{}{}
		for _, e := range x {
			a = append(a, canonTree(e))
		}
		return jm{"k": "n", "d": jm{}, "a": a}
	}
	return jm{"k": "?"}
}

var pgenFaults = []jm{
	{"k": "str", "v": "x"}, {"k": "n", "d": jm{"zz": jm{"k": "num", "v": "1"}}, "a": []interface{}{}}, {"k": "n", "d": jm{}, "a": []interface{}{jm{"k": "num", "v": "1"}}},
	{"k": "num", "v": "300"}, {"k": "num", "v": "-129"}, {"k": "num", "v": "32768"}, {"k": "num", "v": "-2147483649"}, {"k": "num", "v": "9223372036854775808"},
	{"k": "num", "v": "256"}, {"k": "num", "v": "-1"}, {"k": "num", "v": "65536"}, {"k": "num", "v": "4294967296"}, {"k": "num", "v": "1e+39"},
	{"k": "str", "v": "${nope}"}, {"k": "str", "v": "x${nope.deeper}y"}, {"k": "num", "v": "7"}, {"k": "bool", "v": true}, {"k": "str", "v": "bad"}, {"k": "num", "v": "1"},
	{"k": "n", "d": jm{}, "a": []interface{}{jm{"k": "num", "v": "1"}, jm{"k": "num", "v": "2"}, jm{"k": "num", "v": "3"}}},
}

// setAtPath replaces the value at path (names / indices) in generic data; false if the path does not exist
func setAtPath(root interface{}, path []interface{}, nv interface{}) (interface{}, bool) {
	if len(path) == 0 {
		return nv, true
	}
	switch seg := path[0].(type) {
	case string:
		m, ok := root.(map[string]interface{})
		if !ok {
			return root, false
		}
		child, has := m[seg]
		if !has {
			return root, false
		}
		c, ok := setAtPath(child, path[1:], nv)
		m[seg] = c
		return m, ok
	case int:
		l, ok := root.([]interface{})
		if !ok || seg >= len(l) {
			return root, false
		}
		c, ok := setAtPath(l[seg], path[1:], nv)
		l[seg] = c
		return l, ok
	}
	return root, false
}

func packDrive(args []string) int {
	fs := flag.NewFlagSet("pack", flag.ExitOnError)
	seed := fs.Int64("seed", 1, "seed")
	n := fs.Int("n", 1000, "events")
	fs.Parse(args)
	g := &pgen{rng: rand.New(rand.NewSource(*seed))}
	w := json.NewEncoder(os.Stdout)
	w.SetEscapeHTML(false)
	sep := ucfg.PathSep(".")
	for i := 0; i < *n; {
		g.ctr = 0
		tyJ := g.strct(3, true)
		valJ := g.val(tyJ)
		var ty tdesc
		var val vdesc
		tb, _ := json.Marshal(tyJ)
		vb, _ := json.Marshal(valJ)
		if json.Unmarshal(tb, &ty) != nil || json.Unmarshal(vb, &val) != nil {
			return 2
		}
		annotateSigns(valJ)
		ev := jm{"ty": tyJ, "val": valJ}
		var generic map[string]interface{}
		var rt reflect.Type
		panicked, msg := guard(func() {
			rt = buildType(ty)
			v := buildVal(ty, val, rt)
			cfg, err := ucfg.NewFrom(v.Interface(), sep)
			if err != nil {
				ev["tree"], ev["back"] = jm{"k": "nil"}, "pack: "+err.Error()
				return
			}
			if err := cfg.Unpack(&generic, sep); err != nil {
				ev["tree"], ev["back"] = jm{"k": "nil"}, "generic-unpack: "+err.Error()
				return
			}
			ev["tree"] = canonTree(canonGo(generic))
			back := reflect.New(rt)
			if err := cfg.Unpack(back.Interface(), sep); err != nil {
				ev["back"] = "typed-unpack: " + err.Error()
				return
			}
			if eqPack(ty, v, back.Elem()) {
				ev["back"] = "same"
			} else {
				ev["back"] = fmt.Sprintf("differs: %+v -> %+v", v.Interface(), back.Elem().Interface())
			}
		})
		if panicked {
			ev["tree"], ev["back"] = jm{"k": "nil"}, "panic: "+msg
		}
		// the class of the round trip (TLC does not look into texts)
		switch b := fmt.Sprint(ev["back"]); {
		case b == "same":
			ev["backkind"] = "same"
		case strings.HasPrefix(b, "typed-unpack: "):
			ev["backkind"] = "unpack-error"
		default:
			ev["backkind"] = "other"
		}
		// a random setting of the packed configuration, replaced by a random faulty value
		if ev["back"] == "same" && generic != nil {
			var path []interface{}
			var segs []interface{}
			var cur interface{} = map[string]interface{}(generic)
			for {
				var keys []interface{}
				switch x := cur.(type) {
				case map[string]interface{}:
					for _, k := range sortedKeys(x) {
						if canonGo(x[k]) != nil {
							keys = append(keys, k)
						}
					}
				case []interface{}:
					for j := range x {
						keys = append(keys, j)
					}
				}
				if len(keys) == 0 || (len(path) > 0 && g.rng.Intn(3) == 0) {
					break
				}
				k := keys[g.rng.Intn(len(keys))]
				path = append(path, k)
				if s, ok := k.(string); ok {
					segs = append(segs, jm{"n": s})
					cur = cur.(map[string]interface{})[s]
				} else {
					segs = append(segs, jm{"i": k.(int)})
					cur = cur.([]interface{})[k.(int)]
				}
			}
			if len(path) > 0 {
				ft := pgenFaults[g.rng.Intn(len(pgenFaults))]
				fb, _ := json.Marshal(ft)
				faulty, ok := setAtPath(map[string]interface{}(generic), path, faultTreeGo(fb))
				if ok {
					opts := []ucfg.Option{sep, ucfg.VarExp, ucfg.MetaData(ucfg.Meta{Source: "trace.yml"})}
					var o faultObs
					untouched := true
					// (a pre-filled value that does not validate together with the unfaulted configuration would fail for
					// that reason, possibly before the injected fault is reached: such a value is not used)
					pre := val
					for try := 0; try < 6; try++ {
						var cand vdesc
						pb, _ := json.Marshal(g.val(tyJ))
						if json.Unmarshal(pb, &cand) != nil {
							continue
						}
						usable := false
						guard(func() {
							c0, err := ucfg.NewFrom(buildVal(ty, val, rt).Interface(), sep)
							if err != nil {
								return
							}
							t0 := reflect.New(rt)
							t0.Elem().Set(buildVal(ty, cand, rt))
							usable = c0.Unpack(t0.Interface(), sep) == nil
						})
						if usable {
							pre = cand
							break
						}
					}
					panicked, msg := guard(func() {
						cfg, err := ucfg.NewFrom(faulty, opts...)
						if err != nil {
							o = faultObs{Kind: "build", Msg: err.Error()}
							return
						}
						// the target is pre-filled with ANOTHER random value of the type: after a FAILED Unpack it still holds its
						// previous field values (C13; the contents of maps, slices and pointed-to values may differ)
						target := reflect.New(rt)
						target.Elem().Set(buildVal(ty, pre, rt))
						if err := cfg.Unpack(target.Interface(), opts...); err != nil {
							o = observeErr(err)
							untouched = sameFields(ty, buildVal(ty, pre, rt), target.Elem())
						} else {
							o = faultObs{Kind: "ok"}
						}
					})
					if panicked {
						o = faultObs{Kind: "panic", Msg: msg}
					}
					ev["fault"] = jm{"path": segs, "tree": ft, "obs": jm{"kind": o.Kind, "path": o.Path, "source": o.Source, "typed": o.Typed, "msg": o.Msg,
						"untouched": untouched}}
				}
			}
		}
		// C13 (frame): the same configuration - with the settings of a random subset of the top-level fields removed -
		// unpacked into a target pre-filled with a SECOND random value of the type
		if ev["back"] == "same" && !hasInlineMap(ty) {
			oldJ := g.val(tyJ)
			var oldV vdesc
			ob, _ := json.Marshal(oldJ)
			if json.Unmarshal(ob, &oldV) == nil {
				drop := []interface{}{}
				var dropPaths []string
				for fi, f := range ty.F {
					if f.Mode == "" && g.rng.Intn(3) == 0 {
						name := strings.Join(f.Tag, ".")
						if len(f.Tag) == 0 {
							name = strings.ToLower(f.N)
						}
						drop = append(drop, fi+1)
						dropPaths = append(dropPaths, name)
					}
				}
				pol := []string{"default", "default", "append", "prepend", "replace"}[g.rng.Intn(5)]
				uopts := append([]ucfg.Option{sep}, polOption(pol)...)
				fr := jm{"old": oldJ, "drop": drop, "pol": pol}
				panicked, msg := guard(func() {
					cfg, err := ucfg.NewFrom(buildVal(ty, val, rt).Interface(), sep)
					if err != nil {
						fr["err"] = "pack: " + err.Error()
						return
					}
					for _, dp := range dropPaths {
						if _, err := cfg.Remove(dp, -1, sep); err != nil {
							fr["err"] = "remove: " + err.Error()
							return
						}
					}
					target := reflect.New(rt)
					target.Elem().Set(buildVal(ty, oldV, rt))
					if err := cfg.Unpack(target.Interface(), uopts...); err != nil {
						fr["err"] = "unpack: " + err.Error()
						return
					}
					fr["got"] = encodeVal(ty, target.Elem())
				})
				if panicked {
					fr["err"] = "panic: " + msg
				}
				// descriptors as the encoder writes them (number texts in one canonical spelling)
				fr["old"] = encodeVal(ty, buildVal(ty, oldV, rt))
				fr["new"] = encodeVal(ty, buildVal(ty, val, rt))
				for _, key := range []string{"old", "new", "got"} {
					if d, ok := fr[key].(jm); ok {
						annotateSigns(d)
					}
				}
				ev["frame"] = fr
			}
		}
		if w.Encode(ev) != nil {
			return 2
		}
		i++
	}
	return 0
}
