package main

import (
	"encoding/json"
	"flag"
	"fmt"
	"reflect"
	"strconv"
	"strings"
	"time"

	ucfg "github.com/elastic/go-ucfg"
)

// generic type / value descriptors of UcfgPack
type tdesc struct {
	K string  `json:"k"`
	E *tdesc  `json:"e"`
	N int     `json:"n"`
	F []fdesc `json:"f"`
}
type fdesc struct {
	N    string   `json:"n"`
	Tag  []string `json:"tag"`
	Mode string   `json:"mode"`
	T    tdesc    `json:"t"`
}
type vdesc struct {
	K   string          `json:"k"`
	V   json.RawMessage `json:"v"`
	Nil bool            `json:"nil"`
	P   *vdesc          `json:"p"`
	Xs  []vdesc         `json:"xs"`
	M   json.RawMessage `json:"m"`
	F   []vdesc         `json:"f"`
}

var packPrims = map[string]reflect.Type{"bool": reflect.TypeOf(true), "int8": reflect.TypeOf(int8(0)), "int64": reflect.TypeOf(int64(0)),
	"uint64": reflect.TypeOf(uint64(0)), "float64": reflect.TypeOf(float64(0)), "string": reflect.TypeOf(""), "dur": reflect.TypeOf(time.Duration(0)),
	"int16": reflect.TypeOf(int16(0)), "int32": reflect.TypeOf(int32(0)), "int": reflect.TypeOf(int(0)), "uint8": reflect.TypeOf(uint8(0)),
	"uint16": reflect.TypeOf(uint16(0)), "uint32": reflect.TypeOf(uint32(0)), "uint": reflect.TypeOf(uint(0)), "float32": reflect.TypeOf(float32(0))}

func buildType(t tdesc) reflect.Type {
	if p, ok := packPrims[t.K]; ok {
		return p
	}
	switch t.K {
	case "ptr":
		return reflect.PtrTo(buildType(*t.E))
	case "slice":
		return reflect.SliceOf(buildType(*t.E))
	case "array":
		return reflect.ArrayOf(t.N, buildType(*t.E))
	case "map":
		return reflect.MapOf(reflect.TypeOf(""), buildType(*t.E))
	case "struct":
		fs := make([]reflect.StructField, len(t.F))
		for i, f := range t.F {
			tag := strings.Join(f.Tag, ".")
			if f.Mode != "" {
				tag += "," + f.Mode
			}
			fs[i] = reflect.StructField{Name: f.N, Type: buildType(f.T), Tag: reflect.StructTag(fmt.Sprintf(`config:"%s"`, tag))}
		}
		return reflect.StructOf(fs)
	}
	panic("type " + t.K)
}

func rawStr(raw json.RawMessage) string { var s string; json.Unmarshal(raw, &s); return s }

func buildVal(t tdesc, v vdesc, rt reflect.Type) reflect.Value {
	if v.Nil {
		return reflect.Zero(rt)
	}
	out := reflect.New(rt).Elem()
	switch t.K {
	case "bool":
		var b bool
		json.Unmarshal(v.V, &b)
		out.SetBool(b)
	case "int8", "int16", "int32", "int64", "int", "dur":
		n, err := strconv.ParseInt(rawStr(v.V), 10, rt.Bits())
		if err != nil {
			panic("universe: " + err.Error())
		}
		out.SetInt(n)
	case "uint8", "uint16", "uint32", "uint64", "uint":
		n, err := strconv.ParseUint(rawStr(v.V), 10, rt.Bits())
		if err != nil {
			panic("universe: " + err.Error())
		}
		out.SetUint(n)
	case "float32", "float64":
		f, err := strconv.ParseFloat(rawStr(v.V), 64)
		if err != nil || (t.K == "float32" && float64(float32(f)) != f) {
			panic("universe: " + rawStr(v.V) + " is not a " + t.K)
		}
		out.SetFloat(f)
	case "string":
		out.SetString(rawStr(v.V))
	case "ptr":
		p := reflect.New(rt.Elem())
		p.Elem().Set(buildVal(*t.E, *v.P, rt.Elem()))
		out.Set(p)
	case "slice":
		s := reflect.MakeSlice(rt, len(v.Xs), len(v.Xs))
		for i, x := range v.Xs {
			s.Index(i).Set(buildVal(*t.E, x, rt.Elem()))
		}
		out.Set(s)
	case "array":
		for i, x := range v.Xs {
			out.Index(i).Set(buildVal(*t.E, x, rt.Elem()))
		}
	case "map":
		m := reflect.MakeMap(rt)
		mm := map[string]vdesc{}
		if len(v.M) > 0 && v.M[0] == '{' {
			json.Unmarshal(v.M, &mm)
		}
		for k, x := range mm {
			m.SetMapIndex(reflect.ValueOf(k), buildVal(*t.E, x, rt.Elem()))
		}
		out.Set(m)
	case "struct":
		for i, f := range t.F {
			out.Field(i).Set(buildVal(f.T, v.F[i], rt.Field(i).Type))
		}
	}
	return out
}

// eqPack: equality modulo nil ~ empty collections; ignored fields must come back zero.
func eqPack(t tdesc, a, b reflect.Value) bool {
	switch t.K {
	case "ptr":
		if a.IsNil() || b.IsNil() {
			return a.IsNil() == b.IsNil()
		}
		return eqPack(*t.E, a.Elem(), b.Elem())
	case "slice", "array":
		if a.Len() != b.Len() {
			return false
		}
		for i := 0; i < a.Len(); i++ {
			if !eqPack(*t.E, a.Index(i), b.Index(i)) {
				return false
			}
		}
		return true
	case "map":
		if a.Len() != b.Len() {
			return false
		}
		for _, k := range a.MapKeys() {
			bv := b.MapIndex(k)
			if !bv.IsValid() || !eqPack(*t.E, a.MapIndex(k), bv) {
				return false
			}
		}
		return true
	case "struct":
		for i, f := range t.F {
			if f.Mode == "ignore" {
				if !b.Field(i).IsZero() {
					return false
				}
				continue
			}
			if !eqPack(f.T, a.Field(i), b.Field(i)) {
				return false
			}
		}
		return true
	}
	return reflect.DeepEqual(a.Interface(), b.Interface())
}

// expected packed tree (PackProto encoding) -> canonical generic value
type packTree struct {
	K string            `json:"k"`
	V json.RawMessage   `json:"v"`
	D json.RawMessage   `json:"d"`
	A []json.RawMessage `json:"a"`
	E *string           `json:"err"`
}

func packReify(raw json.RawMessage) interface{} {
	var t packTree
	json.Unmarshal(raw, &t)
	switch t.K {
	case "nil":
		return nil
	case "bool":
		var b bool
		json.Unmarshal(t.V, &b)
		return "b:" + strconv.FormatBool(b)
	case "num":
		f, _ := strconv.ParseFloat(rawStr(t.V), 64)
		if u, err := strconv.ParseUint(rawStr(t.V), 10, 64); err == nil {
			return "n:" + strconv.FormatUint(u, 10)
		}
		if i, err := strconv.ParseInt(rawStr(t.V), 10, 64); err == nil {
			return "n:" + strconv.FormatInt(i, 10)
		}
		return "n:" + canonFloat(f)
	case "str":
		return "s:" + rawStr(t.V)
	}
	d := map[string]json.RawMessage{}
	if len(t.D) > 0 && t.D[0] == '{' {
		json.Unmarshal(t.D, &d)
	}
	m := map[string]interface{}{}
	for k, v := range d {
		if c := packReify(v); c != nil {
			m[k] = c
		}
	}
	l := []interface{}{}
	for _, e := range t.A {
		l = append(l, packReify(e))
	}
	switch {
	case len(m) == 0 && len(l) == 0:
		return nil
	case len(l) == 0:
		return m
	case len(m) == 0:
		return l
	}
	for i, e := range l {
		m[strconv.Itoa(i)] = e
	}
	return m
}

type packCase struct {
	Ty   tdesc           `json:"ty"`
	Val  vdesc           `json:"val"`
	Tree json.RawMessage `json:"tree"`
	Exp  struct {
		Ideal json.RawMessage `json:"ideal"`
		Alts  []altExp        `json:"alts"`
	} `json:"exp"`
}

type packObs struct {
	Stage string `json:"stage,omitempty"`
	Msg   string `json:"msg,omitempty"`
	back  reflect.Value
	Back  string `json:"back,omitempty"`
	Orig  string `json:"orig,omitempty"`
}

func packReplay(args []string) int {
	fs := flag.NewFlagSet("pack", flag.ExitOnError)
	fs.Int64("seed", 1, "seed")
	fs.Parse(args)
	rep := newReporter("pack")
	sep := ucfg.PathSep(".")
	runCases(func(raw []byte, rep *reporter) {
		var c packCase
		if err := json.Unmarshal(raw, &c); err != nil {
			rep.infra("case: " + err.Error())
			return
		}
		rep.begin(raw)
		rep.nontrivial(raw[:len(raw)/2])
		var o packObs
		var rt reflect.Type
		panicked, msg := guard(func() {
			rt = buildType(c.Ty)
			v := buildVal(c.Ty, c.Val, rt)
			o.Orig = fmt.Sprintf("%+v", v.Interface())
			cfg, err := ucfg.NewFrom(v.Interface(), sep)
			if err != nil {
				o.Stage, o.Msg = "pack", err.Error()
				return
			}
			// the intermediate tree must be the one the specification packs
			var m map[string]interface{}
			if err := cfg.Unpack(&m, sep); err != nil {
				o.Stage, o.Msg = "generic-unpack", err.Error()
				return
			}
			var want interface{}
			if r := packReify(c.Tree); r != nil {
				want = r
			}
			if got := canonGo(m); !reflect.DeepEqual(got, want) {
				o.Stage, o.Msg = "tree", fmt.Sprintf("packed tree %v, specification %v", got, want)
				return
			}
			back := reflect.New(rt)
			if err := cfg.Unpack(back.Interface(), sep); err != nil {
				o.Stage, o.Msg = "typed-unpack", err.Error()
				return
			}
			o.back = back.Elem()
			o.Back = fmt.Sprintf("%+v", back.Elem().Interface())
		})
		if panicked {
			o.Stage, o.Msg = "panic", msg
		}
		eq := func(exp json.RawMessage) bool {
			var e struct {
				Ok  *vdesc `json:"ok"`
				Err string `json:"err"`
			}
			if json.Unmarshal(exp, &e) != nil {
				return false
			}
			if e.Ok == nil {
				return o.Stage == "typed-unpack"
			}
			if o.Stage != "" {
				return false
			}
			return eqPack(c.Ty, buildVal(c.Ty, *e.Ok, rt), o.back)
		}
		rep.class("stage:" + o.Stage)
		rep.classify(raw, c.Exp.Ideal, c.Exp.Alts, eq, func() interface{} { return o }, "roundtrip")
	}, rep)
	return rep.finish()
}

func init() {
	register("pack", &family{replay: packReplay})
}
