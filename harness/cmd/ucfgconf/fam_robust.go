package main

import (
	"encoding/json"
	"flag"
	"fmt"
	"math"
	"math/rand"
	"reflect"
	"runtime"
	"strings"
	"time"

	ucfg "github.com/elastic/go-ucfg"
	uflag "github.com/elastic/go-ucfg/flag"
	"github.com/elastic/go-ucfg/hjson"
	ujson "github.com/elastic/go-ucfg/json"
	"github.com/elastic/go-ucfg/parse"
	"github.com/elastic/go-ucfg/yaml"
)

// C07: no input makes the library panic, hang or allocate without bound.  The totality of the
// specified transition functions is checked by TLC (NoPanic invariants of MC_Store / Gen_Parse);
// this file is the runtime observer for the inputs quantified in the property: every call runs
// under recover(), calls that may not return run in child processes with a deadline, the number
// of goroutines is compared before and after, and list sizes are compared with MaxIdx.

type robustReq struct {
	Kind string `json:"kind"`
	Text string `json:"text"`
	Cfg  int    `json:"cfg"`
}

var robustParseCfgs = []parse.Config{parse.DefaultConfig, parse.EnvConfig, parse.NoopConfig,
	{Array: true, Object: true, StringDQuote: true, StringSQuote: true, IgnoreCommas: true}, {Array: true}, {StringSQuote: true, IgnoreCommas: true}}

func robustChild(req []byte) interface{} {
	var r robustReq
	if err := json.Unmarshal(req, &r); err != nil {
		return map[string]string{"res": "bad request"}
	}
	res := "ok"
	panicked, msg := guard(func() {
		switch r.Kind {
		case "yaml":
			if c, err := yaml.NewConfig([]byte(r.Text), ucfg.PathSep("."), ucfg.VarExp); err == nil {
				var m interface{}
				c.Unpack(&m)
				c.FlattenedKeys()
			}
		case "json":
			if c, err := ujson.NewConfig([]byte(r.Text), ucfg.PathSep("."), ucfg.VarExp); err == nil {
				var m map[string]interface{}
				c.Unpack(&m)
			}
		case "hjson":
			if c, err := hjson.NewConfig([]byte(r.Text), ucfg.PathSep("."), ucfg.VarExp); err == nil {
				var m map[string]interface{}
				c.Unpack(&m)
			}
		case "flag":
			fv := uflag.NewFlagKeyValue(nil, true, ucfg.PathSep("."), ucfg.VarExp)
			for _, a := range strings.Split(r.Text, "\x00") {
				fv.Set(a)
			}
			_ = fv.String()
			_ = fv.Error()
		case "setidx":
			// setters with an astronomically large idx argument (r.Text: the name, r.Cfg: log2 of the idx)
			c := ucfg.MustNewFrom(map[string]interface{}{"l": []interface{}{1}}, ucfg.PathSep("."))
			idx := 1 << uint(r.Cfg)
			c.SetString(r.Text, idx, "v", ucfg.PathSep("."))
			c.SetInt(r.Text, idx, 1)
			c.SetChild(r.Text, idx, ucfg.New(), ucfg.PathSep("."))
			if n := maxListLenCfg(c, 4); n > 1025 {
				res = fmt.Sprintf("alloc: a list of %d entries was allocated", n)
			}
		case "parse":
			parse.ValueWithConfig(r.Text, robustParseCfgs[r.Cfg%len(robustParseCfgs)])
		case "splice":
			// a string stored as a setting under VarExp, then read in every way
			before := runtime.NumGoroutine()
			c, err := ucfg.NewFrom(map[string]interface{}{"x": r.Text, "a": "1", "b": map[string]interface{}{"c": "${x}"}}, ucfg.PathSep("."), ucfg.VarExp)
			if err == nil {
				o := []ucfg.Option{ucfg.PathSep("."), ucfg.VarExp, ucfg.ResolveEnv}
				c.String("x", -1, o...)
				c.Int("x", -1, o...)
				c.Child("x", -1, o...)
				c.Has("x.y", -1, o...)
				c.CountField("x", o...)
				var m map[string]interface{}
				c.Unpack(&m, o...)
				var st struct {
					X []string `config:"x"`
				}
				c.Unpack(&st, o...)
			}
			for i := 0; i < 50 && runtime.NumGoroutine() > before; i++ {
				time.Sleep(time.Millisecond)
			}
			if n := runtime.NumGoroutine(); n > before {
				res = fmt.Sprintf("goroutine leak: %d -> %d", before, n)
			}
		}
	})
	if panicked {
		res = "panic: " + msg
	}
	return map[string]string{"res": res}
}

var robustDocs = map[string][]string{
	"yaml":  {"a: 1\nb:\n  - x\n  - {c: d}\ne: \"${a}\"\nf.g: [1, 2]\n", "- 1\n- a: b\n  c: [x, y]\n- ~\n", "a: &x {b: 1}\nc: *x\nd: !!str 5\n0: z\n"},
	"json":  {`{"a":1,"b":["x",{"c":"d"}],"e":"${a}","f.g":[1,2],"0":"z"}`, `[1,{"a":"b","c":["x","y"]},null]`, `{"a":{"b":{"c":{"d":[[[1]]]}}},"x":"${a.b}","n":1e400}`},
	"hjson": {"{\n  a: 1\n  b: [x, {c: d}]\n  e: ${a}\n  f.g: [1, 2]\n  # comment\n}", "{a: '''multi\nline''', b: null, 0: z}"},
	"flag":  {"a=1\x00b.c=[1,2]\x00d={e:f}\x00g\x00h=${a}\x00i.0=x", "x=\"q\"\x00y='s',t\x00z.9=1\x00w={a:[1,{b:2}]}"},
}

func mutate(rng *rand.Rand, s string) string {
	b := []byte(s)
	if len(b) == 0 {
		return s
	}
	for k := 1 + rng.Intn(3); k > 0; k-- {
		i := rng.Intn(len(b))
		switch rng.Intn(6) {
		case 0: // drop
			b = append(b[:i], b[i+1:]...)
		case 1: // duplicate
			b = append(b[:i+1], b[i:]...)
		case 2: // swap
			j := rng.Intn(len(b))
			b[i], b[j] = b[j], b[i]
		case 3: // truncate
			b = b[:i]
		case 4: // replace by a special byte
			special := "[]{}:,\"'\\$-0 \n\t#&*!|>%@`\x00\xff"
			b[i] = special[rng.Intn(len(special))]
		default: // insert
			ins := "[]{}:,\"'\\$-9.\n"
			b = append(b[:i], append([]byte{ins[rng.Intn(len(ins))]}, b[i:]...)...)
		}
		if len(b) == 0 {
			break
		}
	}
	return string(b)
}

type weird struct{ C chan int }

func robustFuzz(args []string) int {
	fs := flag.NewFlagSet("robust", flag.ExitOnError)
	seed := fs.Int64("seed", 1, "seed")
	nmut := fs.Int("mutations", 4000, "mutated documents / flag lists")
	spliceLen := fs.Int("splice-len", 5, "all strings up to this length over the expansion alphabet")
	fs.Parse(args)
	rng := rand.New(rand.NewSource(*seed))
	rep := newReporter("robust")
	pool := newIsoPool("robust", 16, 15*time.Second)
	defer pool.close()
	type job struct {
		req robustReq
	}
	jobs := make(chan robustReq, 1024)
	done := make(chan struct{})
	workers := 16
	for w := 0; w < workers; w++ {
		go func() {
			for r := range jobs {
				b, _ := json.Marshal(r)
				rep.begin(b)
				rep.nontrivial(b)
				rep.class("kind:" + r.Kind)
				resp, status := pool.do(b)
				if status != "ok" {
					rep.violate(r.Kind+"-"+status, b, status, "returns", "the call did not return (child process died or exceeded its deadline)")
					continue
				}
				var o struct {
					Res string `json:"res"`
				}
				json.Unmarshal(resp, &o)
				if o.Res != "ok" {
					rep.violate(r.Kind+"-"+strings.SplitN(o.Res, ":", 2)[0], b, o.Res, "a value or an error", "")
					continue
				}
				rep.okIdeal()
			}
			done <- struct{}{}
		}()
	}
	// (1) mutated documents and flag arguments
	for i := 0; i < *nmut; i++ {
		for kind, docs := range robustDocs {
			jobs <- robustReq{Kind: kind, Text: mutate(rng, docs[rng.Intn(len(docs))])}
		}
	}
	// (2) every string up to spliceLen over the expansion alphabet, stored as a setting under VarExp
	alpha := []string{"$", "{", "}", ":", "+", "?", "a", "."}
	var gen func(prefix string, n int)
	gen = func(prefix string, n int) {
		if prefix != "" {
			jobs <- robustReq{Kind: "splice", Text: prefix}
		}
		if n == 0 {
			return
		}
		for _, c := range alpha {
			gen(prefix+c, n-1)
		}
	}
	gen("", *spliceLen)
	// (3) random parse inputs under six parser configurations (beyond the exhaustive short strings of Gen_Parse)
	palpha := "[]{},:\"'\\ \tz9-.ntrue"
	for i := 0; i < *nmut*4; i++ {
		n := 6 + rng.Intn(20)
		b := make([]byte, n)
		for j := range b {
			b[j] = palpha[rng.Intn(len(palpha))]
		}
		jobs <- robustReq{Kind: "parse", Text: string(b), Cfg: rng.Intn(6)}
	}
	// (3b) setters with huge idx arguments, in child processes
	for _, name := range []string{"", "l", "a", "a.b", "l.0"} {
		for _, lg := range []int{21, 31, 32, 40, 62} {
			jobs <- robustReq{Kind: "setidx", Text: name, Cfg: lg}
		}
	}
	close(jobs)
	for w := 0; w < workers; w++ {
		<-done
	}

	// (4) addresses: adversarial (name, idx) on small configs, every getter / setter / Has / Remove / Child
	names := []string{"", "a", "a.b", "a.0", "0", "-1", "a.-1", "-0", "+1", "1025", "9223372036854775807", "-9223372036854775808", "18446744073709551616", "0x10",
		"a..b", ".", "..", "a.", ".a", "l.1", "l.5", "l.x", "p.q", "p.0", "[a.b]", " ", "\x00", "a.b.c.d.e.f", "1e3", "1_0", "é"}
	idxs := []int{-2, -1, 0, 1, 1024, 1025, math.MaxInt32, math.MaxInt32 + 1, 1 << 40, 1 << 62, math.MaxInt64, math.MinInt64}
	mk := func() *ucfg.Config {
		return ucfg.MustNewFrom(map[string]interface{}{"a": map[string]interface{}{"b": 1}, "l": []interface{}{1, map[string]interface{}{"x": 2}}, "p": "s", "n": nil},
			ucfg.PathSep("."))
	}
	optSets := [][]ucfg.Option{{ucfg.PathSep(".")}, {}, {ucfg.PathSep("."), ucfg.EnableNumKeys(true)}, {ucfg.PathSep("."), ucfg.MaxIdx(2)}, {ucfg.PathSep("."), ucfg.EscapePath()}}
	for _, name := range names {
		for _, idx := range idxs {
			for oi, opts := range optSets {
				key, _ := json.Marshal([]interface{}{"addr", name, idx, oi})
				rep.begin(key)
				rep.nontrivial(key)
				rep.class("kind:address")
				var note string
				panicked, msg := guard(func() {
					c := mk()
					c.Bool(name, idx, opts...)
					c.Int(name, idx, opts...)
					c.Uint(name, idx, opts...)
					c.Float(name, idx, opts...)
					c.String(name, idx, opts...)
					c.Child(name, idx, opts...)
					c.Has(name, idx, opts...)
					c.CountField(name, opts...)
					c.Remove(name, idx, opts...)
					// the idx ARGUMENT of a setter is bounded by MaxIdx like an index in a path; astronomically large
					// ones are tried in a child process below (a regression there is 'fatal error: out of memory')
					if idx <= 1<<20 {
						c.SetString(name, idx, "v", opts...)
						c.SetInt(name, idx, 1, opts...)
						c.SetChild(name, idx, ucfg.New(), opts...)
						max := 1025
						if oi == 3 {
							max = 3
						}
						if n := maxListLenCfg(c, 4); n > max {
							note = fmt.Sprintf("a list of %d entries was allocated by a setter with idx %d (MaxIdx+1 = %d)", n, idx, max)
						}
						c.Remove(name, idx, opts...)
					}
					// a nil *Config as the value of SetChild is an error
					c.SetChild(name, idx, nil, opts...)
					// a KEY never allocates beyond MaxIdx+1 entries
					c2 := ucfg.New()
					c2.SetString(name, -1, "v", opts...)
					c3, err := ucfg.NewFrom(map[string]interface{}{name: "v"}, opts...)
					for _, x := range []*ucfg.Config{c2, c3} {
						if x == nil || err != nil {
							continue
						}
						max := 1025
						if oi == 3 {
							max = 3
						}
						if n := maxListLenCfg(x, 4); n > max {
							note = fmt.Sprintf("a list of %d entries was allocated for key %q (MaxIdx+1 = %d)", n, name, max)
						}
					}
				})
				switch {
				case panicked:
					rep.violate("address-panic", key, msg, "a value or an error", "")
				case note != "":
					rep.violate("address-alloc", key, note, "at most MaxIdx+1 entries", "")
				default:
					rep.okIdeal()
				}
			}
		}
	}

	// (5) unpack targets, also unsupported ones: an error, never a panic
	var nilIface interface{}
	var nilMap map[string]interface{}
	var nilPtrMap *map[string]interface{}
	var ch chan int
	var fn func()
	var cx complex128
	var nonStr map[int]string
	var up uintptr
	var arr [2]int
	var pp **struct{ A int }
	var sl []interface{}
	targets := []interface{}{nil, nilIface, &nilIface, nilMap, &nilMap, nilPtrMap, &nilPtrMap, ch, &ch, fn, &fn, cx, &cx, nonStr, &nonStr, up, &up, arr, &arr, pp, &pp,
		sl, &sl, 5, "s", &weird{}, &struct{ A chan int }{}, &struct{ A func() }{}, &struct{ A complex64 }{}, &struct{ A map[int]int }{}, &struct{ A *****int }{},
		&struct{ A [3]string }{}, &struct{ A interface{ M() } }{}, &struct{ A uintptr }{}, &struct{ a int }{}, &struct {
			A map[string]struct{ B chan int }
		}{}, map[string]int{}, &map[string][]int{}, reflect.ValueOf(5), &reflect.Value{}}
	srcs := []interface{}{map[string]interface{}{"a": 1}, map[string]interface{}{"a": map[string]interface{}{"b": []interface{}{1, "x"}}}, []interface{}{1, 2, 3}, map[string]interface{}{}}
	for ti, tgt := range targets {
		for si, src := range srcs {
			key, _ := json.Marshal([]interface{}{"target", ti, fmt.Sprintf("%T", tgt), si})
			rep.begin(key)
			rep.nontrivial(key)
			rep.class("kind:target")
			panicked, msg := guard(func() {
				c, err := ucfg.NewFrom(src, ucfg.PathSep("."))
				if err == nil {
					c.Unpack(tgt)
				}
			})
			if panicked {
				rep.violate("target-panic", key, msg, "an error", fmt.Sprintf("Unpack target %T", tgt))
			} else {
				rep.okIdeal()
			}
		}
	}
	// (6) merge sources of unsupported kinds
	for i, src := range []interface{}{map[string]interface{}{"a": complex(1, 2)}, map[string]interface{}{"a": uintptr(1)}, map[string]interface{}{"a": make(chan int)},
		map[string]interface{}{"a": func() {}}, map[int]int{1: 2}, map[interface{}]interface{}{1: 2}, 5, "x", nil, (*int)(nil), []interface{}{complex(1, 1)},
		struct{ A complex64 }{}, struct {
			A map[bool]int `config:",inline"`
		}{}, struct {
			A int `config:",inline"`
		}{}, &struct{ A *ucfg.Config }{}} {
		key, _ := json.Marshal([]interface{}{"source", i, fmt.Sprintf("%T", src)})
		rep.begin(key)
		rep.nontrivial(key)
		rep.class("kind:source")
		panicked, msg := guard(func() {
			ucfg.NewFrom(src, ucfg.PathSep("."), ucfg.VarExp)
			ucfg.New().Merge(src)
		})
		if panicked {
			rep.violate("source-panic", key, msg, "an error", fmt.Sprintf("Merge source %T", src))
		} else {
			rep.okIdeal()
		}
	}
	return rep.finish()
}

// maxListLenCfg is the longest list reachable in c (public API only).
func maxListLenCfg(c *ucfg.Config, depth int) int {
	n, _ := c.CountField("")
	max := n - len(c.GetFields())
	if depth == 0 {
		return max
	}
	for _, k := range c.GetFields() {
		if ch, err := c.Child(k, -1); err == nil {
			if m := maxListLenCfg(ch, depth-1); m > max {
				max = m
			}
		}
	}
	for i := 0; i < max && i < 4; i++ {
		if ch, err := c.Child("", i); err == nil {
			if m := maxListLenCfg(ch, depth-1); m > max {
				max = m
			}
		}
	}
	return max
}

func init() {
	register("robust", &family{fuzz: robustFuzz})
	registerChild("robust", robustChild)
}
