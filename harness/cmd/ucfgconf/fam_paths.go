package main

import (
	"encoding/json"
	"flag"
	"fmt"
	"math/rand"
	"os"
	"reflect"
	"strconv"
	"strings"

	ucfg "github.com/elastic/go-ucfg"
)

type spelling struct {
	S   string `json:"s"`
	Lit bool   `json:"lit"`
	Val int64  `json:"val"`
}

type pathsCase struct {
	Key     []spelling `json:"key"`
	Pos     string     `json:"pos"`
	MaxIdx  int64      `json:"maxidx"`
	NumKeys bool       `json:"numkeys"`
	IsIndex bool       `json:"isindex"`
	Br      bool       `json:"br"`  // the key is wrapped in [ ]
	Esc     bool       `json:"esc"` // the EscapePath option is given
	Exp     struct {
		Ideal json.RawMessage `json:"ideal"`
		Alts  []altExp        `json:"alts"`
	} `json:"exp"`
}

type pathsOutcome struct {
	Err    string      `json:"err,omitempty"`
	M      interface{} `json:"m"`
	L      interface{} `json:"l"`
	MaxLen int         `json:"maxlen"`
	Read   string      `json:"read,omitempty"`
}

func maxListLen(v interface{}) int {
	n := 0
	switch x := v.(type) {
	case []interface{}:
		n = len(x)
		for _, e := range x {
			if m := maxListLen(e); m > n {
				n = m
			}
		}
	case map[string]interface{}:
		for _, e := range x {
			if m := maxListLen(e); m > n {
				n = m
			}
		}
	}
	return n
}

// checkSpelling verifies the spec's table against strconv (the definition of the syntax).
func checkSpelling(sp spelling) string {
	v, err := strconv.ParseInt(sp.S, 0, 64)
	if (err == nil) != sp.Lit {
		return "table says lit=" + strconv.FormatBool(sp.Lit) + " for " + strconv.Quote(sp.S) + " but strconv disagrees"
	}
	if err == nil {
		c := v
		if c > 100000 {
			c = 100000
		}
		if c < -100000 {
			c = -100000
		}
		if c != sp.Val {
			return "table value for " + strconv.Quote(sp.S) + " is wrong"
		}
	}
	return ""
}

func runPaths(c *pathsCase, variant string) (out pathsOutcome, skipped bool) {
	parts := make([]string, len(c.Key))
	for i, sp := range c.Key {
		parts[i] = sp.S
	}
	key := strings.Join(parts, ".")
	opts := []ucfg.Option{ucfg.PathSep("."), ucfg.MaxIdx(c.MaxIdx), ucfg.EnableNumKeys(c.NumKeys)}
	if c.Br {
		key = "[" + key + "]"
	}
	if c.Esc {
		opts = append(opts, ucfg.EscapePath())
	}
	panicked, msg := guard(func() {
		var cfg *ucfg.Config
		var err error
		switch variant {
		case "map":
			cfg, err = ucfg.NewFrom(map[string]interface{}{key: "v"}, opts...)
		case "tag":
			if key == "" || strings.ContainsAny(key, ",\"`") || strings.HasPrefix(key, ".") {
				skipped = true
				return
			}
			st := reflect.New(reflect.StructOf([]reflect.StructField{{Name: "F", Type: reflect.TypeOf(""),
				Tag: reflect.StructTag(`config:"` + key + `"`)}})).Elem()
			st.Field(0).SetString("v")
			cfg, err = ucfg.NewFrom(st.Interface(), opts...)
		case "setter":
			if key == "" {
				skipped = true // an empty name means "address by idx": the key "" cannot be named in a setter
				return
			}
			cfg = ucfg.New()
			err = cfg.SetString(key, -1, "v", opts...)
		case "setter-idx":
			// name PLUS index: the name keeps its own classification (a numeric single-segment name under
			// EnableNumKeys stays a name), the value becomes the first element of a list there
			if key == "" {
				skipped = true
				return
			}
			cfg = ucfg.New()
			err = cfg.SetString(key, 0, "v", opts...)
		}
		if err != nil {
			out.Err = "error: " + err.Error()
			return
		}
		m, l, err := observeTop(cfg, opts...)
		if err != nil {
			out.Err = "unpack: " + err.Error()
			return
		}
		out.M, out.L = m, l
		out.MaxLen = maxListLen(m)
		if n := maxListLen(l); n > out.MaxLen {
			out.MaxLen = n
		}
		if key == "" {
			return
		}
		// read back through the same spelling, then remove it
		ridx := -1
		if variant == "setter-idx" {
			ridx = 0
		}
		s, err := cfg.String(key, ridx, opts...)
		ok, herr := cfg.Has(key, ridx, opts...)
		switch {
		case err != nil:
			out.Read = "getter failed: " + err.Error()
		case s != "v":
			out.Read = "getter returned " + strconv.Quote(s)
		case herr != nil || !ok:
			out.Read = "Has is false"
		}
		if out.Read == "" {
			if rm, err := cfg.Remove(key, -1, opts...); err != nil || !rm {
				out.Read = "Remove did not find the setting"
			}
		}
	})
	if panicked {
		out = pathsOutcome{Err: "panic", Read: msg}
	}
	return
}

func pathsReplay(args []string) int {
	fs := flag.NewFlagSet("paths", flag.ExitOnError)
	fs.Int64("seed", 1, "seed")
	fs.Parse(args)
	rep := newReporter("paths")
	runCases(func(raw []byte, rep *reporter) {
		var c pathsCase
		if err := json.Unmarshal(raw, &c); err != nil {
			rep.infra("case: " + err.Error())
			return
		}
		rep.begin(raw)
		for _, sp := range c.Key {
			if msg := checkSpelling(sp); msg != "" {
				rep.infra(msg)
				return
			}
		}
		rep.nontrivial(raw[:len(raw)/2])
		rep.class("pos:" + c.Pos)
		if c.IsIndex {
			rep.class("index")
		} else {
			rep.class("name")
		}
		for _, variant := range []string{"map", "tag", "setter", "setter-idx"} {
			out, skipped := runPaths(&c, variant)
			if skipped {
				rep.skip()
				continue
			}
			eq := func(exp json.RawMessage) bool {
				var e struct {
					Ok     *topObs `json:"ok"`
					Err    string  `json:"err"`
					MaxLen int     `json:"maxlen"`
				}
				if json.Unmarshal(exp, &e) != nil {
					return false
				}
				if e.Ok == nil {
					return out.Err == e.Err
				}
				wm, wl := e.Ok.M.canon(), e.Ok.L.canon()
				if variant == "setter-idx" {
					wm, wl = leafToList(wm), leafToList(wl)
				}
				return out.Err == "" && out.Read == "" && reflect.DeepEqual(out.M, wm) && reflect.DeepEqual(out.L, wl)
			}
			if out.Err == "" && int64(out.MaxLen) > c.MaxIdx+1 {
				rep.violate("alloc-bound/"+variant, raw, out, "list length <= MaxIdx+1", "")
				continue
			}
			rep.classify(raw, c.Exp.Ideal, c.Exp.Alts, eq, func() interface{} { return out }, "paths/"+variant)
		}
		// ... and where a LIST is read: a config made from a slice of four entries (alone, or under the name k) is read
		// through the spelling - it addresses an entry iff it is an index under the options of the call; any other
		// spelling is an ordinary name, which a list does not have
		if (c.Pos == "single" || c.Pos == "last") && !c.Br {
			sp := c.Key[len(c.Key)-1]
			if sp.S != "" {
				name := sp.S
				var in interface{} = []interface{}{"e0", "e1", "e2", "e3"}
				if c.Pos == "last" {
					name = "k." + sp.S
					in = map[string]interface{}{"k": in}
				}
				ropts := []ucfg.Option{ucfg.PathSep("."), ucfg.MaxIdx(c.MaxIdx), ucfg.EnableNumKeys(c.NumKeys)}
				if c.Esc {
					ropts = append(ropts, ucfg.EscapePath())
				}
				var got string
				panicked, msg := guard(func() {
					cfg, err := ucfg.NewFrom(in, ucfg.PathSep("."))
					if err != nil {
						got = "build: " + err.Error()
						return
					}
					s, err := cfg.String(name, -1, ropts...)
					has, herr := cfg.Has(name, -1, ropts...)
					switch {
					case err != nil && !has && herr == nil:
						got = "missing"
					case err == nil && has && herr == nil:
						got = s
					default:
						got = fmt.Sprintf("String: %q %v / Has: %v %v", s, err, has, herr)
					}
				})
				if panicked {
					got = "panic: " + msg
				}
				want := "missing"
				if c.IsIndex && sp.Val >= 0 && sp.Val <= 3 {
					want = "e" + strconv.FormatInt(sp.Val, 10)
				}
				if got != want {
					rep.violate("paths/list-read", raw, got, want, "a list entry is addressed exactly by the spellings that are indices under the options of the call")
				} else {
					rep.okIdeal()
					rep.class("list-read:" + map[bool]string{true: "entry", false: "missing"}[want != "missing"])
				}
			}
		}
		// the rule holds where a name is READ, too: a config that holds BOTH a setting NAMED by the spelling (stored
		// under EnableNumKeys) and a list entry at the spelling's value is unpacked into struct{ F string `config:"<spelling>"` }
		// under the case's options (and no path separator): the field receives the list entry iff the spelling is an index
		if c.Pos == "single" && !c.Br && len(c.Key) == 1 {
			sp := c.Key[0]
			tagSafe := sp.S != "" && !strings.ContainsAny(sp.S, ",\"` ")
			if tagSafe && (!c.IsIndex || (sp.Lit && sp.Val >= 0 && sp.Val <= 3)) {
				var got string
				panicked, msg := guard(func() {
					cfg := ucfg.New()
					if err := cfg.SetString(sp.S, -1, "named", ucfg.EnableNumKeys(true)); err != nil {
						got = "build: " + err.Error()
						return
					}
					if sp.Lit && sp.Val >= 0 && sp.Val <= 3 {
						if err := cfg.SetString("", int(sp.Val), "listed"); err != nil {
							got = "build: " + err.Error()
							return
						}
					}
					st := reflect.New(reflect.StructOf([]reflect.StructField{{Name: "F", Type: reflect.TypeOf(""),
						Tag: reflect.StructTag(`config:"` + sp.S + `"`)}}))
					ropts := []ucfg.Option{ucfg.MaxIdx(c.MaxIdx), ucfg.EnableNumKeys(c.NumKeys)}
					if c.Esc {
						ropts = append(ropts, ucfg.EscapePath())
					}
					if err := cfg.Unpack(st.Interface(), ropts...); err != nil {
						got = "unpack: " + err.Error()
						return
					}
					got = st.Elem().Field(0).String()
				})
				if panicked {
					got = "panic: " + msg
				}
				want := "named"
				if c.IsIndex {
					want = "listed"
				}
				if strings.HasPrefix(got, "build: ") {
					rep.skip()
				} else if got != want {
					rep.violate("paths/tag-read", raw, got, want, "a struct tag is an index exactly when the rule says so under the options of the Unpack call")
				} else {
					rep.okIdeal()
					rep.class("tag-read:" + want)
				}
			}
		}
	}, rep)
	return rep.finish()
}

// leafToList replaces the value "v" of an expected observation by the list ["v"] (name + idx 0)
func leafToList(v interface{}) interface{} {
	switch x := v.(type) {
	case string:
		if x == "s:v" {
			return []interface{}{"s:v"}
		}
	case map[string]interface{}:
		m := map[string]interface{}{}
		for k, e := range x {
			m[k] = leafToList(e)
		}
		return m
	case []interface{}:
		l := make([]interface{}, len(x))
		for i, e := range x {
			l[i] = leafToList(e)
		}
		return l
	}
	return v
}

// ---- driver: random integer literals in random syntax ---------------------------------

func randSpelling(rng *rand.Rand) spelling {
	var text string
	switch rng.Intn(12) {
	case 0:
		text = []string{"a", "k1", "x_", "1a", "", " 3", "0x", "1e2", "0b2", "09", "_7", "7_"}[rng.Intn(12)]
	default:
		var v int64
		switch rng.Intn(5) {
		case 0:
			v = int64(rng.Intn(8))
		case 1:
			v = int64(rng.Intn(2000))
		case 2:
			v = rng.Int63()
		case 3:
			v = -int64(rng.Intn(5))
		default:
			v = int64(rng.Intn(40))
		}
		neg := v < 0
		if neg {
			v = -v
		}
		switch rng.Intn(6) {
		case 0:
			text = "0x" + strconv.FormatInt(v, 16)
		case 1:
			text = "0b" + strconv.FormatInt(v, 2)
		case 2:
			text = "0o" + strconv.FormatInt(v, 8)
		case 3:
			text = "0" + strconv.FormatInt(v, 8)
		case 4:
			text = strconv.FormatInt(v, 10)
			if len(text) > 2 {
				text = text[:1] + "_" + text[1:]
			}
		default:
			text = strconv.FormatInt(v, 10)
		}
		if neg {
			text = "-" + text
		} else if rng.Intn(6) == 0 {
			text = "+" + text
		}
		if rng.Intn(10) == 0 {
			text = strings.ToUpper(text)
		}
	}
	sp := spelling{S: text}
	if v, err := strconv.ParseInt(text, 0, 64); err == nil {
		sp.Lit = true
		if v > 100000 {
			v = 100000
		}
		if v < -100000 {
			v = -100000
		}
		sp.Val = v
	}
	return sp
}

func pathsDrive(args []string) int {
	fs := flag.NewFlagSet("paths", flag.ExitOnError)
	seed := fs.Int64("seed", 1, "seed")
	n := fs.Int("n", 1000, "events")
	fs.Parse(args)
	rng := rand.New(rand.NewSource(*seed))
	w := json.NewEncoder(os.Stdout)
	nm := func(s string) spelling { return spelling{S: s} }
	for i := 0; i < *n; i++ {
		sp := randSpelling(rng)
		c := pathsCase{MaxIdx: []int64{0, 1, 3, 7, 40}[rng.Intn(5)], NumKeys: rng.Intn(3) == 0}
		switch rng.Intn(4) {
		case 0:
			c.Key, c.Pos = []spelling{sp}, "single"
		case 1:
			c.Key, c.Pos = []spelling{sp, nm("k")}, "first"
		case 2:
			c.Key, c.Pos = []spelling{nm("k"), sp, randSpelling(rng)}, "middle"
		default:
			c.Key, c.Pos = []spelling{nm("k"), sp}, "last"
		}
		variant := []string{"map", "tag", "setter"}[rng.Intn(3)]
		out, skipped := runPaths(&c, variant)
		if skipped {
			variant = "map"
			out, _ = runPaths(&c, variant)
		}
		ev := map[string]interface{}{"key": c.Key, "maxidx": c.MaxIdx, "numkeys": c.NumKeys, "variant": variant}
		switch {
		case out.Err != "":
			ev["out"] = map[string]interface{}{"err": out.Err}
		case out.Read != "":
			ev["out"] = map[string]interface{}{"err": "read-back: " + out.Read}
		default:
			ev["out"] = map[string]interface{}{"ok": map[string]interface{}{"m": obsJSON(out.M), "l": obsJSON(out.L)}}
		}
		if w.Encode(ev) != nil {
			return 2
		}
	}
	return 0
}

func init() {
	register("paths", &family{replay: pathsReplay, drive: pathsDrive})
}
