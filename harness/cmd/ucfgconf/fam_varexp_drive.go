package main

import (
	"encoding/json"
	"flag"
	"fmt"
	"math/rand"
	"os"
	"sort"
	"strconv"
	"strings"
)

// ---- driver (direction B): random worlds for Trace_VarExp -------------------------------------------

var wdNames = []string{"a", "b", "c", "m", "n.k", "n", "q.k", "a.k"}
var wdSettings = []string{"a", "b", "c", "n.k"}
var wdWords = []string{"x", "y", "p", "d", "boom", "", "w-"}

func wdRandExpr(rng *rand.Rand, depth int, allowAlt bool) *vexpr {
	lit := func() *vexpr { return &vexpr{T: "lit", S: wdWords[rng.Intn(len(wdWords))]} }
	ref := func() *vexpr { return &vexpr{T: "ref", N: wdNames[rng.Intn(len(wdNames))]} }
	nameExpr := func() *vexpr { // the (possibly computed) name an operator tests
		if depth > 1 && rng.Intn(6) == 0 {
			return ref()
		}
		return &vexpr{T: "lit", S: wdNames[rng.Intn(len(wdNames))]}
	}
	if depth == 0 {
		if rng.Intn(2) == 0 {
			return lit()
		}
		return ref()
	}
	switch k := rng.Intn(12); {
	case k < 2:
		return lit()
	case k < 5:
		return ref()
	case k < 7:
		n := 2 + rng.Intn(2)
		e := &vexpr{T: "cat"}
		for i := 0; i < n; i++ {
			p := wdRandExpr(rng, depth-1, allowAlt)
			if p.T == "cat" {
				e.Ps = append(e.Ps, p.Ps...)
				continue
			}
			e.Ps = append(e.Ps, p)
		}
		// no empty literal pieces and no two adjacent literals: the text would render as another expression
		var ps []*vexpr
		for _, p := range e.Ps {
			if p.T == "lit" && p.S == "" {
				continue
			}
			if p.T == "lit" && len(ps) > 0 && ps[len(ps)-1].T == "lit" {
				ps[len(ps)-1] = &vexpr{T: "lit", S: ps[len(ps)-1].S + p.S}
				continue
			}
			ps = append(ps, p)
		}
		if len(ps) == 0 {
			return lit()
		}
		if len(ps) == 1 {
			return ps[0]
		}
		e.Ps = ps
		return e
	case k < 9:
		return &vexpr{T: "def", L: nameExpr(), R: wdRandExpr(rng, depth-1, allowAlt)}
	case k < 10 && allowAlt:
		return &vexpr{T: "alt", L: nameExpr(), R: wdRandExpr(rng, depth-1, allowAlt)}
	case k < 11:
		return &vexpr{T: "err", L: nameExpr(), R: &vexpr{T: "lit", S: []string{"boom", "bang"}[rng.Intn(2)]}}
	default:
		in := wdRandExpr(rng, depth-1, false)
		if in.T == "lit" || in.T == "cat" && func() bool { // a literal name is the plain reference ${name}
			for _, p := range in.Ps {
				if p.T != "lit" {
					return false
				}
			}
			return true
		}() {
			return ref()
		}
		return &vexpr{T: "ind", E: in}
	}
}

// wdRefs: the settings an expression may touch (computed names: all of them)
func wdRefs(e *vexpr, out map[string]bool) {
	all := func() {
		for _, n := range []string{"a", "b", "c", "n.k", "n"} {
			out[n] = true
		}
	}
	base := func(n string) string {
		if n == "a.k" {
			return "a"
		}
		return n
	}
	switch e.T {
	case "ref":
		out[base(e.N)] = true
	case "cat":
		for _, p := range e.Ps {
			wdRefs(p, out)
		}
	case "ind":
		all()
	case "def", "alt", "err":
		if e.L.T == "lit" {
			out[base(e.L.S)] = true
		} else {
			all()
		}
		wdRefs(e.R, out)
	}
}

func wdHasAlt(e *vexpr) bool {
	if e == nil {
		return false
	}
	if e.T == "alt" {
		return true
	}
	for _, p := range e.Ps {
		if wdHasAlt(p) {
			return true
		}
	}
	return wdHasAlt(e.L) || wdHasAlt(e.R) || wdHasAlt(e.E)
}

// wdHasOp: the expression contains an operator (default, alternative, error) or a computed name
func wdHasOp(e *vexpr) bool {
	if e == nil {
		return false
	}
	switch e.T {
	case "def", "alt", "err", "ind":
		return true
	}
	for _, p := range e.Ps {
		if wdHasOp(p) {
			return true
		}
	}
	return false
}

// wdCyclic: the settings form a reference cycle (statically)
func wdCyclic(ex map[string]*vexpr) bool {
	succ := map[string]map[string]bool{"n": {"n.k": true}}
	for n, e := range ex {
		s := map[string]bool{}
		wdRefs(e, s)
		succ[n] = s
	}
	for start := range succ {
		seen := map[string]bool{}
		stack := []string{}
		for s := range succ[start] {
			stack = append(stack, s)
		}
		for len(stack) > 0 {
			x := stack[len(stack)-1]
			stack = stack[:len(stack)-1]
			if x == start {
				return true
			}
			if seen[x] {
				continue
			}
			seen[x] = true
			for s := range succ[x] {
				stack = append(stack, s)
			}
		}
	}
	return false
}

func wdLeaf(e *vexpr) *vtree {
	if e.T == "lit" {
		return &vtree{K: "p", Ty: "s", V: e.S}
	}
	return &vtree{K: "dyn", E: e}
}

func wdExprJSON(e *vexpr) map[string]interface{} {
	switch e.T {
	case "lit":
		return map[string]interface{}{"t": "lit", "s": e.S}
	case "ref":
		return map[string]interface{}{"t": "ref", "n": e.N}
	case "cat":
		ps := []interface{}{}
		for _, p := range e.Ps {
			ps = append(ps, wdExprJSON(p))
		}
		return map[string]interface{}{"t": "cat", "ps": ps}
	case "ind":
		return map[string]interface{}{"t": "ind", "e": wdExprJSON(e.E)}
	}
	return map[string]interface{}{"t": e.T, "l": wdExprJSON(e.L), "r": wdExprJSON(e.R)}
}

func wdTreeJSON(t *vtree) map[string]interface{} {
	switch t.K {
	case "nil":
		return map[string]interface{}{"k": "nil"}
	case "p":
		return map[string]interface{}{"k": "p", "ty": t.Ty, "v": t.V}
	case "dyn":
		return map[string]interface{}{"k": "dyn", "e": wdExprJSON(t.E)}
	}
	d := map[string]interface{}{}
	for k, c := range t.D {
		d[k] = wdTreeJSON(c)
	}
	a := []interface{}{}
	for _, c := range t.A {
		a = append(a, wdTreeJSON(c))
	}
	return map[string]interface{}{"k": "n", "d": d, "a": a}
}

// wdLeaves flattens a canonical typed value into [path, text] pairs (nil and empty containers define none)
func wdLeaves(v interface{}, p string, out *[][2]string) {
	switch x := v.(type) {
	case nil:
	case map[string]interface{}:
		for k, e := range x {
			q := k
			if p != "" {
				q = p + "." + k
			}
			wdLeaves(e, q, out)
		}
	case []interface{}:
		for i, e := range x {
			q := strconv.Itoa(i)
			if p != "" {
				q = p + "." + q
			}
			wdLeaves(e, q, out)
		}
	default:
		s := fmt.Sprint(x)
		if i := strings.Index(s, ":"); i == 1 {
			s = s[2:]
		}
		*out = append(*out, [2]string{p, s})
	}
}

func wdTyped(m map[string]interface{}) map[string]interface{} {
	if e, isErr := m["err"]; isErr {
		return map[string]interface{}{"err": e}
	}
	ls := [][2]string{}
	wdLeaves(m["ok"], "", &ls)
	sort.Slice(ls, func(i, j int) bool { return ls[i][0] < ls[j][0] })
	return map[string]interface{}{"leaves": ls}
}

func varexpDrive(args []string) int {
	fs := flag.NewFlagSet("varexp", flag.ExitOnError)
	seed := fs.Int64("seed", 1, "seed")
	n := fs.Int("n", 500, "events")
	fs.Parse(args)
	rng := rand.New(rand.NewSource(*seed))
	w := json.NewEncoder(os.Stdout)
	envVal := func() *vtree {
		switch rng.Intn(4) {
		case 0:
			return &vtree{K: "dyn", E: &vexpr{T: "ref", N: []string{"a", "b", "m", "c"}[rng.Intn(4)]}}
		case 1:
			return &vtree{K: "dyn", E: &vexpr{T: "cat", Ps: []*vexpr{{T: "lit", S: "v-"}, {T: "ref", N: []string{"b", "m"}[rng.Intn(2)]}}}}
		}
		return &vtree{K: "p", Ty: "s", V: []string{"v1", "v2", "vx"}[rng.Intn(3)]}
	}
	for i := 0; i < *n; i++ {
		ex := map[string]*vexpr{}
		for tries := 0; ; tries++ {
			for _, s := range wdSettings {
				ex[s] = wdRandExpr(rng, 1+rng.Intn(3), true)
			}
			alt := false
			for _, e := range ex {
				alt = alt || wdHasAlt(e)
			}
			// ${x:+y} on a name under evaluation is possible only inside a cycle: such worlds are not generated
			if !alt || !wdCyclic(ex) {
				break
			}
		}
		root := &vtree{K: "n", D: map[string]*vtree{
			"a": wdLeaf(ex["a"]), "b": wdLeaf(ex["b"]), "c": wdLeaf(ex["c"]),
			"n": {K: "n", D: map[string]*vtree{"k": wdLeaf(ex["n.k"])}},
			"l": {K: "n", A: []*vtree{{K: "dyn", E: &vexpr{T: "ref", N: "b"}},
				{K: "n", D: map[string]*vtree{"x": {K: "dyn", E: &vexpr{T: "ref", N: "c"}}}}}},
		}}
		world := &vworld{Root: root}
		var envsJ, resJ []interface{}
		for k := rng.Intn(3); k > 0; k-- {
			e := &vtree{K: "n", D: map[string]*vtree{}}
			for _, key := range []string{"m", "a", "b"} {
				if rng.Intn(2) == 0 {
					e.D[key] = envVal()
				}
			}
			if rng.Intn(3) == 0 {
				e.D["q"] = &vtree{K: "n", D: map[string]*vtree{"k": envVal()}}
			}
			if len(e.D) == 0 {
				e.D["m"] = envVal()
			}
			world.Envs = append(world.Envs, e)
			envsJ = append(envsJ, wdTreeJSON(e))
		}
		for k := rng.Intn(3); k > 0; k-- {
			var r interface{}
			switch rng.Intn(8) {
			case 0:
				r = map[string]interface{}{"kind": "noop"}
			case 1:
				r = map[string]interface{}{"kind": "osenv", "tab": map[string]string{"m": "os-m", "c": ""}}
			default:
				tab := map[string]string{}
				for _, key := range []string{"m", "a", "q.k", "c"} {
					if rng.Intn(2) == 0 {
						tab[key] = []string{"r1", "r2", "", "7", "true"}[rng.Intn(5)]
					}
				}
				r = tab
			}
			raw, _ := json.Marshal(r)
			world.Res = append(world.Res, raw)
			resJ = append(resJ, r)
		}
		if envsJ == nil {
			envsJ = []interface{}{}
		}
		if resJ == nil {
			resJ = []interface{}{}
		}
		var o varObs
		panicked, msg := guard(func() { o = observeWorld(world, false, vworldOpts{Names: varReadNames}) })
		if panicked || o.Build != "" {
			fmt.Fprintf(os.Stderr, "varexp driver: world %d: %s %s\n", i, msg, o.Build)
			return 2
		}
		reads := []interface{}{}
		for _, r := range o.Reads {
			reads = append(reads, map[string]interface{}{"name": r.Name, "str": r.Str, "typed": wdTyped(r.Typed), "has": r.Has})
		}
		unpack := wdTyped(o.Unpack)
		hasOp := false
		for _, e := range ex {
			hasOp = hasOp || wdHasOp(e)
		}
		if hasOp && wdCyclic(ex) {
			// ONE Unpack of a whole config evaluates a setting that lies on a reference cycle both inside the cycle (where
			// an operator sees the re-entered name as a cyclic reference) and outside it, and the per-call cache serves
			// whichever came first: what the operator "should" see there is not fixed by the properties (DESIGN 0.7,
			// limits).  The per-setting reads of these worlds are compared; the whole Unpack is only required to return.
			unpack = map[string]interface{}{"skip": true}
		}
		ev := map[string]interface{}{
			"w":      map[string]interface{}{"root": wdTreeJSON(root), "envs": envsJ, "res": resJ},
			"reads":  reads,
			"unpack": unpack,
		}
		if err := w.Encode(ev); err != nil {
			return 2
		}
	}
	return 0
}
