package main

import (
	"encoding/json"
	"flag"
	"fmt"
	"os"
	"reflect"
	"sort"
	"strconv"
	"strings"
	"sync/atomic"
	"time"

	ucfg "github.com/elastic/go-ucfg"
	"github.com/elastic/go-ucfg/diff"
	"github.com/elastic/go-ucfg/parse"
)

// ---- worlds of UcfgVarExp ---------------------------------------------------------------

// osEnvSet: the process-environment variables the current world's ResolveEnv resolver knows
var osEnvSet = map[string]bool{}

type vexpr struct {
	T  string   `json:"t"`
	S  string   `json:"s,omitempty"`
	N  string   `json:"n,omitempty"`
	Ps []*vexpr `json:"ps,omitempty"`
	L  *vexpr   `json:"l,omitempty"`
	R  *vexpr   `json:"r,omitempty"`
	E  *vexpr   `json:"e,omitempty"`
}

func (e *vexpr) render() string {
	switch e.T {
	case "lit":
		return strings.NewReplacer("$", "$$", "}", "$}").Replace(e.S)
	case "ref":
		return "${" + e.N + "}"
	case "cat":
		var b strings.Builder
		for _, p := range e.Ps {
			b.WriteString(p.render())
		}
		return b.String()
	case "ind":
		return "${" + e.E.render() + "}"
	case "def":
		return "${" + e.L.render() + ":" + e.R.render() + "}"
	case "alt":
		return "${" + e.L.render() + ":+" + e.R.render() + "}"
	case "err":
		return "${" + e.L.render() + ":?" + e.R.render() + "}"
	}
	panic("expr " + e.T)
}

// vtree: a UcfgValues tree whose leaves may be {"k":"dyn","e":expr}
type vtree struct {
	K  string            `json:"k"`
	Ty string            `json:"ty"`
	V  string            `json:"v"`
	E  *vexpr            `json:"e"`
	D  map[string]*vtree `json:"-"`
	A  []*vtree          `json:"-"`
}

func (t *vtree) UnmarshalJSON(b []byte) error {
	var raw struct {
		K  string            `json:"k"`
		Ty string            `json:"ty"`
		V  string            `json:"v"`
		E  *vexpr            `json:"e"`
		D  json.RawMessage   `json:"d"`
		A  []json.RawMessage `json:"a"`
	}
	if err := json.Unmarshal(b, &raw); err != nil {
		return err
	}
	t.K, t.Ty, t.V, t.E = raw.K, raw.Ty, raw.V, raw.E
	if len(raw.D) > 0 && raw.D[0] == '{' {
		if err := json.Unmarshal(raw.D, &t.D); err != nil {
			return err
		}
	}
	for _, e := range raw.A {
		c := &vtree{}
		if err := json.Unmarshal(e, c); err != nil {
			return err
		}
		t.A = append(t.A, c)
	}
	return nil
}

func (t *vtree) toGo() interface{} {
	switch t.K {
	case "nil":
		return nil
	case "p":
		return (&tree{K: "p", Ty: t.Ty, V: t.V}).prim()
	case "dyn":
		return t.E.render()
	}
	if len(t.A) > 0 && len(t.D) == 0 {
		l := make([]interface{}, len(t.A))
		for i, e := range t.A {
			l[i] = e.toGo()
		}
		return l
	}
	m := map[string]interface{}{}
	for k, e := range t.D {
		m[k] = e.toGo()
	}
	for i, e := range t.A { // mixed node: index keys (the worlds are built with a path separator)
		m[strconv.Itoa(i)] = e.toGo()
	}
	return m
}

type vworld struct {
	Root *vtree            `json:"root"`
	Envs []*vtree          `json:"envs"`
	Res  []json.RawMessage `json:"res"`
}

type vworldOpts struct {
	Split  int64    `json:"split"`            // != 0: build the root by two Merge calls over a split of the settings
	Repeat int      `json:"repeat"`           // > 0: create + unpack the whole config this many more times (C09)
	Names  []string `json:"names,omitempty"`  // the settings to read (default: the names of Gen_VarExp's world)
	Fields []vfield `json:"fields,omitempty"` // one Unpack into a struct with these fields (Gen_VarMixed)
	// the Env option is handed a CHILD of every environment tree (a section `zsub` added for the purpose): an environment
	// is the whole tree its argument belongs to, so nothing changes
	EnvChild bool `json:"-"`
}

type vfield struct {
	N string `json:"n"`
	T string `json:"t"` // iface | string | slice
}

func (w *vworld) build(wo vworldOpts) (*ucfg.Config, []ucfg.Option, error) {
	base := []ucfg.Option{ucfg.PathSep("."), ucfg.VarExp}
	var c *ucfg.Config
	var err error
	for k := range osEnvSet { // the process environment of the previous world
		os.Unsetenv(k)
		delete(osEnvSet, k)
	}
	if wo.Split == 0 {
		c, err = ucfg.NewFrom(w.Root.toGo(), base...)
	} else {
		// late binding: references observe values merged in later (or earlier)
		full := w.Root.toGo().(map[string]interface{})
		keys := sortedKeys(full)
		part := [2]map[string]interface{}{{}, {}}
		for i, k := range keys {
			part[(wo.Split>>uint(i))&1][k] = full[k]
		}
		first := int((wo.Split >> 8) & 1)
		c = ucfg.New()
		if err = c.Merge(part[first], base...); err == nil {
			err = c.Merge(part[1-first], base...)
		}
	}
	if err != nil {
		return nil, nil, err
	}
	opts := append([]ucfg.Option{}, base...)
	for _, e := range w.Envs {
		eg := e.toGo()
		if em, isMap := eg.(map[string]interface{}); isMap && wo.EnvChild {
			em["zsub"] = map[string]interface{}{"zq": "1"}
		}
		ec, err := ucfg.NewFrom(eg, base...)
		if err != nil {
			return nil, nil, err
		}
		if _, isMap := eg.(map[string]interface{}); isMap && wo.EnvChild {
			if ec, err = ec.Child("zsub", -1); err != nil {
				return nil, nil, err
			}
		}
		opts = append(opts, ucfg.Env(ec))
	}
	for _, raw := range w.Res {
		known := map[string]string{}
		if len(raw) > 0 && raw[0] == '{' {
			// the two built-in resolvers: {"kind":"noop"} and {"kind":"osenv","tab":{name: text}}
			var kinded struct {
				Kind string            `json:"kind"`
				Tab  map[string]string `json:"tab"`
			}
			if json.Unmarshal(raw, &kinded) == nil && kinded.Kind != "" {
				switch kinded.Kind {
				case "noop":
					opts = append(opts, ucfg.ResolveNOOP)
				case "osenv":
					for k, v := range kinded.Tab {
						os.Setenv(k, v)
						osEnvSet[k] = true
					}
					opts = append(opts, ucfg.ResolveEnv)
				default:
					return nil, nil, fmt.Errorf("unknown resolver kind %q", kinded.Kind)
				}
				continue
			}
			json.Unmarshal(raw, &known)
		}
		opts = append(opts, ucfg.Resolve(func(name string) (string, parse.Config, error) {
			if v, ok := known[name]; ok {
				return v, parse.DefaultConfig, nil
			}
			return "", parse.DefaultConfig, ucfg.ErrMissing
		}))
	}
	return c, opts, nil
}

// varErrClass maps an error of a read to the spec's classes.
func varErrClass(err error) string {
	var last error = err
	for i := 0; i < 8; i++ {
		e, ok := last.(ucfg.Error)
		if !ok || e.Reason() == nil {
			break
		}
		switch e.Reason() {
		case ucfg.ErrCyclicReference:
			return "cyclic"
		case ucfg.ErrMissing:
			return "missing"
		case ucfg.ErrTypeMismatch:
			return "type"
		case ucfg.ErrExpectedObject:
			return "object"
		}
		last = e.Reason()
	}
	msg := last.Error()
	switch {
	case strings.Contains(err.Error(), "cyclic reference"):
		return "cyclic"
	case strings.HasPrefix(msg, "can not resolve reference"):
		return "unresolved"
	case strings.Contains(msg, "missing field") || strings.Contains(msg, "missing"):
		return "missing"
	}
	return "custom:" + msg
}

type readObs struct {
	Name string                 `json:"name"`
	SF   map[string]interface{} `json:"sf"` // Unpack into a string-typed struct field (the value is evaluated twice in one call)
	Str  map[string]interface{} `json:"str"`
	// String() of a top-level name by a reader that passes NO path separator: the names inside the expressions were
	// split when the setting was created, the reader's separator only applies to the name it asks for
	StrNoSep map[string]interface{} `json:"str_nosep,omitempty"`
	Typed    map[string]interface{} `json:"typed"`
	Has      map[string]interface{} `json:"has"`
}

type varObs struct {
	Build  string                 `json:"build,omitempty"`
	Reads  []readObs              `json:"reads"`
	Unpack map[string]interface{} `json:"unpack"`
	// one Unpack into a struct with several fields (wo.Fields): the canonical field values, or the error class
	Struct map[string]interface{} `json:"struct,omitempty"`
	// the distinct outcomes of the repeated create + Unpack (C09: there must be exactly one)
	UnpackAll []map[string]interface{} `json:"unpack_all,omitempty"`
	Flat      string                   `json:"flat"`
	Extra     string                   `json:"extra,omitempty"`
	// a read that differs when the Env option is given a child of the environment tree instead of its root
	EnvChild string `json:"env_child,omitempty"`
}

var varReadNames = []string{"a", "b", "c", "n.k", "n", "m", "l.0", "l.1.x"}

// observeWorld performs every read of one case.  It runs inside a child process.
func observeWorld(w *vworld, withFlat bool, wo vworldOpts) (o varObs) {
	names := varReadNames
	if len(wo.Names) > 0 {
		names = wo.Names
	}
	c, opts, err := w.build(wo)
	if err != nil {
		o.Build = err.Error()
		return
	}
	for _, n := range names {
		r := readObs{Name: n}
		if s, err := c.String(n, -1, opts...); err != nil {
			r.Str = map[string]interface{}{"err": varErrClass(err)}
		} else {
			r.Str = map[string]interface{}{"ok": s}
		}
		if !strings.Contains(n, ".") {
			if s, err := c.String(n, -1, opts[1:]...); err != nil { // opts[0] is the separator
				r.StrNoSep = map[string]interface{}{"err": varErrClass(err)}
			} else {
				r.StrNoSep = map[string]interface{}{"ok": s}
			}
		}
		st := reflect.New(reflect.StructOf([]reflect.StructField{{Name: "F", Type: tIface,
			Tag: reflect.StructTag(`config:"` + n + `"`)}}))
		if err := c.Unpack(st.Interface(), opts...); err != nil {
			r.Typed = map[string]interface{}{"err": varErrClass(err)}
		} else {
			r.Typed = map[string]interface{}{"ok": canonGo(st.Elem().Field(0).Interface())}
		}
		sf := reflect.New(reflect.StructOf([]reflect.StructField{{Name: "F", Type: reflect.TypeOf(""),
			Tag: reflect.StructTag(`config:"` + n + `"`)}}))
		if err := c.Unpack(sf.Interface(), opts...); err != nil {
			r.SF = map[string]interface{}{"err": varErrClass(err)}
		} else {
			r.SF = map[string]interface{}{"ok": sf.Elem().Field(0).String()}
		}
		if ok, err := c.Has(n, -1, opts...); err != nil {
			r.Has = map[string]interface{}{"err": varErrClass(err)}
		} else {
			r.Has = map[string]interface{}{"ok": ok}
		}
		// further read entry points: they must return
		c.CountField(n, opts...)
		c.Child(n, -1, opts...)
		o.Reads = append(o.Reads, r)
	}
	if len(w.Envs) > 0 && wo.Split == 0 {
		wc := wo
		wc.EnvChild = true
		if c2, opts2, err := w.build(wc); err != nil {
			o.EnvChild = "build: " + err.Error()
		} else {
			for i, n := range names {
				var got map[string]interface{}
				if s, err := c2.String(n, -1, opts2...); err != nil {
					got = map[string]interface{}{"err": varErrClass(err)}
				} else {
					got = map[string]interface{}{"ok": s}
				}
				if !reflect.DeepEqual(got, o.Reads[i].Str) && o.EnvChild == "" {
					o.EnvChild = fmt.Sprintf("String(%q) = %v with Env(child of the tree), %v with Env(root of the tree)", n, got, o.Reads[i].Str)
				}
			}
		}
	}
	unpackWhole := func(c *ucfg.Config, opts []ucfg.Option) map[string]interface{} {
		var m map[string]interface{}
		if err := c.Unpack(&m, opts...); err != nil {
			return map[string]interface{}{"err": varErrClass(err)}
		}
		return map[string]interface{}{"ok": canonGo(m)}
	}
	o.Unpack = unpackWhole(c, opts)
	if wo.Repeat > 0 {
		// the runtime enumerates the dictionaries in a fresh random order on every traversal
		seen := map[string]bool{}
		add := func(r map[string]interface{}) {
			b, _ := json.Marshal(r)
			if !seen[string(b)] {
				seen[string(b)] = true
				o.UnpackAll = append(o.UnpackAll, r)
			}
		}
		add(o.Unpack)
		for i := 0; i < wo.Repeat; i++ {
			c2, opts2, err := w.build(wo)
			if err != nil {
				add(map[string]interface{}{"err": "build: " + err.Error()})
				continue
			}
			add(unpackWhole(c2, opts2))
			add(unpackWhole(c, opts))
		}
	}
	if len(wo.Fields) > 0 {
		var sf []reflect.StructField
		for i, f := range wo.Fields {
			t := tIface
			switch f.T {
			case "string":
				t = reflect.TypeOf("")
			case "slice":
				t = reflect.SliceOf(tIface)
			case "duration":
				t = reflect.TypeOf(time.Duration(0))
			}
			sf = append(sf, reflect.StructField{Name: "F" + strconv.Itoa(i), Type: t, Tag: reflect.StructTag(`config:"` + f.N + `"`)})
		}
		st := reflect.New(reflect.StructOf(sf))
		if err := c.Unpack(st.Interface(), opts...); err != nil {
			o.Struct = map[string]interface{}{"err": varErrClass(err)}
		} else {
			vals := make([]interface{}, len(sf))
			for i := range sf {
				if d, isDur := st.Elem().Field(i).Interface().(time.Duration); isDur {
					vals[i] = "duration:" + d.String()
					continue
				}
				vals[i] = canonGo(st.Elem().Field(i).Interface())
			}
			o.Struct = map[string]interface{}{"ok": vals}
		}
	}
	if withFlat {
		c.FlattenedKeys(opts...)
		diff.CompareConfigs(c, c, opts...)
		o.Flat = "returns"
	}
	return
}

type varReq struct {
	W    *vworld `json:"w"`
	Flat bool    `json:"flat"`
	Rec  bool    `json:"rec"` // only: Unpack of n into a recursive struct type
	vworldOpts
}

// recT: a recursive target type for the setting n = {k: ...}
type recT struct {
	K *recT `config:"k"`
}

func varChild(req []byte) interface{} {
	var r varReq
	if err := json.Unmarshal(req, &r); err != nil {
		return map[string]string{"build": "bad request: " + err.Error()}
	}
	var o varObs
	if r.Rec {
		c, opts, err := r.W.build(r.vworldOpts)
		if err != nil {
			return varObs{Build: err.Error()}
		}
		var t struct {
			N recT `config:"n"`
		}
		c.Unpack(&t, opts...) // must RETURN; what it returns is compared by the other reads
		return varObs{Extra: "rec-returned"}
	}
	panicked, msg := guard(func() { o = observeWorld(r.W, r.Flat, r.vworldOpts) })
	if panicked {
		return varObs{Build: "panic: " + msg}
	}
	return o
}

type expBlock struct {
	Ideal json.RawMessage `json:"ideal"`
	Alts  []altExp        `json:"alts"`
}

type varCase struct {
	W     json.RawMessage `json:"w"`
	Amb   bool            `json:"amb"`
	Cyc   bool            `json:"cyc"`
	Reads []struct {
		Name  string   `json:"name"`
		Str   expBlock `json:"str"`
		Typed expBlock `json:"typed"`
		Has   expBlock `json:"has"`
	} `json:"reads"`
	Unpack    expBlock  `json:"unpack"`
	Flat      expBlock  `json:"flat"`
	Fields    []vfield  `json:"fields"`
	Struct    *expBlock `json:"struct"`
	NodeCycle bool      `json:"nodecycle"`
	Rec       *expBlock `json:"rec"`
}

func eqText(got map[string]interface{}) func(json.RawMessage) bool {
	return func(exp json.RawMessage) bool {
		var e struct {
			Ok  *string `json:"ok"`
			Err string  `json:"err"`
		}
		if json.Unmarshal(exp, &e) != nil {
			return false
		}
		if e.Ok != nil {
			s, ok := got["ok"].(string)
			return ok && s == *e.Ok
		}
		g, _ := got["err"].(string)
		return g == e.Err
	}
}

func eqTyped(got map[string]interface{}) func(json.RawMessage) bool {
	return func(exp json.RawMessage) bool {
		var e struct {
			Ok   *obs     `json:"ok"`
			Err  string   `json:"err"`
			Errs []string `json:"errs"`
		}
		if json.Unmarshal(exp, &e) != nil {
			return false
		}
		if e.Ok != nil {
			v, has := got["ok"]
			if !has {
				return false
			}
			return reflect.DeepEqual(stripTypes(v), stripTypes(e.Ok.canon()))
		}
		g, isErr := got["err"].(string)
		if !isErr {
			return false
		}
		if e.Err == "any" || len(e.Errs) > 0 {
			for _, x := range e.Errs {
				if x == g || x == "any" {
					return true
				}
			}
			return false
		}
		return g == e.Err
	}
}

// stripTypes drops the type prefix of string-typed leaves: the text a splice produces is
// re-parsed by the value parser, which is C17's business, not this family's.
func stripTypes(v interface{}) interface{} {
	switch x := v.(type) {
	case string:
		if i := strings.Index(x, ":"); i == 1 {
			return x[2:]
		}
		return x
	case map[string]interface{}:
		m := map[string]interface{}{}
		for k, e := range x {
			m[k] = stripTypes(e)
		}
		return m
	case []interface{}:
		l := make([]interface{}, len(x))
		for i, e := range x {
			l[i] = stripTypes(e)
		}
		return l
	}
	return v
}

func eqHas(got map[string]interface{}) func(json.RawMessage) bool {
	return func(exp json.RawMessage) bool {
		var e struct {
			Ok  *bool  `json:"ok"`
			Err string `json:"err"`
		}
		if json.Unmarshal(exp, &e) != nil {
			return false
		}
		if e.Ok != nil {
			b, ok := got["ok"].(bool)
			return ok && b == *e.Ok
		}
		_, isErr := got["err"]
		return isErr
	}
}

func expectsOverflow(b expBlock) bool {
	var s string
	for _, a := range b.Alts {
		if json.Unmarshal(a.Out, &s) == nil && s == "overflow" {
			return true
		}
	}
	json.Unmarshal(b.Ideal, &s)
	return s == "overflow"
}

func varReplay(args []string) int {
	fs := flag.NewFlagSet("varexp", flag.ExitOnError)
	seed := fs.Int64("seed", 1, "seed")
	splitMerge := fs.Bool("split-merge", false, "build every world by two Merge calls (late binding)")
	every := fs.Int("every", 1, "use every n-th world only")
	repeat := fs.Int("repeat", 0, "create + unpack the whole config this many more times and demand one outcome (C09)")
	fs.Parse(args)
	rep := newReporter("varexp")
	pool := newIsoPool("varexp", 24, 20*time.Second)
	defer pool.close()
	var nth int64
	runCases(func(raw []byte, rep *reporter) {
		var c varCase
		if err := json.Unmarshal(raw, &c); err != nil {
			rep.infra("case: " + err.Error())
			return
		}
		if atomic.AddInt64(&nth, 1)%int64(*every) != 0 {
			return
		}
		rep.begin(raw)
		rep.nontrivial(c.W)
		// one child request does every read; when the child dies the reads are repeated without
		// FlattenedKeys/CompareConfigs so that the crash is attributed to the right entry point
		var names []string
		for _, r := range c.Reads {
			names = append(names, r.Name)
		}
		oneShot := !expectsOverflow(c.Flat)
		split := int64(0)
		if *splitMerge {
			h := int64(0)
			for _, ch := range c.W {
				h = h*131 + int64(ch)
			}
			split = ((h ^ *seed) & 0x1ff) | 0x200
		}
		req, _ := json.Marshal(map[string]interface{}{"w": c.W, "flat": oneShot, "split": split, "repeat": *repeat, "names": names, "fields": c.Fields})
		resp, status := pool.do(req)
		flatStatus := status
		if status != "ok" && oneShot {
			req, _ = json.Marshal(map[string]interface{}{"w": c.W, "flat": false, "split": split, "repeat": *repeat, "names": names, "fields": c.Fields})
			resp, status = pool.do(req)
		}
		if status != "ok" {
			rep.violate("reads-"+status, raw, status, "every read returns", "a read entry point (String/Unpack/Has/CountField/Child) did not return")
			return
		}
		var o varObs
		if err := json.Unmarshal(resp, &o); err != nil || o.Build != "" {
			rep.violate("build", raw, string(resp), "the configuration is accepted", "")
			return
		}
		if o.EnvChild != "" {
			rep.violate("env-given-as-child", raw, o.EnvChild, "an environment is the whole tree the Env option's argument belongs to", "")
			return
		}
		if c.Amb {
			// ${x:+..} on a name under evaluation: only termination is decided (see Gen_VarExp)
			rep.skip()
			rep.class("ambiguous-alt-on-active-name")
		}
		ok := true
		for i, r := range c.Reads {
			if c.Amb {
				break
			}
			if i >= len(o.Reads) {
				break
			}
			g := o.Reads[i]
			ok = rep.classify(raw, r.Str.Ideal, r.Str.Alts, eqText(g.Str), func() interface{} {
				return map[string]interface{}{"String": r.Name, "got": g.Str}
			}, "string") && ok
			if g.StrNoSep != nil {
				ok = rep.classify(raw, r.Str.Ideal, r.Str.Alts, eqText(g.StrNoSep), func() interface{} {
					return map[string]interface{}{"String, reader without PathSep": r.Name, "got": g.StrNoSep}
				}, "string-reader-without-separator") && ok
			}
			// a string-typed field: the text String() gives; an absent setting leaves the field ""; a
			// sub-config is an error (of whatever class)
			sfEq := func(exp json.RawMessage) bool {
				var e struct {
					Ok  *string `json:"ok"`
					Err string  `json:"err"`
				}
				if json.Unmarshal(exp, &e) != nil {
					return false
				}
				if e.Ok != nil {
					s, isOk := g.SF["ok"].(string)
					return isOk && s == *e.Ok
				}
				if e.Err == "missing" {
					if s, isOk := g.SF["ok"].(string); isOk {
						return s == "" && r.Name == "m" // the only absent NAME of the universe: the field is left alone
					}
				}
				ge, isErr := g.SF["err"].(string)
				return isErr && (ge == e.Err || e.Err == "type" || e.Err == "object")
			}
			ok = rep.classify(raw, r.Str.Ideal, r.Str.Alts, sfEq, func() interface{} {
				return map[string]interface{}{"Unpack string field": r.Name, "got": g.SF}
			}, "string-field") && ok
			ok = rep.classify(raw, r.Typed.Ideal, r.Typed.Alts, eqTyped(g.Typed), func() interface{} {
				return map[string]interface{}{"Unpack field": r.Name, "got": g.Typed}
			}, "typed") && ok
			ok = rep.classify(raw, r.Has.Ideal, r.Has.Alts, eqHas(g.Has), func() interface{} {
				return map[string]interface{}{"Has": r.Name, "got": g.Has}
			}, "has") && ok
		}
		// Unpack of the whole config: the per-call cache is shared between the fields, and the fields are
		// visited in the runtime's map order - the result must nevertheless be the per-setting one (C09)
		if c.Cyc {
			rep.class("whole-unpack(cyclic world)")
		}
		if !c.Amb {
			rep.classify(raw, c.Unpack.Ideal, c.Unpack.Alts, eqTyped(o.Unpack), func() interface{} {
				return map[string]interface{}{"Unpack": "whole config", "got": o.Unpack}
			}, "unpack")
		}
		if c.Struct != nil && !c.Amb {
			eqStruct := func(exp json.RawMessage) bool {
				var e struct {
					Ok []struct {
						Ok *obs `json:"ok"`
					} `json:"ok"`
					Err  string   `json:"err"`
					Errs []string `json:"errs"`
					Per  []struct {
						Ok   *obs     `json:"ok"`
						Err  string   `json:"err"`
						Errs []string `json:"errs"`
					} `json:"per"`
				}
				if json.Unmarshal(exp, &e) != nil {
					return false
				}
				if len(e.Per) > 0 {
					// per-field results: Unpack visits the fields in declaration order and stops at the first
					// failing one; a time.Duration field takes the text of its setting as a duration (C03) and
					// a text that is none fails at that field
					e.Ok = nil
					for i, f := range e.Per {
						g, isErr := o.Struct["err"].(string)
						if f.Err != "" {
							if !isErr {
								return false
							}
							for _, x := range f.Errs {
								if x == g || x == "any" {
									return true
								}
							}
							return false
						}
						if c.Fields[i].T == "duration" && f.Ok != nil {
							txt, isStr := stripTypes(f.Ok.canon()).(string)
							if !isStr {
								return false // the universe holds texts only
							}
							if _, perr := time.ParseDuration(txt); perr != nil {
								return isErr && strings.Contains(g, "duration")
							}
						}
						e.Ok = append(e.Ok, struct {
							Ok *obs `json:"ok"`
						}{f.Ok})
					}
				}
				if e.Err != "" {
					g, isErr := o.Struct["err"].(string)
					if !isErr {
						return false
					}
					for _, x := range e.Errs {
						if x == g || x == "any" {
							return true
						}
					}
					return false
				}
				vals, isOk := o.Struct["ok"].([]interface{})
				if !isOk || len(vals) != len(e.Ok) {
					return false
				}
				for i, w := range e.Ok {
					var want interface{}
					if w.Ok != nil {
						want = w.Ok.canon()
					}
					if c.Fields[i].T == "duration" {
						d := time.Duration(0)
						if want != nil {
							d, _ = time.ParseDuration(stripTypes(want).(string))
						}
						if vals[i] != "duration:"+d.String() {
							return false
						}
						continue
					}
					if c.Fields[i].T == "slice" && want != nil {
						if _, isList := want.([]interface{}); !isList {
							want = []interface{}{want} // a single value unpacks into a slice of one
						}
					}
					if !reflect.DeepEqual(stripTypes(vals[i]), stripTypes(want)) {
						return false
					}
				}
				return true
			}
			rep.classify(raw, c.Struct.Ideal, c.Struct.Alts, eqStruct, func() interface{} {
				return map[string]interface{}{"Unpack": "struct with several fields", "fields": c.Fields, "got": o.Struct}
			}, "struct")
		}
		// C09: create + Unpack is a function of its arguments (also in ambiguous worlds: whatever
		// ${x:+y} on an active name means, it means the same every time)
		if len(o.UnpackAll) > 1 {
			rep.violate("unpack-order", raw, o.UnpackAll, "one outcome for every repetition of create + Unpack",
				"the outcome of Unpack depends on the order in which the runtime enumerates the settings")
		} else if *repeat > 0 {
			rep.class("unpack-repeated-one-outcome")
		}
		// Unpack of n into a recursive struct type, where n.k leads back to n: in its own child request
		if c.Rec != nil && c.NodeCycle {
			req, _ := json.Marshal(map[string]interface{}{"w": c.W, "rec": true, "split": split})
			_, st := pool.do(req)
			rec := "returns"
			if st != "ok" {
				rec = "overflow"
				rep.class("recursive-target-" + st)
			}
			rep.classify(raw, c.Rec.Ideal, c.Rec.Alts, func(exp json.RawMessage) bool {
				var s string
				return json.Unmarshal(exp, &s) == nil && s == rec
			}, func() interface{} { return map[string]string{"Unpack of n into a recursive struct type": rec} }, "recursive-target")
		}
		// FlattenedKeys + CompareConfigs
		if !oneShot {
			req, _ = json.Marshal(map[string]interface{}{"w": c.W, "flat": true, "split": split, "names": names})
			_, flatStatus = pool.do(req)
		}
		flat := "returns"
		if flatStatus != "ok" {
			flat = "overflow"
			rep.class("flatten-" + flatStatus)
		}
		rep.classify(raw, c.Flat.Ideal, c.Flat.Alts, func(exp json.RawMessage) bool {
			var s string
			return json.Unmarshal(exp, &s) == nil && s == flat
		}, func() interface{} { return map[string]string{"FlattenedKeys/CompareConfigs": flat} }, "flatten")
	}, rep)
	return rep.finish()
}

func sortedKeys(m map[string]interface{}) []string {
	var ks []string
	for k := range m {
		ks = append(ks, k)
	}
	sort.Strings(ks)
	return ks
}

func init() {
	register("varexp", &family{replay: varReplay, drive: varexpDrive})
	registerChild("varexp", varChild)
}
