package main

import (
	"encoding/json"
	"errors"
	"flag"
	"fmt"
	"reflect"
	"regexp"
	"strconv"
	"strings"

	ucfg "github.com/elastic/go-ucfg"
)

// named string types with custom Unpack methods (kinds "ustr" and "uany" of the type universe)
type uStr string

func (u *uStr) Unpack(s string) error {
	if s == "bad" {
		return errors.New("custom failure")
	}
	*u = uStr(s)
	return nil
}

type uAny string

func (u *uAny) Unpack(v interface{}) error {
	s, ok := v.(string)
	if !ok || s == "bad" {
		return errors.New("custom failure")
	}
	*u = uAny(s)
	return nil
}

func init() {
	packPrims["ustr"] = reflect.TypeOf(uStr(""))
	packPrims["uany"] = reflect.TypeOf(uAny(""))
}

// faultTreeGo turns a config tree of the specification into the Go data NewFrom is given.
func faultTreeGo(raw json.RawMessage) interface{} {
	var t packTree
	json.Unmarshal(raw, &t)
	switch t.K {
	case "nil":
		return nil
	case "bool":
		var b bool
		json.Unmarshal(t.V, &b)
		return b
	case "num":
		s := rawStr(t.V)
		if u, err := strconv.ParseUint(s, 10, 64); err == nil {
			return u
		}
		if i, err := strconv.ParseInt(s, 10, 64); err == nil {
			return i
		}
		f, _ := strconv.ParseFloat(s, 64)
		return f
	case "str":
		return rawStr(t.V)
	}
	d := map[string]json.RawMessage{}
	if len(t.D) > 0 && t.D[0] == '{' {
		json.Unmarshal(t.D, &d)
	}
	if len(t.A) > 0 && len(d) == 0 {
		l := make([]interface{}, len(t.A))
		for i, e := range t.A {
			l[i] = faultTreeGo(e)
		}
		return l
	}
	m := map[string]interface{}{}
	for k, v := range d {
		m[k] = faultTreeGo(v)
	}
	for i, e := range t.A { // a node with named and positional settings: index keys (the configs are built with a separator)
		m[strconv.Itoa(i)] = faultTreeGo(e)
	}
	return m
}

// truncLists cuts every list of generic data down to its first element
func truncLists(v interface{}) interface{} {
	switch x := v.(type) {
	case map[string]interface{}:
		m := map[string]interface{}{}
		for k, e := range x {
			m[k] = truncLists(e)
		}
		return m
	case []interface{}:
		if len(x) == 0 {
			return x
		}
		return []interface{}{truncLists(x[0])}
	}
	return v
}

// padLists puts a dummy element in front of every list of generic data; unpadLists takes it out again with Remove
// (outermost list first), so that every real element - sub-configs and nested lists too - has MOVED to its position.
func padLists(v interface{}) interface{} {
	switch x := v.(type) {
	case map[string]interface{}:
		m := map[string]interface{}{}
		for k, e := range x {
			m[k] = padLists(e)
		}
		return m
	case []interface{}:
		l := []interface{}{"pad"}
		for _, e := range x {
			l = append(l, padLists(e))
		}
		return l
	}
	return v
}

// dottedKeys writes every nested dictionary of generic data as dotted keys of its parent ({"a": {"b": 1}} becomes
// {"a.b": 1}): the intermediate objects are then created by the library itself while it normalises the input
func dottedKeys(v interface{}) interface{} {
	switch x := v.(type) {
	case map[string]interface{}:
		m := map[string]interface{}{}
		var put func(prefix string, e interface{})
		put = func(prefix string, e interface{}) {
			if sub, ok := e.(map[string]interface{}); ok && len(sub) > 0 {
				for k, se := range sub {
					put(prefix+"."+k, se)
				}
				return
			}
			m[prefix] = dottedKeys(e)
		}
		for k, e := range x {
			put(k, e)
		}
		return m
	case []interface{}:
		l := make([]interface{}, len(x))
		for i, e := range x {
			l[i] = dottedKeys(e)
		}
		return l
	}
	return v
}

func unpadLists(cfg *ucfg.Config, v interface{}, opts []ucfg.Option) error {
	isCont := func(e interface{}) bool {
		switch e.(type) {
		case map[string]interface{}, []interface{}:
			return true
		}
		return false
	}
	switch x := v.(type) {
	case map[string]interface{}:
		for _, k := range sortedKeys(x) {
			if isCont(x[k]) {
				sub, err := cfg.Child(k, -1, opts...)
				if err != nil {
					return err
				}
				if err := unpadLists(sub, x[k], opts); err != nil {
					return err
				}
			}
		}
	case []interface{}:
		if ok, err := cfg.Remove("", 0, opts...); err != nil || !ok {
			return fmt.Errorf("removing the pad element: %v %v", ok, err)
		}
		for i, e := range x {
			if isCont(e) {
				sub, err := cfg.Child("", i, opts...)
				if err != nil {
					return err
				}
				if err := unpadLists(sub, e, opts); err != nil {
					return err
				}
			}
		}
	}
	return nil
}

type faultSeg struct {
	N *string `json:"n"`
	I *int    `json:"i"`
}

func faultPath(segs []faultSeg) string {
	var ps []string
	for _, s := range segs {
		if s.N != nil {
			ps = append(ps, *s.N)
		} else if s.I != nil {
			ps = append(ps, strconv.Itoa(*s.I))
		}
	}
	return strings.Join(ps, ".")
}

type faultCase struct {
	Ty    tdesc           `json:"ty"`
	Tree  json.RawMessage `json:"tree"`
	Site  []faultSeg      `json:"site"`
	Recv  string          `json:"recv"`
	Fault string          `json:"fault"`
	Exp   struct {
		Ideal json.RawMessage `json:"ideal"`
		Alts  []altExp        `json:"alts"`
	} `json:"exp"`
}

var sourceRe = regexp.MustCompile(` \(source:'([^']*)'\)$`)

const faultSource = "faults.yml"

type faultObs struct {
	Route  string `json:"route"`
	Kind   string `json:"kind"` // err | ok | panic
	Msg    string `json:"msg,omitempty"`
	Path   string `json:"path"`
	Source string `json:"source"`
	Typed  string `json:"typed,omitempty"`
}

func observeErr(err error) (o faultObs) {
	o.Kind = "err"
	msg := err.Error()
	if i := strings.Index(msg, "\nTrace:"); i >= 0 {
		msg = msg[:i]
	}
	o.Msg = msg
	// "<what> accessing '<path>' (source:'<file>')", "... in field '<path>' (source:...)": the setting is
	// the last quoted text before the source
	if m := sourceRe.FindStringSubmatch(msg); m != nil {
		o.Source = m[1]
		msg = msg[:len(msg)-len(m[0])]
	}
	if all := quotedRe.FindAllStringSubmatch(msg, -1); len(all) > 0 {
		o.Path = all[len(all)-1][1]
	} else {
		o.Path = "?"
	}
	if ue, ok := err.(ucfg.Error); !ok {
		o.Typed = "not a ucfg.Error"
	} else if ue.Reason() == nil {
		o.Typed = "nil Reason"
	} else if ue.Class() == nil {
		o.Typed = "nil Class"
	}
	return
}

func faultsReplay(args []string) int {
	fs := flag.NewFlagSet("faults", flag.ExitOnError)
	fs.Int64("seed", 1, "seed")
	fs.Parse(args)
	rep := newReporter("faults")
	runCases(func(raw []byte, rep *reporter) {
		var c faultCase
		if err := json.Unmarshal(raw, &c); err != nil {
			rep.infra("case: " + err.Error())
			return
		}
		rep.begin(raw)
		rep.nontrivial(raw)
		rep.class("fault:" + c.Fault)
		rep.class("recv:" + c.Recv)
		want := faultPath(c.Site)
		opts := []ucfg.Option{ucfg.PathSep("."), ucfg.VarExp, ucfg.MetaData(ucfg.Meta{Source: faultSource})}
		routes := []string{"unpack"}
		switch c.Recv {
		case "bool", "string", "float64", "float32", "int8", "int16", "int32", "int64", "int", "uint8", "uint16", "uint32", "uint64", "uint":
			if c.Fault != "range" || c.Recv == "int64" || c.Recv == "int" || c.Recv == "uint64" || c.Recv == "uint" {
				routes = append(routes, "getter")
			}
		}
		// every route also on a configuration that reached its state through TWO merges: first the tree with every
		// list cut down to its first element, then the whole tree (the surplus elements are appended, so their
		// position is recorded by another code path than NewFrom's)
		// ... and on a configuration whose lists all had a leading element REMOVED (every element was renumbered)
		for _, r := range append([]string{}, routes...) {
			routes = append(routes, r+"/merged", r+"/removed", r+"/dotted")
		}
		for _, route := range routes {
			var o faultObs
			merged := strings.HasSuffix(route, "/merged")
			removed := strings.HasSuffix(route, "/removed")
			dotted := strings.HasSuffix(route, "/dotted")
			route = strings.TrimSuffix(strings.TrimSuffix(strings.TrimSuffix(route, "/merged"), "/removed"), "/dotted")
			panicked, msg := guard(func() {
				var cfg *ucfg.Config
				var err error
				if merged {
					cfg = ucfg.New()
					if err = cfg.Merge(truncLists(faultTreeGo(c.Tree)), opts...); err == nil {
						err = cfg.Merge(faultTreeGo(c.Tree), opts...)
					}
				} else if dotted {
					cfg, err = ucfg.NewFrom(dottedKeys(faultTreeGo(c.Tree)), opts...)
				} else if removed {
					if cfg, err = ucfg.NewFrom(padLists(faultTreeGo(c.Tree)), opts...); err == nil {
						err = unpadLists(cfg, faultTreeGo(c.Tree), opts)
					}
				} else {
					cfg, err = ucfg.NewFrom(faultTreeGo(c.Tree), opts...)
				}
				if err != nil {
					o = faultObs{Kind: "build", Msg: err.Error()}
					return
				}
				if route == "getter" {
					switch {
					case c.Recv == "bool":
						_, err = cfg.Bool(want, -1, opts...)
					case c.Recv == "string":
						_, err = cfg.String(want, -1, opts...)
					case strings.HasPrefix(c.Recv, "float"):
						_, err = cfg.Float(want, -1, opts...)
					case strings.HasPrefix(c.Recv, "uint"):
						_, err = cfg.Uint(want, -1, opts...)
					default:
						_, err = cfg.Int(want, -1, opts...)
					}
				} else {
					target := reflect.New(buildType(c.Ty))
					err = cfg.Unpack(target.Interface(), opts...)
				}
				if err == nil {
					o = faultObs{Kind: "ok"}
					return
				}
				o = observeErr(err)
			})
			if panicked {
				o = faultObs{Kind: "panic", Msg: msg}
			}
			o.Route = route
			if merged {
				o.Route += "/merged"
			}
			if removed {
				o.Route += "/removed"
			}
			if dotted {
				o.Route += "/dotted"
			}
			eq := func(exp json.RawMessage) bool {
				return o.Kind == "err" && o.Typed == "" && o.Path == want && o.Source == faultSource
			}
			cls := "fault/" + route
			switch {
			case o.Kind != "err":
				cls += "/no-error"
			case o.Typed != "":
				cls += "/untyped"
			case o.Path != want:
				cls += "/path"
			case o.Source != faultSource:
				cls += "/source"
			}
			rep.classify(raw, c.Exp.Ideal, c.Exp.Alts, eq, func() interface{} {
				return map[string]interface{}{"observed": o, "want_path": want, "recv": c.Recv, "fault": c.Fault, "type": fmt.Sprint(buildType(c.Ty))}
			}, cls)
		}
	}, rep)
	return rep.finish()
}

func init() {
	register("faults", &family{replay: faultsReplay})
}
