package main

import (
	"encoding/json"
	"flag"
	"fmt"
	"math/rand"
	"os"
	"reflect"
	"sort"
	"strconv"
	"strings"

	ucfg "github.com/elastic/go-ucfg"
)

// ---- shared option helpers -------------------------------------------------

type step struct {
	T string `json:"t"`
	N string `json:"n"`
	I int    `json:"i"`
}

type fieldOpt struct {
	Path []step `json:"path"`
	Pol  string `json:"pol"`
}

func pathString(p []step) string {
	parts := make([]string, len(p))
	for i, s := range p {
		if s.T == "i" {
			parts[i] = strconv.Itoa(s.I)
		} else {
			parts[i] = s.N
		}
	}
	return strings.Join(parts, ".")
}

func polOption(pol string) []ucfg.Option {
	switch pol {
	case "replace":
		return []ucfg.Option{ucfg.ReplaceValues}
	case "arrreplace":
		return []ucfg.Option{ucfg.ReplaceArrValues}
	case "append":
		return []ucfg.Option{ucfg.AppendValues}
	case "prepend":
		return []ucfg.Option{ucfg.PrependValues}
	}
	return nil
}

func fieldOption(fo fieldOpt) ucfg.Option {
	name := pathString(fo.Path)
	switch fo.Pol {
	case "merge":
		return ucfg.FieldMergeValues(name)
	case "replace":
		return ucfg.FieldReplaceValues(name)
	case "append":
		return ucfg.FieldAppendValues(name)
	case "prepend":
		return ucfg.FieldPrependValues(name)
	}
	panic("field policy " + fo.Pol)
}

// mergeOptions: the options of one Merge call.  They form a SET - the per-field options mean the same whether the
// PathSep option stands before them (sepPlace 0) or after them (sepPlace 1)
func mergeOptions(pol string, fos []fieldOpt, sepPlace int) []ucfg.Option {
	var opts []ucfg.Option
	if sepPlace == 0 || len(fos) == 0 {
		opts = append(opts, ucfg.PathSep("."))
	}
	opts = append(opts, polOption(pol)...)
	for _, fo := range fos {
		opts = append(opts, fieldOption(fo))
	}
	if sepPlace != 0 && len(fos) > 0 {
		opts = append(opts, ucfg.PathSep("."))
	}
	return opts
}

// ---- building Go representations of a tree -----------------------------------

// goOrdered builds generic maps whose insertion order is shuffled by rng (the
// Go runtime derives the iteration order of small maps from it).
func (t *tree) goOrdered(rng *rand.Rand) interface{} {
	switch t.K {
	case "nil":
		return nil
	case "alias":
		return "${" + t.To + "}"
	case "p":
		return t.prim()
	}
	if len(t.A) > 0 && len(t.D) == 0 {
		l := make([]interface{}, len(t.A))
		for i, e := range t.A {
			l[i] = e.goOrdered(rng)
		}
		return l
	}
	type kv struct {
		k string
		v *tree
	}
	var ents []kv
	for k, e := range t.D {
		ents = append(ents, kv{k, e})
	}
	for i, e := range t.A {
		ents = append(ents, kv{strconv.Itoa(i), e})
	}
	sort.Slice(ents, func(i, j int) bool { return ents[i].k < ents[j].k })
	if rng != nil {
		rng.Shuffle(len(ents), func(i, j int) { ents[i], ents[j] = ents[j], ents[i] })
	}
	m := make(map[string]interface{})
	for _, e := range ents {
		m[e.k] = e.v.goOrdered(rng)
	}
	return m
}

var tIface = reflect.TypeOf((*interface{})(nil)).Elem()

// goStruct builds a reflect.StructOf value for a dictionary node (field order =
// sorted keys, or the order given by rng); ok is false when t cannot be a struct.
func (t *tree) goStruct(rng *rand.Rand) (interface{}, bool) {
	if t.K != "n" || len(t.A) > 0 {
		return nil, false
	}
	keys := make([]string, 0, len(t.D))
	for k := range t.D {
		keys = append(keys, k)
	}
	sort.Strings(keys)
	if rng != nil {
		rng.Shuffle(len(keys), func(i, j int) { keys[i], keys[j] = keys[j], keys[i] })
	}
	fields := make([]reflect.StructField, len(keys))
	vals := make([]interface{}, len(keys))
	for i, k := range keys {
		var v interface{}
		c := t.D[k]
		if c.K == "n" && len(c.A) == 0 && len(c.D) > 0 {
			if sv, ok := c.goStruct(rng); ok {
				v = sv
			}
		}
		if v == nil {
			v = c.goOrdered(rng)
		}
		vals[i] = v
		typ := tIface
		if v != nil && reflect.TypeOf(v).Kind() == reflect.Struct {
			typ = reflect.TypeOf(v)
		}
		fields[i] = reflect.StructField{
			Name: "F" + strconv.Itoa(i),
			Type: typ,
			Tag:  reflect.StructTag(`config:"` + k + `"`),
		}
	}
	st := reflect.New(reflect.StructOf(fields)).Elem()
	for i, v := range vals {
		if v != nil {
			st.Field(i).Set(reflect.ValueOf(v))
		}
	}
	return st.Interface(), true
}

// observeTop is the pair (Unpack into map, Unpack into slice), canonicalised.
func observeTop(c *ucfg.Config, opts ...ucfg.Option) (m, l interface{}, err error) {
	var mm map[string]interface{}
	var ll []interface{}
	if err = c.Unpack(&mm, opts...); err != nil {
		return nil, nil, err
	}
	if err = c.Unpack(&ll, opts...); err != nil {
		return nil, nil, err
	}
	return canonGo(mm), canonGo(ll), nil
}

// subConfigs collects the *Config nodes reachable from c (named entries and list positions, references followed)
func subConfigs(c *ucfg.Config, opts []ucfg.Option, depth int, at string, out map[*ucfg.Config]string) {
	if c == nil || depth <= 0 {
		return
	}
	if _, seen := out[c]; seen {
		return
	}
	out[c] = at
	for _, k := range c.GetFields() {
		if ok, _ := c.Has(k, -1, opts...); !ok {
			continue
		}
		if sub, err := c.Child(k, -1, opts...); err == nil && sub != nil {
			subConfigs(sub, opts, depth-1, at+"/"+k, out)
		}
	}
	if n, err := c.CountField(""); err == nil {
		for i := 0; i < n; i++ {
			if sub, err := c.Child("", i, opts...); err == nil && sub != nil {
				subConfigs(sub, opts, depth-1, fmt.Sprintf("%s/%d", at, i), out)
			}
		}
	}
}

type topObs struct {
	Nils [][]string `json:"nils"`
	M    *obs       `json:"m"`
	L    *obs       `json:"l"`
}

type mergeCase struct {
	A   *tree      `json:"a"`
	B   *tree      `json:"b"`
	Pol string     `json:"pol"`
	Fos []fieldOpt `json:"fos"`
	Exp struct {
		Ideal json.RawMessage `json:"ideal"`
		Alts  []altExp        `json:"alts"`
	} `json:"exp"`
}

type mergeOutcome struct {
	Err  string      `json:"err,omitempty"`
	M    interface{} `json:"m"`
	L    interface{} `json:"l"`
	Nils []string    `json:"nils"` // positions that hold an explicit nil (joined with \x00), sorted
}

// nilPaths lists the positions of c that hold an explicit nil (as opposed to an empty object): a typed
// read of a nil says so (kind 'any'), of an object "can not convert 'object'"
func nilPaths(c *ucfg.Config, path []string, depth int, out *[]string) {
	if depth == 0 {
		return
	}
	visit := func(name string, idx int, seg string) {
		p := append(append([]string{}, path...), seg)
		// (the getters name the kind of the setting they refuse: 'any' is the explicit nil)
		if _, err := c.Bool(name, idx); err != nil && strings.Contains(err.Error(), "can not convert 'any'") {
			*out = append(*out, strings.Join(p, "\x00"))
			return
		}
		if sub, err := c.Child(name, idx); err == nil && sub != nil {
			nilPaths(sub, p, depth-1, out)
		}
	}
	for _, k := range c.GetFields() {
		visit(k, -1, k)
	}
	if n, err := c.CountField(""); err == nil && c.IsArray() {
		for i := 0; i < n; i++ {
			visit("", i, strconv.Itoa(i))
		}
	}
}

func errClass(err error) string {
	if err == nil {
		return ""
	}
	if e, ok := err.(ucfg.Error); ok && e.Reason() != nil {
		return "error: " + e.Reason().Error()
	}
	return "error: " + err.Error()
}

// runMerge executes one merge on the real code. repr selects the source form.
func runMerge(a, b *tree, pol string, fos []fieldOpt, repr string, rng *rand.Rand, checkSource bool, sepPlace int) (out mergeOutcome, skipped bool, srcChanged string) {
	opts := mergeOptions(pol, fos, sepPlace)
	sep := ucfg.PathSep(".")
	obsOpts := []ucfg.Option{sep}
	srcOpts := []ucfg.Option{sep}
	dstOpts := []ucfg.Option{sep}
	if hasAlias(b) || hasAlias(a) {
		// an operand holds ${references}: variable expansion on for both operands, the merge and the reads - except that
		// the MERGE CALL of every other case whose source has none is made without the option: the references the
		// destination already holds are what they are, whatever this call says
		if hasAlias(b) || sepPlace == 0 {
			opts = append(opts, ucfg.VarExp)
		}
		obsOpts = append(obsOpts, ucfg.VarExp)
		srcOpts = append(srcOpts, ucfg.VarExp)
		dstOpts = append(dstOpts, ucfg.VarExp)
	}
	panicked, msg := guard(func() {
		dst, err := ucfg.NewFrom(a.goOrdered(rng), dstOpts...)
		if err != nil {
			out.Err = "dst " + errClass(err)
			return
		}
		var src interface{}
		var srcCfg *ucfg.Config
		switch repr {
		case "map":
			src = b.goOrdered(rng)
		case "struct":
			s, ok := b.goStruct(rng)
			if !ok {
				skipped = true
				return
			}
			src = s
		case "self":
			// the destination merged into ITSELF (only used for cases whose two operands are equal)
			src = dst
		case "cfg":
			srcCfg, err = ucfg.NewFrom(b.goOrdered(rng), srcOpts...)
			if err != nil {
				out.Err = "src " + errClass(err)
				return
			}
			src = srcCfg
		}
		var before string
		if checkSource && srcCfg != nil {
			m, l, _ := observeTop(srcCfg, sep)
			before = jsonOf([]interface{}{m, l, srcCfg.Path("."), srcCfg.Parent() == nil})
		}
		if src == nil {
			// an empty top-level map is a valid (empty) source; nil means "nothing"
			src = map[string]interface{}{}
		}
		if len(fos) > 0 {
			// an Option is a VALUE: the per-field options of this case are first used in two other calls, followed and
			// preceded by per-field options for other names - nothing of that may be remembered when they are used again
			extra := []ucfg.Option{ucfg.FieldAppendValues("a"), ucfg.FieldAppendValues("b"), ucfg.FieldAppendValues("c"),
				ucfg.FieldPrependValues("a.b"), ucfg.FieldReplaceValues("a.c"), ucfg.FieldAppendValues("*")}
			scratch := map[string]interface{}{"a": []interface{}{1}, "zz": map[string]interface{}{"q": []interface{}{2}}}
			ucfg.New().Merge(scratch, append(append([]ucfg.Option{}, opts...), extra...)...)
			ucfg.New().Merge(scratch, append(append([]ucfg.Option{sep}, extra...), opts...)...)
		}
		if err := dst.Merge(src, opts...); err != nil {
			out.Err = errClass(err)
			return
		}
		m, l, err := observeTop(dst, obsOpts...)
		if err != nil {
			out.Err = "unpack " + errClass(err)
			return
		}
		out.M, out.L = m, l
		out.Nils = []string{}
		nilPaths(dst, nil, 8, &out.Nils)
		sort.Strings(out.Nils)
		if checkSource && srcCfg != nil {
			m, l, _ := observeTop(srcCfg, sep)
			after := jsonOf([]interface{}{m, l, srcCfg.Path("."), srcCfg.Parent() == nil})
			if after != before {
				srcChanged = before + " -> " + after
			}
			// "Merge copies": no sub-config of the result IS a sub-config of the source (identity, not equality)
			walkOpts := obsOpts[1:] // no separator: the names GetFields reports are atoms
			inSrc, inDst := map[*ucfg.Config]string{}, map[*ucfg.Config]string{}
			subConfigs(srcCfg, walkOpts, 6, "src", inSrc)
			subConfigs(dst, walkOpts, 6, "dst", inDst)
			for c, at := range inDst {
				if sat, shared := inSrc[c]; shared && srcChanged == "" {
					srcChanged = "the node at " + at + " of the result IS the node at " + sat + " of the source"
				}
			}
		}
	})
	if panicked {
		out = mergeOutcome{Err: "panic: " + msg}
	}
	return
}

func hasAlias(t *tree) bool {
	if t == nil {
		return false
	}
	if t.K == "alias" {
		return true
	}
	for _, e := range t.D {
		if hasAlias(e) {
			return true
		}
	}
	for _, e := range t.A {
		if hasAlias(e) {
			return true
		}
	}
	return false
}

func eqTop(out mergeOutcome) func(exp json.RawMessage) bool {
	return func(exp json.RawMessage) bool {
		if out.Err != "" {
			return false
		}
		var e topObs
		if err := json.Unmarshal(exp, &e); err != nil {
			return false
		}
		if e.Nils != nil {
			want := []string{}
			for _, p := range e.Nils {
				want = append(want, strings.Join(p, "\x00"))
			}
			sort.Strings(want)
			if !reflect.DeepEqual(want, out.Nils) {
				return false
			}
		}
		return reflect.DeepEqual(out.M, e.M.canon()) && reflect.DeepEqual(out.L, e.L.canon())
	}
}

func treeSize(t *tree) int {
	if t == nil || t.K != "n" {
		return 0
	}
	n := len(t.D) + len(t.A)
	for _, c := range t.D {
		n += treeSize(c)
	}
	for _, c := range t.A {
		n += treeSize(c)
	}
	return n
}

func sharesSlot(a, b *tree) bool {
	if a.K != "n" || b.K != "n" {
		return false
	}
	for k := range b.D {
		if _, ok := a.D[k]; ok {
			return true
		}
	}
	return len(a.A) > 0 && len(b.A) > 0
}

func mergeReplay(args []string) int {
	fs := flag.NewFlagSet("merge", flag.ExitOnError)
	reprs := fs.String("reprs", "map,struct,cfg", "source representations")
	repeat := fs.Int("repeat", 1, "repetitions with different map insertion orders (C09)")
	checkSource := fs.Bool("check-source", false, "also require the source config to be unchanged (C10)")
	seed := fs.Int64("seed", 1, "seed")
	fs.Parse(args)
	rl := strings.Split(*reprs, ",")
	rep := newReporter("merge")
	runCases(func(raw []byte, rep *reporter) {
		var c mergeCase
		if err := json.Unmarshal(raw, &c); err != nil {
			rep.infra("case: " + err.Error())
			return
		}
		rep.begin(raw)
		if sharesSlot(c.A, c.B) {
			key, _ := json.Marshal([]interface{}{c.A, c.B, c.Pol, c.Fos})
			rep.nontrivial(key)
		}
		h := int64(0)
		for _, ch := range raw {
			h = h*131 + int64(ch)
		}
		rng := rand.New(rand.NewSource(*seed ^ h))
		reprs := rl
		if ja, _ := json.Marshal(c.A); true {
			if jb, _ := json.Marshal(c.B); string(ja) == string(jb) && !hasAlias(c.B) {
				reprs = append(append([]string{}, rl...), "self") // c.Merge(c, policy): the same outcome as merging an equal config
			}
		}
		for _, repr := range reprs {
			var first *mergeOutcome
			for k := 0; k < *repeat; k++ {
				var r *rand.Rand
				if k > 0 {
					r = rng
				}
				out, skipped, changed := runMerge(c.A, c.B, c.Pol, c.Fos, repr, r, *checkSource, int((h>>5)&1))
				if skipped {
					rep.skip()
					break
				}
				if changed != "" {
					rep.violate("source-changed/"+repr, raw, changed, "source unchanged", "")
					break
				}
				if first == nil {
					o := out
					first = &o
					rep.class("repr:" + repr)
					if !rep.classify(raw, c.Exp.Ideal, c.Exp.Alts, eqTop(out), func() interface{} { return out }, "merge-result/"+repr) {
						break
					}
				} else if !reflect.DeepEqual(*first, out) {
					rep.violate("order-dependent/"+repr, raw, out, *first, "outcome differs between map insertion orders")
					break
				}
			}
		}
	}, rep)
	return rep.finish()
}

// ---- driver (direction B) -------------------------------------------------------

var driveKeys = []string{"a", "b", "c", "d", "e", "f"}

func randTree(rng *rand.Rand, depth int, top bool) *tree {
	k := rng.Intn(10)
	if depth == 0 || (!top && k < 3) {
		switch rng.Intn(4) {
		case 0:
			return &tree{K: "nil"}
		default:
			return &tree{K: "p", V: []string{"1", "x", "y", "2"}[rng.Intn(4)]}
		}
	}
	t := &tree{K: "n"}
	if top || k < 7 {
		n := rng.Intn(4)
		if top {
			n++
		}
		t.D = map[string]*tree{}
		for i := 0; i < n; i++ {
			t.D[driveKeys[rng.Intn(len(driveKeys))]] = randTree(rng, depth-1, false)
		}
		if top && rng.Intn(6) == 0 {
			t.D = nil
			for i := rng.Intn(4) + 1; i > 0; i-- {
				t.A = append(t.A, randTree(rng, depth-1, false))
			}
		}
		return t
	}
	for i := rng.Intn(4); i > 0; i-- {
		t.A = append(t.A, randTree(rng, depth-1, false))
	}
	if len(t.A) == 0 {
		t.A = append(t.A, randTree(rng, 0, false))
	}
	return t
}

// mutateTree derives b from a so that many slots coincide, with type changes.
func mutateTree(rng *rand.Rand, a *tree, depth int) *tree {
	if a.K != "n" || depth == 0 || rng.Intn(3) == 0 {
		return randTree(rng, depth, false)
	}
	t := &tree{K: "n"}
	if len(a.D) > 0 {
		t.D = map[string]*tree{}
		for k, c := range a.D {
			if rng.Intn(4) > 0 {
				t.D[k] = mutateTree(rng, c, depth-1)
			}
		}
		if rng.Intn(2) == 0 {
			t.D[driveKeys[rng.Intn(len(driveKeys))]] = randTree(rng, depth-1, false)
		}
	}
	n := len(a.A)
	if n > 0 {
		n += rng.Intn(3) - 1
	}
	for i := 0; i < n; i++ {
		if i < len(a.A) && rng.Intn(2) == 0 {
			t.A = append(t.A, mutateTree(rng, a.A[i], depth-1))
		} else {
			t.A = append(t.A, randTree(rng, depth-1, false))
		}
	}
	return t
}

func asTop(t *tree) *tree {
	if t.K == "n" {
		return t
	}
	return &tree{K: "n", D: map[string]*tree{"a": t}}
}

func randFieldOpts(rng *rand.Rand) []fieldOpt {
	var fos []fieldOpt
	for n := rng.Intn(3); n > 0; n-- {
		var p []step
		for l := rng.Intn(3) + 1; l > 0; l-- {
			switch rng.Intn(8) {
			case 0:
				p = append(p, step{T: "n", N: "**"})
			case 1:
				p = append(p, step{T: "i", I: rng.Intn(2)})
			default:
				p = append(p, step{T: "n", N: driveKeys[rng.Intn(4)]})
			}
		}
		if p[len(p)-1].N == "**" {
			p = append(p, step{T: "n", N: "a"})
		}
		fos = append(fos, fieldOpt{Path: p, Pol: []string{"merge", "replace", "append", "prepend"}[rng.Intn(4)]})
	}
	return fos
}

func mergeDrive(args []string) int {
	fs := flag.NewFlagSet("merge", flag.ExitOnError)
	seed := fs.Int64("seed", 1, "seed")
	n := fs.Int("n", 1000, "events")
	withFos := fs.Bool("fieldopts", false, "generate per-field options (C16)")
	fs.Parse(args)
	rng := rand.New(rand.NewSource(*seed))
	w := json.NewEncoder(os.Stdout)
	pols := []string{"default", "replace", "arrreplace", "append", "prepend"}
	reprs := []string{"map", "struct", "cfg"}
	for i := 0; i < *n; i++ {
		a := asTop(randTree(rng, 1+rng.Intn(4), true))
		b := asTop(mutateTree(rng, a, 1+rng.Intn(4)))
		pol := pols[rng.Intn(len(pols))]
		var fos []fieldOpt
		if *withFos {
			fos = randFieldOpts(rng)
		}
		repr := reprs[rng.Intn(3)]
		sepPlace := rng.Intn(2)
		out, skipped, _ := runMerge(a, b, pol, fos, repr, rng, false, sepPlace)
		if skipped {
			repr = "map"
			out, _, _ = runMerge(a, b, pol, fos, repr, rng, false, sepPlace)
		}
		ev := map[string]interface{}{"a": a, "b": b, "pol": pol, "fos": fos, "repr": repr}
		if fos == nil {
			ev["fos"] = []fieldOpt{}
		}
		if out.Err != "" {
			ev["out"] = map[string]interface{}{"err": out.Err}
		} else {
			ev["out"] = map[string]interface{}{"m": obsJSON(out.M), "l": obsJSON(out.L)}
		}
		if err := w.Encode(ev); err != nil {
			fmt.Fprintln(os.Stderr, err)
			return 2
		}
	}
	return 0
}

func init() {
	register("merge", &family{replay: mergeReplay, drive: mergeDrive})
}
