// ucfgconf binds the TLA+ specification in /verif/spec to the go-ucfg
// implementation in /repo.
//
//	ucfgconf replay <family>   reads TLC-generated cases (one JSON string literal per
//	                           line, as printed by PrintT(ToJson(..))) on stdin, runs
//	                           each against the real code and classifies the outcome
//	ucfgconf drive <family>    runs seeded random executions of the real code and
//	                           writes an ndjson trace for the Trace_* specifications
//
// The last stdout line of `replay` is "SUMMARY <json>".
package main

import (
	"fmt"
	"os"
)

type family struct {
	replay func(args []string) int
	drive  func(args []string) int
	fuzz   func(args []string) int // self-driven enumeration / mutation with runtime observers
}

var families = map[string]*family{}

func register(name string, f *family) { families[name] = f }

func main() {
	if len(os.Args) < 3 {
		fmt.Fprintln(os.Stderr, "usage: ucfgconf replay|drive <family> [flags]")
		os.Exit(2)
	}
	if os.Args[1] == "child" {
		os.Exit(childMain(os.Args[2]))
	}
	f, ok := families[os.Args[2]]
	if !ok {
		fmt.Fprintln(os.Stderr, "unknown family", os.Args[2])
		os.Exit(2)
	}
	switch os.Args[1] {
	case "replay":
		if f.replay == nil {
			fmt.Fprintln(os.Stderr, "family has no replay")
			os.Exit(2)
		}
		os.Exit(f.replay(os.Args[3:]))
	case "fuzz":
		if f.fuzz == nil {
			fmt.Fprintln(os.Stderr, "family has no fuzz mode")
			os.Exit(2)
		}
		os.Exit(f.fuzz(os.Args[3:]))
	case "drive":
		if f.drive == nil {
			fmt.Fprintln(os.Stderr, "family has no driver")
			os.Exit(2)
		}
		os.Exit(f.drive(os.Args[3:]))
	}
	fmt.Fprintln(os.Stderr, "unknown mode", os.Args[1])
	os.Exit(2)
}
