package main

import (
	"bytes"
	"encoding/json"
	"flag"
	"fmt"
	"io/ioutil"
	"math"
	"math/big"
	"math/rand"
	"os"
	"path/filepath"
	"reflect"
	"sort"
	"strconv"
	"strings"
	"time"

	ucfg "github.com/elastic/go-ucfg"
	"github.com/elastic/go-ucfg/hjson"
	ujson "github.com/elastic/go-ucfg/json"
	"github.com/elastic/go-ucfg/yaml"
)

// renderJSON writes a Go value of the normalisation spec as JSON text (entry order kept).
func renderJSON(g *gval, b *bytes.Buffer, indent string, cur string) {
	nl := func(s string) {
		if indent != "" {
			b.WriteString("\n" + s)
		}
	}
	switch g.G {
	case "nil":
		b.WriteString("null")
	case "p":
		switch g.Ty {
		case "n", "b":
			b.WriteString(g.V)
		default:
			var sb bytes.Buffer
			enc := json.NewEncoder(&sb)
			enc.SetEscapeHTML(false)
			enc.Encode(g.V)
			b.WriteString(strings.TrimSuffix(sb.String(), "\n"))
		}
	case "l":
		if len(g.Xs) == 0 {
			b.WriteString("[]")
			return
		}
		b.WriteString("[")
		for i, x := range g.Xs {
			if i > 0 {
				b.WriteString(",")
			}
			nl(cur + indent)
			renderJSON(x, b, indent, cur+indent)
		}
		nl(cur)
		b.WriteString("]")
	case "m":
		if len(g.Es) == 0 {
			b.WriteString("{}")
			return
		}
		b.WriteString("{")
		for i, e := range g.Es {
			if i > 0 {
				b.WriteString(",")
			}
			nl(cur + indent)
			k, _ := json.Marshal(segKey(e.Key))
			b.Write(k)
			b.WriteString(":")
			if indent != "" {
				b.WriteString(" ")
			}
			renderJSON(e.Val, b, indent, cur+indent)
		}
		nl(cur)
		b.WriteString("}")
	}
}

type loaderFn struct {
	name string
	ext  string
	mem  func([]byte, ...ucfg.Option) (*ucfg.Config, error)
	file func(string, ...ucfg.Option) (*ucfg.Config, error)
}

var loaders = []loaderFn{
	{"yaml", ".yml", yaml.NewConfig, yaml.NewConfigWithFile},
	{"json", ".json", ujson.NewConfig, ujson.NewConfigWithFile},
	{"hjson", ".hjson", hjson.NewConfig, hjson.NewConfigWithFile},
}

// firstLeaf finds the path of a primitive setting (for provoking an error that names its source).
func firstLeaf(v interface{}, path []string) ([]string, bool) {
	switch x := v.(type) {
	case map[string]interface{}:
		for _, k := range sortedKeys(x) {
			if p, ok := firstLeaf(x[k], append(append([]string{}, path...), k)); ok {
				return p, true
			}
		}
	case string:
		return path, len(path) > 0
	}
	return nil, false
}

// provokeAll walks the unpacked document and provokes, for every setting, an error about exactly that
// setting (a typed getter of the wrong kind); returns the class and message of the first error that
// fails to mention the file (or mentions a source although the document was in memory).
func provokeAll(cur *ucfg.Config, v interface{}, path []string, fname string, fromFile bool) (string, string) {
	check := func(err error, at string) (string, string) { return sourceNamed(err, at, fname, fromFile) }
	provoke := func(name string, idx int, x interface{}) (string, string) {
		at := strings.Join(path, "/") + "/" + name + fmt.Sprintf("#%d", idx)
		switch x.(type) {
		case nil:
			return "", ""
		case map[string]interface{}, []interface{}:
			_, err := cur.Int(name, idx)
			if err == nil {
				return "source-probe", at + ": Int() of an object did not fail"
			}
			return check(err, at)
		default:
			_, err := cur.Child(name, idx)
			if err == nil {
				return "source-probe", at + ": Child() of a primitive did not fail"
			}
			return check(err, at)
		}
	}
	descend := func(name string, idx int, x interface{}) (string, string) {
		if c, m := provoke(name, idx, x); c != "" {
			return c, m
		}
		switch x.(type) {
		case map[string]interface{}, []interface{}:
			sub, err := cur.Child(name, idx)
			if err != nil || sub == nil {
				return "", ""
			}
			seg := name
			if name == "" {
				seg = fmt.Sprint(idx)
			}
			return provokeAll(sub, x, append(append([]string{}, path...), seg), fname, fromFile)
		}
		return "", ""
	}
	switch x := v.(type) {
	case map[string]interface{}:
		for _, k := range sortedKeys(x) {
			if c, m := descend(k, -1, x[k]); c != "" {
				return c, m
			}
		}
	case []interface{}:
		for i, e := range x {
			if c, m := descend("", i, e); c != "" {
				return c, m
			}
		}
	}
	return "", ""
}

// typedExpect: what Uint / Int / Float of a number token must give (exact arithmetic); asFloat: the token as a
// decoder that reads every number as float64 sees it (deviation JsonNumbersAsFloat64)
func typedExpect(tok string, asFloat bool) (out [5]string) {
	r, ok := new(big.Rat).SetString(tok)
	if !ok {
		return [5]string{"?", "?", "?", "?", "?"}
	}
	if asFloat {
		f, _ := r.Float64()
		r = new(big.Rat).SetFloat64(f)
	}
	t := new(big.Int).Quo(r.Num(), r.Denom()) // toward zero
	out[0], out[1] = "err", "err"
	if r.Sign() >= 0 && t.IsUint64() {
		out[0] = "ok:" + t.String()
	}
	if t.IsInt64() {
		out[1] = "ok:" + t.String()
	}
	f, _ := r.Float64()
	out[2] = "ok:" + canonFloat(f)
	out[3] = "err" // a number is never a bool, whatever the front-end made of it
	// a number into a time.Duration means seconds: exactly r * 1e9 nanoseconds, or an error when that does not fit
	ns := new(big.Rat).Mul(r, big.NewRat(1000000000, 1))
	out[4] = "err"
	if nt := new(big.Int).Quo(ns.Num(), ns.Denom()); nt.IsInt64() && ns.IsInt() {
		out[4] = "ok:" + nt.String()
	} else if ns.IsInt() == false && nt.IsInt64() {
		out[4] = "skip" // a fraction of a nanosecond: not in the universe
	}
	return
}

func withSkip(exp, got [5]string) [5]string {
	if got[4] == "skip" {
		exp[4] = "skip"
	}
	return exp
}

// typedAll walks the expected observation and reads every number leaf through the three numeric getters
func typedAll(cur *ucfg.Config, exp interface{}, path []string, visit func(at, tok string, got [5]string)) {
	read := func(name string, idx int, x interface{}) {
		at := strings.Join(path, "/") + "/" + name + fmt.Sprintf("#%d", idx)
		switch v := x.(type) {
		case string:
			if !strings.HasPrefix(v, "n:") {
				return
			}
			var got [5]string
			if b, err := cur.Bool(name, idx); err != nil {
				got[3] = "err"
			} else {
				got[3] = "ok:" + strconv.FormatBool(b)
			}
			if u, err := cur.Uint(name, idx); err != nil {
				got[0] = "err"
			} else {
				got[0] = "ok:" + strconv.FormatUint(u, 10)
			}
			if i, err := cur.Int(name, idx); err != nil {
				got[1] = "err"
			} else {
				got[1] = "ok:" + strconv.FormatInt(i, 10)
			}
			if f, err := cur.Float(name, idx); err != nil {
				got[2] = "err"
			} else {
				got[2] = "ok:" + canonFloat(f)
			}
			got[4] = "skip"
			if name != "" && !strings.ContainsAny(name, "\"`,") {
				st := reflect.New(reflect.StructOf([]reflect.StructField{{Name: "F", Type: reflect.TypeOf(time.Duration(0)),
					Tag: reflect.StructTag(`config:"` + name + `"`)}}))
				if err := cur.Unpack(st.Interface()); err != nil {
					got[4] = "err"
				} else {
					got[4] = "ok:" + strconv.FormatInt(st.Elem().Field(0).Int(), 10)
				}
			}
			visit(at, v[2:], got)
		case map[string]interface{}, []interface{}:
			sub, err := cur.Child(name, idx)
			if err != nil || sub == nil {
				return
			}
			seg := name
			if name == "" {
				seg = fmt.Sprint(idx)
			}
			typedAll(sub, x, append(append([]string{}, path...), seg), visit)
		}
	}
	switch x := exp.(type) {
	case map[string]interface{}:
		for _, k := range sortedKeys(x) {
			read(k, -1, x[k])
		}
	case []interface{}:
		for i, e := range x {
			read("", i, e)
		}
	}
}

// knownDevs: the deviations listed as open findings for this family (VERIF_KNOWN, set by bin/check)
func knownDevs() map[string]bool {
	m := map[string]bool{}
	for _, d := range strings.Split(os.Getenv("VERIF_KNOWN"), ",") {
		if d != "" {
			m[d] = true
		}
	}
	return m
}

// intsAsFloat64 rewrites an expected observation the way a decoder that reads every number as
// float64 sees it (deviation JsonNumbersAsFloat64; concretised here because TLC has no floats).
func intsAsFloat64(v interface{}) interface{} {
	switch x := v.(type) {
	case string:
		if strings.HasPrefix(x, "n:") {
			if f, err := strconv.ParseFloat(x[2:], 64); err == nil {
				return "n:" + canonFloat(f)
			}
		}
		return x
	case map[string]interface{}:
		m := map[string]interface{}{}
		for k, e := range x {
			m[k] = intsAsFloat64(e)
		}
		return m
	case []interface{}:
		l := make([]interface{}, len(x))
		for i, e := range x {
			l[i] = intsAsFloat64(e)
		}
		return l
	}
	return v
}

func eqNormFloat(out normOutcome) func(exp json.RawMessage) bool {
	return func(exp json.RawMessage) bool {
		var e normExp
		if json.Unmarshal(exp, &e) != nil || e.Ok == nil || out.Err != "" {
			return false
		}
		return reflect.DeepEqual(out.M, intsAsFloat64(e.Ok.M.canon())) && reflect.DeepEqual(out.L, intsAsFloat64(e.Ok.L.canon()))
	}
}

type loadersCase struct {
	Doc   *gval           `json:"doc"`
	Sep   json.RawMessage `json:"sep"`
	NoSep json.RawMessage `json:"nosep"`
	// settings whose EXPANSION fails (Gen_Loaders.RefFaults): added to the document one at a time
	Faults []refFault `json:"faults"`
}

type refFault struct {
	Key   string `json:"key"`
	Text  string `json:"text"`
	Other string `json:"other"` // a second setting "name=text" the fault needs (the other half of a cycle)
	Kind  string `json:"kind"`
}

// sourceNamed: an error about a setting read from a file mentions the file, and only then.
func sourceNamed(err error, at, fname string, fromFile bool) (string, string) {
	if err == nil {
		return "", ""
	}
	has := fname != "" && strings.Contains(err.Error(), "source:'"+fname+"'")
	if fromFile && !has {
		return "source-missing-in-error", at + ": " + err.Error()
	}
	if !fromFile && strings.Contains(err.Error(), "source:") {
		return "source-in-memory-error", at + ": " + err.Error()
	}
	return "", ""
}

// refFaultDocs renders the compact document with ONE failing expansion added at the top level, inside a nested list
// and inside an object; returns (site, text, path of the faulty setting).
func refFaultDocs(compact []byte, f refFault) [][3]string {
	if len(compact) < 2 || compact[len(compact)-1] != '}' {
		return nil
	}
	head := string(compact[:len(compact)-1])
	if len(head) > 1 {
		head += ","
	}
	q := func(s string) string { b, _ := json.Marshal(s); return string(b) }
	other := ""
	if f.Other != "" {
		kv := strings.SplitN(f.Other, "=", 2)
		other = "," + q(kv[0]) + ":" + q(kv[1])
	}
	return [][3]string{
		{"top", head + q(f.Key) + ":" + q(f.Text) + other + "}", f.Key},
		{"list", head + q(f.Key) + ":[[" + q("ok") + "," + q(f.Text) + "]]" + other + "}", f.Key + ".0.1"},
		{"obj", head + q(f.Key) + ":{" + q("k") + ":" + q(f.Text) + "}" + other + "}", f.Key + ".k"},
	}
}

// refFaultReads: every way of reading the faulty setting; each must fail, and the error names the file iff there is one.
func refFaultReads(cfg *ucfg.Config, site string, f refFault, opts []ucfg.Option) map[string]error {
	out := map[string]error{}
	var m map[string]interface{}
	out["unpack-map"] = cfg.Unpack(&m, opts...)
	ift := reflect.StructOf([]reflect.StructField{{Name: "F", Type: reflect.TypeOf((*interface{})(nil)).Elem(), Tag: reflect.StructTag(`config:"` + f.Key + `"`)}})
	out["unpack-interface-field"] = cfg.Unpack(reflect.New(ift).Interface(), opts...)
	switch site {
	case "top":
		_, err := cfg.String(f.Key, -1, opts...)
		out["string-getter"] = err
		st := reflect.StructOf([]reflect.StructField{{Name: "F", Type: reflect.TypeOf(""), Tag: reflect.StructTag(`config:"` + f.Key + `"`)}})
		out["unpack-string-field"] = cfg.Unpack(reflect.New(st).Interface(), opts...)
	case "list":
		st := reflect.StructOf([]reflect.StructField{{Name: "F", Type: reflect.TypeOf([][]string{}), Tag: reflect.StructTag(`config:"` + f.Key + `"`)}})
		out["unpack-typed-list"] = cfg.Unpack(reflect.New(st).Interface(), opts...)
		ml := reflect.StructOf([]reflect.StructField{{Name: "F", Type: reflect.TypeOf([]interface{}{}), Tag: reflect.StructTag(`config:"` + f.Key + `"`)}})
		out["unpack-generic-list"] = cfg.Unpack(reflect.New(ml).Interface(), opts...)
	case "obj":
		st := reflect.StructOf([]reflect.StructField{{Name: "F", Type: reflect.TypeOf(map[string]string{}), Tag: reflect.StructTag(`config:"` + f.Key + `"`)}})
		out["unpack-typed-map"] = cfg.Unpack(reflect.New(st).Interface(), opts...)
		mm := reflect.StructOf([]reflect.StructField{{Name: "F", Type: reflect.TypeOf(map[string]interface{}{}), Tag: reflect.StructTag(`config:"` + f.Key + `"`)}})
		out["unpack-generic-map"] = cfg.Unpack(reflect.New(mm).Interface(), opts...)
	}
	return out
}

func loadersReplay(args []string) int {
	fs := flag.NewFlagSet("loaders", flag.ExitOnError)
	fs.Int64("seed", 1, "seed")
	fs.Parse(args)
	rep := newReporter("loaders")
	known := knownDevs()
	dir, err := ioutil.TempDir("", "ucfgconf-loaders-")
	if err != nil {
		rep.infra(err.Error())
		return rep.finish()
	}
	defer os.RemoveAll(dir)
	runCases(func(raw []byte, rep *reporter) {
		var c loadersCase
		if err := json.Unmarshal(raw, &c); err != nil {
			rep.infra("case: " + err.Error())
			return
		}
		rep.begin(raw)
		rep.nontrivial(raw[:len(raw)/2])
		for _, indent := range []string{"", "  "} {
			var b bytes.Buffer
			renderJSON(c.Doc, &b, indent, "")
			text := b.Bytes()
			for _, withSep := range []bool{true, false} {
				exp := c.NoSep
				var base []ucfg.Option
				if withSep {
					exp, base = c.Sep, []ucfg.Option{ucfg.PathSep(".")}
				}
				for _, varexp := range []bool{false, true} {
					opts := append([]ucfg.Option{}, base...)
					if varexp {
						if bytes.Contains(text, []byte("$")) {
							continue
						}
						opts = append(opts, ucfg.VarExp)
					}
					var outs []normOutcome
					for _, ld := range loaders {
						for _, fromFile := range []bool{false, true} {
							var cfg *ucfg.Config
							var err error
							fname := ""
							panicked, msg := guard(func() {
								if fromFile {
									fname = filepath.Join(dir, fmt.Sprintf("d%p%s", &b, ld.ext))
									ioutil.WriteFile(fname, text, 0o600)
									cfg, err = ld.file(fname, opts...)
								} else {
									cfg, err = ld.mem(text, opts...)
								}
							})
							var out normOutcome
							switch {
							case panicked:
								out.Err = "panic: " + msg
							case err != nil:
								out.Err = normErrClass(err)
							default:
								m, l, uerr := observeTop(cfg, base...)
								if uerr != nil {
									out.Err = "unpack: " + uerr.Error()
								}
								out.M, out.L = m, l
							}
							outs = append(outs, out)
							what := fmt.Sprintf("%s/file=%v/sep=%v/varexp=%v", ld.name, fromFile, withSep, varexp)
							floatInts := false
							if !eqNorm(out)(exp) && known["JsonNumbersAsFloat64"] && ld.name != "yaml" && eqNormFloat(out)(exp) {
								floatInts = true
								rep.okKnown([]string{"JsonNumbersAsFloat64"}, raw)
							}
							if !floatInts && !eqNorm(out)(exp) {
								var want interface{}
								json.Unmarshal(exp, &want)
								rep.violate("loader-result", raw, map[string]interface{}{"loader": what, "text": string(text), "out": out}, want, "")
								return
							}
							// the source of a setting is recorded for the *WithFile loaders only: an error about ANY
							// setting of the document (primitive, object, list - empty ones too - and list elements)
							// mentions the file, and an in-memory document has no source
							if cfg != nil && out.Err == "" {
								var m map[string]interface{}
								cfg.Unpack(&m, base...)
								if cls, msg := provokeAll(cfg, m, nil, fname, fromFile); cls != "" {
									rep.violate(cls, raw, msg, "an error about a setting read from a file mentions "+fname+" (and only then)", what)
									return
								}
								// typed targets: every number of the document read as uint64, int64 and float64 must be the
								// value of the document's token (numbers compared by value), in every front-end
								var e normExp
								if json.Unmarshal(exp, &e) == nil && e.Ok != nil {
									bad := ""
									typedAll(cfg, e.Ok.M.canon(), nil, func(at, tok string, got [5]string) {
										if bad != "" {
											return
										}
										ideal := typedExpect(tok, false)
										if got[4] == "skip" {
											ideal[4] = "skip"
										}
										if got == ideal {
											return
										}
										if known["JsonNumbersAsFloat64"] && ld.name != "yaml" && got == withSkip(typedExpect(tok, true), got) {
											rep.okKnown([]string{"JsonNumbersAsFloat64"}, raw)
											return
										}
										bad = fmt.Sprintf("%s = %s: Uint/Int/Float/Bool/Duration gave %v, the token denotes %v", at, tok, got, ideal)
									})
									if bad != "" {
										rep.violate("typed-read", raw, bad, "the value of the document's number in every front-end", what)
										return
									}
								}
							}
						}
					}
					for i := 1; i < len(outs); i++ {
						if !reflect.DeepEqual(outs[0], outs[i]) && !known["JsonNumbersAsFloat64"] {
							rep.violate("front-ends-disagree", raw, outs[i], outs[0], "")
							return
						}
					}
				}
			}
		}
		// failing expansions (C18: "an error about a setting names the file it was read from"): one faulty setting at a
		// time, at the top level / in a nested list / in an object, read in every way; every read must fail and the error
		// mentions the file iff the document was loaded from one
		var cb bytes.Buffer
		renderJSON(c.Doc, &cb, "", "")
		if len(c.Faults) > 0 && !bytes.Contains(cb.Bytes(), []byte("$")) {
			for _, f := range c.Faults {
				for _, fd := range refFaultDocs(cb.Bytes(), f) {
					for _, ld := range loaders {
						for _, fromFile := range []bool{false, true} {
							opts := []ucfg.Option{ucfg.PathSep("."), ucfg.VarExp}
							var cfg *ucfg.Config
							var err error
							fname := ""
							var reads map[string]error
							panicked, msg := guard(func() {
								if fromFile {
									fname = filepath.Join(dir, fmt.Sprintf("f%p%s", &cb, ld.ext))
									ioutil.WriteFile(fname, []byte(fd[1]), 0o600)
									cfg, err = ld.file(fname, opts...)
								} else {
									cfg, err = ld.mem([]byte(fd[1]), opts...)
								}
								if err == nil && cfg != nil {
									reads = refFaultReads(cfg, fd[0], f, opts)
								}
							})
							what := fmt.Sprintf("%s/file=%v/fault=%s@%s", ld.name, fromFile, f.Kind, fd[0])
							if panicked {
								rep.violate("ref-fault-panic", raw, msg, "an error", what)
								return
							}
							rep.class("ref-fault:" + f.Kind + "@" + fd[0])
							for _, rd := range sortedErrKeys(reads) {
								if reads[rd] != nil {
									rep.class("ref-fault-error:" + f.Kind + "@" + fd[0] + "/" + rd)
								}
								if cls, m := sourceNamed(reads[rd], fd[2]+" by "+rd, fname, fromFile); cls != "" {
									rep.violate(cls, raw, map[string]interface{}{"text": fd[1], "read": rd, "error": m}, "an error about a setting read from a file mentions "+fname+" (and only then)", what)
									return
								}
							}
						}
					}
				}
			}
		}
		rep.okIdeal()
	}, rep)
	return rep.finish()
}

func sortedErrKeys(m map[string]error) []string {
	ks := make([]string, 0, len(m))
	for k := range m {
		ks = append(ks, k)
	}
	sort.Strings(ks)
	return ks
}

// ---- driver: random documents; events in Trace_Normalize's format -----------------------

var awkward = []string{"yes", "no", "on", "~", "null", "2001-01-01", "1:30", "", " ", "x y", "é", "日本", "😀", "1e3", "0x1f", "0o7", "a$b", "- x", "#c", "{",
	"'q'", "\"", "\\", "a\tb", "a\nb", "[1]", "a: b", "?", "|", ">", "%", "@", "`", "!!str", "&a", "*a", ".5", "+1", "1_000", ".inf", ".nan", "0b1", "True", "NULL", "~x", "-", "--- ", "..."}
var docKeys = []string{"a", "b", "c", "k k", "yes", "1x", "é", "null", "a-b", "a_b", "A", "true", "x$", "#k", "~", "0a", "'k'"}

// canonNumberToken gives a number token the canonical text the observation uses.
func canonNumberToken(tok string) string {
	if u, err := strconv.ParseUint(tok, 10, 64); err == nil {
		return strconv.FormatUint(u, 10)
	}
	if i, err := strconv.ParseInt(tok, 10, 64); err == nil {
		return strconv.FormatInt(i, 10)
	}
	f, _ := strconv.ParseFloat(tok, 64)
	return canonFloat(f)
}

func canonDocNumbers(g *gval, bigInts bool) bool {
	ok := true
	switch g.G {
	case "p":
		if g.Ty == "n" {
			if f, _ := strconv.ParseFloat(g.V, 64); !bigInts && math.Abs(f) >= 1<<53 {
				ok = false // the big-integer finding of the JSON front-ends is decided by the Gen_Loaders stage
			}
			g.V = canonNumberToken(g.V)
		}
	case "l":
		for _, x := range g.Xs {
			ok = canonDocNumbers(x, bigInts) && ok
		}
	case "m":
		for _, e := range g.Es {
			ok = canonDocNumbers(e.Val, bigInts) && ok
		}
	}
	return ok
}

func randDoc(rng *rand.Rand, depth int) *gval {
	k := rng.Intn(10)
	if depth == 0 || k < 5 {
		switch rng.Intn(8) {
		case 0:
			return &gval{G: "nil"}
		case 1:
			return &gval{G: "p", Ty: "b", V: []string{"true", "false"}[rng.Intn(2)]}
		case 2:
			return &gval{G: "p", Ty: "n", V: []string{"0", "7", "-3", "1.5", "-0.25", "18446744073709551615", "9223372036854775807", "-9223372036854775808", "9223372036854775808",
				"4294967296", "255", "1e+21", "123456789.125", "0.1", "1e-7"}[rng.Intn(15)]}
		default:
			return &gval{G: "p", Ty: "s", V: awkward[rng.Intn(len(awkward))]}
		}
	}
	if k < 7 {
		g := &gval{G: "l"}
		for n := rng.Intn(4); n > 0; n-- {
			g.Xs = append(g.Xs, randDoc(rng, depth-1))
		}
		return g
	}
	g := &gval{G: "m"}
	used := map[string]bool{}
	for n := rng.Intn(4) + 1; n > 0; n-- {
		key := docKeys[rng.Intn(len(docKeys))]
		if used[key] {
			continue
		}
		used[key] = true
		g.Es = append(g.Es, gentry{Key: []seg{{S: key, I: -1}}, Val: randDoc(rng, depth-1)})
	}
	return g
}

func loadersDrive(args []string) int {
	fs := flag.NewFlagSet("loaders", flag.ExitOnError)
	seed := fs.Int64("seed", 1, "seed")
	n := fs.Int("n", 1000, "events")
	fs.Parse(args)
	rng := rand.New(rand.NewSource(*seed))
	w := json.NewEncoder(os.Stdout)
	w.SetEscapeHTML(false)
	for i := 0; i < *n; {
		doc := randDoc(rng, 1+rng.Intn(4))
		if doc.G != "m" {
			continue
		}
		var b bytes.Buffer
		indent := []string{"", "  "}[rng.Intn(2)]
		renderJSON(doc, &b, indent, "")
		ld := loaders[rng.Intn(len(loaders))]
		if !canonDocNumbers(doc, ld.name == "yaml") {
			continue
		}
		var out normOutcome
		panicked, msg := guard(func() {
			cfg, err := ld.mem(b.Bytes())
			if err != nil {
				out.Err = "load: " + err.Error()
				return
			}
			m, l, uerr := observeTop(cfg)
			if uerr != nil {
				out.Err = "unpack: " + uerr.Error()
			}
			out.M, out.L = m, l
		})
		if panicked {
			out.Err = "panic: " + msg
		}
		ev := map[string]interface{}{"gv": doc, "pol": "default", "repr": ld.name, "exact_order": false, "text": b.String()}
		if out.Err != "" {
			ev["out"] = map[string]interface{}{"err": out.Err}
		} else {
			ev["out"] = map[string]interface{}{"ok": map[string]interface{}{"m": obsJSON(out.M), "l": obsJSON(out.L)}}
		}
		if w.Encode(ev) != nil {
			return 2
		}
		i++
	}
	return 0
}

func init() {
	register("loaders", &family{replay: loadersReplay, drive: loadersDrive})
}
