package main

import (
	"encoding/json"
	"flag"
	"math/rand"
	"reflect"
	"strings"

	ucfg "github.com/elastic/go-ucfg"
)

// Gen_NormFaults: inputs with several faulty entries are rejected with ONE kind of error (C09).

type normFaultsCase struct {
	Keys  []string `json:"keys"`
	Kinds []string `json:"kinds"`
	Exp   struct {
		Ideal json.RawMessage `json:"ideal"`
		Alts  []altExp        `json:"alts"`
	} `json:"exp"`
}

func normFaultValue(kind string) interface{} {
	switch kind {
	case "unsupported":
		return make(chan int)
	case "keytype":
		return map[int]int{1: 1}
	case "duplicate":
		return map[string]interface{}{"x": map[string]interface{}{"y": 2}, "x.y": 1}
	}
	return "1"
}

func normFaultClass(err error) string {
	if err == nil {
		return "ok"
	}
	msg := err.Error()
	switch {
	case strings.Contains(msg, "unspported input type"), strings.Contains(msg, "unsupported input type"):
		return "unsupported"
	case strings.Contains(msg, "string key required"):
		return "keytype"
	case strings.Contains(msg, "duplicate"):
		return "duplicate"
	}
	if i := strings.Index(msg, "\n"); i > 0 {
		msg = msg[:i]
	}
	return "other: " + msg
}

func normFaultsReplay(args []string) int {
	fs := flag.NewFlagSet("normfaults", flag.ExitOnError)
	seed := fs.Int64("seed", 1, "seed")
	repeat := fs.Int("repeat", 12, "repetitions of every map-built call")
	fs.Parse(args)
	rep := newReporter("normfaults")
	runCases(func(raw []byte, rep *reporter) {
		var c normFaultsCase
		if err := json.Unmarshal(raw, &c); err != nil {
			rep.infra("case: " + err.Error())
			return
		}
		rep.begin(raw)
		rep.nontrivial(raw)
		rng := rand.New(rand.NewSource(*seed + int64(len(raw))))
		var e struct {
			Ok    bool     `json:"ok"`
			Kinds []string `json:"kinds"`
			First string   `json:"first"`
		}
		json.Unmarshal(c.Exp.Ideal, &e)
		opts := []ucfg.Option{ucfg.PathSep(".")}
		for _, route := range []string{"msi/NewFrom", "mii/NewFrom", "msi/Merge", "struct/NewFrom", "nested/NewFrom"} {
			outcomes := map[string]bool{}
			var last string
			n := *repeat
			if strings.HasPrefix(route, "struct") {
				n = 2
			}
			panicked, msg := guard(func() {
				for k := 0; k < n; k++ {
					perm := rng.Perm(len(c.Keys))
					var in interface{}
					switch {
					case strings.HasPrefix(route, "msi"), strings.HasPrefix(route, "nested"):
						m := map[string]interface{}{}
						for _, i := range perm {
							m[c.Keys[i]] = normFaultValue(c.Kinds[i])
						}
						in = m
						if strings.HasPrefix(route, "nested") {
							in = map[string]interface{}{"top": []interface{}{m}}
						}
					case strings.HasPrefix(route, "mii"):
						m := map[interface{}]interface{}{}
						for _, i := range perm {
							m[c.Keys[i]] = normFaultValue(c.Kinds[i])
						}
						in = m
					default:
						var sf []reflect.StructField
						for i, key := range c.Keys {
							sf = append(sf, reflect.StructField{Name: "F" + strings.ToUpper(key), Type: tIface,
								Tag: reflect.StructTag(`config:"` + key + `"`)})
							_ = i
						}
						st := reflect.New(reflect.StructOf(sf)).Elem()
						for i := range c.Keys {
							st.Field(i).Set(reflect.ValueOf(normFaultValue(c.Kinds[i])))
						}
						in = st.Interface()
					}
					var err error
					if strings.HasSuffix(route, "Merge") {
						err = ucfg.New().Merge(in, opts...)
					} else {
						_, err = ucfg.NewFrom(in, opts...)
					}
					last = normFaultClass(err)
					outcomes[last] = true
				}
			})
			if panicked {
				rep.violate("normfaults-panic/"+route, raw, msg, "returns", "")
				continue
			}
			if len(outcomes) > 1 {
				var all []string
				for o := range outcomes {
					all = append(all, o)
				}
				rep.violate("order-dependent/"+route, raw, all, "one outcome for every repetition",
					"which of the faulty entries is reported depends on the order in which the runtime enumerates the input map")
				continue
			}
			eq := func(json.RawMessage) bool {
				if e.Ok {
					return last == "ok"
				}
				for _, kd := range e.Kinds {
					if kd == last {
						return true
					}
				}
				return false
			}
			if last == e.First {
				rep.class("first-in-key-order")
			}
			rep.classify(raw, c.Exp.Ideal, c.Exp.Alts, eq, func() interface{} {
				return map[string]interface{}{"route": route, "got": last}
			}, "normfaults/"+route)
		}
	}, rep)
	return rep.finish()
}

func init() {
	register("normfaults", &family{replay: normFaultsReplay})
}
