package main

import (
	"encoding/json"
	"flag"
	"strings"
	"time"

	ucfg "github.com/elastic/go-ucfg"
)

type varShareCase struct {
	E   *vexpr `json:"e"`
	Exp struct {
		Ideal json.RawMessage `json:"ideal"`
		Alts  []altExp        `json:"alts"`
	} `json:"exp"`
}

func vsRead(c *ucfg.Config, name string, opts ...ucfg.Option) map[string]interface{} {
	s, err := c.String(name, -1, opts...)
	if err != nil {
		return map[string]interface{}{"err": varErrClass(err)}
	}
	return map[string]interface{}{"ok": s}
}

func varShareReplay(args []string) int {
	fs := flag.NewFlagSet("varshare", flag.ExitOnError)
	fs.Int64("seed", 1, "seed")
	fs.Parse(args)
	rep := newReporter("varshare")
	base := []ucfg.Option{ucfg.PathSep("."), ucfg.VarExp}
	runCases(func(raw []byte, rep *reporter) {
		var c varShareCase
		if err := json.Unmarshal(raw, &c); err != nil {
			rep.infra("case: " + err.Error())
			return
		}
		rep.begin(raw)
		rep.nontrivial(raw)
		var e struct {
			S   json.RawMessage `json:"s"`
			D   json.RawMessage `json:"d"`
			All json.RawMessage `json:"all"`
			One json.RawMessage `json:"one"`
			Two json.RawMessage `json:"two"`
		}
		json.Unmarshal(c.Exp.Ideal, &e)
		text := c.E.render()
		type step struct {
			what string
			got  map[string]interface{}
			want json.RawMessage
		}
		var steps []step
		type pairErr struct {
			want string
			err  error
		}
		var pairErrs []pairErr
		panicked, msg := guard(func() {
			mk := func() (*ucfg.Config, *ucfg.Config) {
				s := ucfg.MustNewFrom(map[string]interface{}{"host": "S", "data": text}, base...)
				d := ucfg.New()
				if err := d.Merge(s, base...); err != nil {
					panic(err)
				}
				d.SetString("host", -1, "D")
				return s, d
			}
			// source first, then the destination, then the source again
			s, d := mk()
			steps = append(steps, step{"S.data (source read first)", vsRead(s, "data", base...), e.S})
			steps = append(steps, step{"D.data (after the source was read)", vsRead(d, "data", base...), e.D})
			steps = append(steps, step{"S.data (again)", vsRead(s, "data", base...), e.S})
			// the other order on fresh configs
			s, d = mk()
			steps = append(steps, step{"D.data (destination read first)", vsRead(d, "data", base...), e.D})
			steps = append(steps, step{"S.data (after the destination was read)", vsRead(s, "data", base...), e.S})
			// a later write to the source does not show through the destination
			s.SetString("host", -1, "S")
			steps = append(steps, step{"D.data (after a write to the source)", vsRead(d, "data", base...), e.D})
			// whole Unpack of both
			var ms, md map[string]interface{}
			if s.Unpack(&ms, base...) == nil && d.Unpack(&md, base...) == nil {
				steps = append(steps, step{"Unpack(S).data", map[string]interface{}{"ok": ms["data"]}, e.S})
				steps = append(steps, step{"Unpack(D).data", map[string]interface{}{"ok": md["data"]}, e.D})
			}
			// one template config embedded in two trees, one the Env of the other, read in ONE call
			t := ucfg.MustNewFrom(map[string]interface{}{"data": text}, base...)
			l := ucfg.MustNewFrom(map[string]interface{}{"host": "L", "primary": t, "all": "${primary.data} ${backup.data}"}, base...)
			r := ucfg.MustNewFrom(map[string]interface{}{"host": "R", "backup": t}, base...)
			steps = append(steps, step{"L.all with Env(R)", vsRead(l, "all", append(append([]ucfg.Option{}, base...), ucfg.Env(r))...), e.All})
			// two copies of the template merged under one root; ONE Unpack reads the first as a string and fails to
			// convert the second to a duration (and the other way round): the error names the copy that failed (C14)
			pair := ucfg.New()
			meta := ucfg.MetaData(ucfg.Meta{Source: "pair.yml"})
			for _, part := range []interface{}{map[string]interface{}{"host": "H"}, map[string]interface{}{"one": t}, map[string]interface{}{"two": t}} {
				if err := pair.Merge(part, append(append([]ucfg.Option{}, base...), meta)...); err != nil {
					panic(err)
				}
			}
			steps = append(steps, step{"pair one.data", vsRead(pair, "one.data", base...), e.One})
			steps = append(steps, step{"pair two.data", vsRead(pair, "two.data", base...), e.Two})
			var two struct {
				Ok *string `json:"ok"`
			}
			json.Unmarshal(e.Two, &two)
			if two.Ok != nil {
				if _, perr := time.ParseDuration(*two.Ok); perr != nil {
					type sdata struct {
						Data string `config:"data"`
					}
					type ddata struct {
						Data time.Duration `config:"data"`
					}
					var sd struct {
						One sdata `config:"one"`
						Two ddata `config:"two"`
					}
					var ds struct {
						One ddata `config:"one"`
						Two sdata `config:"two"`
					}
					pairErrs = append(pairErrs, pairErr{"two.data", pair.Unpack(&sd, base...)}, pairErr{"one.data", pair.Unpack(&ds, base...)})
				}
			}
		})
		if panicked {
			rep.violate("varshare-panic", raw, msg, "returns", "")
			return
		}
		for _, pe := range pairErrs {
			ue, isU := pe.err.(ucfg.Error)
			switch {
			case pe.err == nil:
				rep.violate("varshare-pair", raw, "Unpack returned nil", "an error naming "+pe.want, "the text of the setting is no duration")
			case isU && strings.HasPrefix(text, "${") && strings.HasSuffix(text, "}") && !strings.ContainsAny(text[2:len(text)-1], "${}:") && ue.Path() == text[2:len(text)-1]:
				// a plain reference stands for the value of ANOTHER setting: the text that does not convert is that
				// setting's, and the error may name it (the property does not say which of the two is "the" setting)
				rep.okIdeal()
			case !isU || ue.Path() != pe.want:
				rep.violate("varshare-pair", raw, pe.err.Error(), "an error naming "+pe.want, "the error names another copy of the setting")
			default:
				rep.okIdeal()
			}
		}
		for _, st := range steps {
			st := st
			rep.classify(raw, st.want, nil, eqText(st.got), func() interface{} {
				return map[string]interface{}{"read": st.what, "expr": text, "got": st.got}
			}, "varshare")
		}
	}, rep)
	return rep.finish()
}

func init() {
	register("varshare", &family{replay: varShareReplay})
}
