package main

import (
	"encoding/json"
	"flag"
	"fmt"
	"reflect"

	ucfg "github.com/elastic/go-ucfg"
)

type tagPolCase struct {
	GPol string `json:"gpol"`
	WTag string `json:"wtag"`
	DTag string `json:"dtag"`
	Old  []int  `json:"old"`
	New  []int  `json:"new"`
	Exp  struct {
		Ideal json.RawMessage `json:"ideal"`
		Alts  []altExp        `json:"alts"`
	} `json:"exp"`
}

func tagOf(name, tag string) reflect.StructTag {
	if tag == "none" {
		return reflect.StructTag(`config:"` + name + `"`)
	}
	return reflect.StructTag(`config:"` + name + `,` + tag + `"`)
}

func tagPolReplay(args []string) int {
	fs := flag.NewFlagSet("tagpol", flag.ExitOnError)
	fs.Int64("seed", 1, "seed")
	fs.Parse(args)
	rep := newReporter("tagpol")
	ints := reflect.TypeOf([]int(nil))
	runCases(func(raw []byte, rep *reporter) {
		var c tagPolCase
		if err := json.Unmarshal(raw, &c); err != nil {
			rep.infra("case: " + err.Error())
			return
		}
		rep.begin(raw)
		rep.nontrivial(raw)
		dT := reflect.StructOf([]reflect.StructField{{Name: "L", Type: ints, Tag: `config:"l"`}})
		wT := reflect.StructOf([]reflect.StructField{
			{Name: "L", Type: ints, Tag: `config:"l"`},
			{Name: "M", Type: reflect.MapOf(reflect.TypeOf(""), ints), Tag: `config:"m"`},
			{Name: "D", Type: dT, Tag: tagOf("d", c.DTag)},
		})
		tT := reflect.StructOf([]reflect.StructField{{Name: "W", Type: wT, Tag: tagOf("w", c.WTag)}})
		cp := func(x []int) []int { return append([]int{}, x...) }
		target := reflect.New(tT)
		w := target.Elem().Field(0)
		w.Field(0).Set(reflect.ValueOf(cp(c.Old)))
		w.Field(1).Set(reflect.ValueOf(map[string][]int{"k": cp(c.Old)}))
		w.Field(2).Field(0).Set(reflect.ValueOf(cp(c.Old)))
		nl := make([]interface{}, len(c.New))
		for i, x := range c.New {
			nl[i] = x
		}
		var got map[string]interface{}
		panicked, msg := guard(func() {
			cfg, err := ucfg.NewFrom(map[string]interface{}{"w": map[string]interface{}{"l": nl, "m": map[string]interface{}{"k": nl},
				"d": map[string]interface{}{"l": nl}}})
			if err != nil {
				got = map[string]interface{}{"err": err.Error()}
				return
			}
			if err := cfg.Unpack(target.Interface(), polOption(c.GPol)...); err != nil {
				got = map[string]interface{}{"err": err.Error()}
				return
			}
			w := target.Elem().Field(0)
			got = map[string]interface{}{"l": w.Field(0).Interface(), "mk": w.Field(1).Interface().(map[string][]int)["k"], "dl": w.Field(2).Field(0).Interface()}
		})
		if panicked {
			got = map[string]interface{}{"err": "panic: " + msg}
		}
		eq := func(exp json.RawMessage) bool {
			var e struct {
				L  []int `json:"l"`
				MK []int `json:"mk"`
				DL []int `json:"dl"`
			}
			if json.Unmarshal(exp, &e) != nil || got["err"] != nil {
				return false
			}
			same := func(a interface{}, b []int) bool { return fmt.Sprint(a) == fmt.Sprint(b) }
			return same(got["l"], e.L) && same(got["mk"], e.MK) && same(got["dl"], e.DL)
		}
		rep.classify(raw, c.Exp.Ideal, c.Exp.Alts, eq, func() interface{} { return got }, "tagpol")
	}, rep)
	return rep.finish()
}

func init() {
	register("tagpol", &family{replay: tagPolReplay})
}
