#!/bin/bash
# seedrun.sh <seed-dir> <check-id> [tier]  -- applies a seeded change to /repo, runs one check, undoes it.
D=$1; C=$2; T=${3:-quick}
cd /repo && git status --short | grep -q . && { echo "REPO DIRTY"; exit 2; }
git -C /repo apply /verif/$D/patch.diff || { echo "apply failed"; exit 2; }
# the evidence file of the last run on the UNCHANGED tree is put back afterwards
cp /verif/evidence/$C.json /tmp/seedrun_ev_$$.json 2>/dev/null
cd /verif && timeout 3600 bin/check $C --tier $T > /tmp/seedrun_$$.txt 2>&1; rc=$?
git -C /repo checkout -- .
[ -f /tmp/seedrun_ev_$$.json ] && mv /tmp/seedrun_ev_$$.json /verif/evidence/$C.json
echo "$D $C tier=$T exit=$rc $(grep -c '^VIOLATION' /tmp/seedrun_$$.txt) violation lines"
grep "violation \[" /tmp/seedrun_$$.txt | head -2 | cut -c1-400
grep "INFRA" /tmp/seedrun_$$.txt | head -2 | cut -c1-300
rm -f /tmp/seedrun_$$.txt
