"""Per-property check definitions: which stages run in which tier."""
from vcheck import MC, GEN, TRACE, GO

C01_INV = ["DictOK", "ListOK", "LenSum", "EmptyIsIdentity", "SelfMerge", "NoInvention"]
C16_INV = ["ScopedOutside", "ScopedInside", "NoLeak"]


def c01(tier, seed):
    q = tier == "quick"
    u = "<-U_Quick" if q else "<-U_Thorough"
    return [
        MC("MC_Merge", dict(UA=u, UB=u, FieldPaths="<-FP_None"), invariants=C01_INV, label="MC_Merge/C01"),
        GEN("Gen_Merge", dict(UA=u, UB=u, PolSet="<-Pols", FosSet="<-FosNone"), "merge",
            replay_args=["--reprs", "map,struct,cfg"], label="Gen_Merge/pairs", min_cases=100000),
        TRACE("Trace_Merge", "merge", n=3000 if q else 40000, label="Trace_Merge/random"),
    ]


def c16(tier, seed):
    q = tier == "quick"
    ua = "<-U_FhtSmall" if q else "<-U_Fht"
    st = [
        MC("MC_Merge", dict(UA="<-U_FhtSmall", UB="<-U_FhtSmall", FieldPaths="<-FP_Named"), invariants=C16_INV,
           label="MC_Merge/C16"),
        MC("MC_Merge", dict(UA="<-U_FhtSmall", UB="<-U_FhtSmall", FieldPaths="<-FP_Named"), invariants=C16_INV,
           dev={"PolicyTreeNotDescended"}, expect_violation=True, label="MC_Merge/C16-refute-deviation"),
        GEN("Gen_Merge", dict(UA=ua, UB="<-U_FhtSmall", PolSet="<-PolsTwo" if q else "<-Pols", FosSet="<-FosAll"),
            "merge", replay_args=["--reprs", "map"], label="Gen_Merge/fieldopts", min_cases=100000),
        TRACE("Trace_Merge", "merge", drive_args=["--fieldopts"], n=3000 if q else 40000,
              label="Trace_Merge/fieldopts"),
    ]
    return st


ASSUME_COMMON = [
    "the public-API observation (Unpack into map and slice, canonicalised) reads the abstract state faithfully",
    "TLC, the JVM, the Go toolchain and runtime",
    "bounded universes: exhaustive only inside the stated bounds; beyond them only the seeded random traces",
]

CHECKS = {
    "C01": dict(stages=c01, family="merge",
                rule="Gen_Merge: every (destination, source, global policy) over the bounded tree universe "
                     "(MergeUniverses.tla), each replayed with the source as map, reflect.StructOf struct and *Config; "
                     "Trace_Merge: seeded random trees (depth<=4) recorded from the real Merge and validated by TLC. "
                     "non-trivial = both operands share a key or both have a list part; distinct by (a,b,policy,options)",
                assumptions=ASSUME_COMMON),
    "C16": dict(stages=c16, family="merge",
                rule="Gen_Merge: pairs of trees carrying the same list-valued name at two depths x global policy x "
                     "per-field options (named paths, ** wildcards, pairs of options); Trace_Merge with random options. "
                     "non-trivial = operands share a slot; distinct by (a,b,policy,options)",
                assumptions=ASSUME_COMMON),
}
