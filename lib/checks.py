"""Per-property check definitions: which stages run in which tier."""
from vcheck import MC, GEN, TRACE, GO

C01_INV = ["DictOK", "ListOK", "LenSum", "EmptyIsIdentity", "SelfMerge", "NoInvention"]
C16_INV = ["ScopedOutside", "ScopedInside", "NoLeak"]


def c01(tier, seed):
    q = tier == "quick"
    u = "<-U_Quick" if q else "<-U_Thorough"
    return [
        MC("MC_Merge", dict(UA=u, UB=u, FieldPaths="<-FP_None"), invariants=C01_INV, label="MC_Merge/C01"),
        GEN("Gen_Merge", dict(UA=u, UB=u, PolSet="<-Pols", FosSet="<-FosNone"), "merge",
            replay_args=["--reprs", "map,struct,cfg"], label="Gen_Merge/pairs", min_cases=100000),
        # the source holds a REFERENCE to one of its own lists / dictionaries where the destination has a container
        GEN("Gen_Merge", dict(UA="<-U_FhtSmall", UB="<-U_FhtRef", PolSet="<-Pols", FosSet="<-FosNone"), "merge",
            replay_args=["--reprs", "map,cfg"], label="Gen_Merge/references-to-containers", min_cases=1000),
        # the DESTINATION holds a reference to one of its own sub-configs; the source mentions the referring setting, the
        # referred one, both or neither: the referred setting is not written to through the reference
        GEN("Gen_Merge", dict(UA="<-U_FhtRef", UB="<-U_DstRefB", PolSet="<-Pols", FosSet="<-FosNone"), "merge",
            replay_args=["--reprs", "map,cfg"], label="Gen_Merge/references-in-the-destination", min_cases=400),
        TRACE("Trace_Merge", "merge", n=3000 if q else 40000, label="Trace_Merge/random"),
    ]


def c16(tier, seed):
    q = tier == "quick"
    ua = "<-U_FhtSmall" if q else "<-U_Fht"
    st = [
        MC("MC_Merge", dict(UA="<-U_FhtSmall", UB="<-U_FhtSmall", FieldPaths="<-FP_Named"), invariants=C16_INV,
           label="MC_Merge/C16"),
        MC("MC_Merge", dict(UA="<-U_FhtSmall", UB="<-U_FhtSmall", FieldPaths="<-FP_Named"), invariants=C16_INV,
           dev={"PolicyTreeNotDescended"}, expect_violation=True, label="MC_Merge/C16-refute-deviation"),
        GEN("Gen_Merge", dict(UA=ua, UB="<-U_FhtSmall", PolSet="<-PolsTwo" if q else "<-Pols", FosSet="<-FosAll"),
            "merge", replay_args=["--reprs", "map"], label="Gen_Merge/fieldopts", min_cases=100000,
            # thorough: 4.6 M cases, about 8 minutes alone on 16 cores; measured to exceed 30 minutes when two other runs share them
            timeout=1800 if q else 5400),
        # the value at the per-field path is a REFERENCE to a list / dictionary of the source (variable expansion on)
        GEN("Gen_Merge", dict(UA="<-U_FhtSmall", UB="<-U_FhtRef", PolSet="<-Pols", FosSet="<-FosAll"),
            "merge", replay_args=["--reprs", "map,cfg"], label="Gen_Merge/fieldopts-on-references", min_cases=10000),
        # per-field paths through a list index (a.1, a.1.0, a.1 + a.b) over lists of lists / dictionaries
        GEN("Gen_Merge", dict(UA="<-U_FhtIdx", UB="<-U_FhtIdx", PolSet="<-Pols", FosSet="<-FosIdx"),
            "merge", replay_args=["--reprs", "map"], label="Gen_Merge/fieldopts-through-indices", min_cases=2000),
        TRACE("Trace_Merge", "merge", drive_args=["--fieldopts"], n=3000 if q else 40000,
              label="Trace_Merge/fieldopts"),
    ]
    return st


STORE_CORE = dict(MaxNodes=12, MaxArr=3, MaxHandles=3, Names="<-NamesCore", Idxs="<-IdxsCore", SetVals="<-ValsCore",
                  Frags="<-NoFrags", MergePols="<-PolsTwo", SetChildNames="<-NoNames", SweepAddrs="<-AddrsCore",
                  Roots2="<-RootB", WithEmbed=False, WithParent=False)
STORE_MERGE = dict(MaxNodes=14, MaxArr=3, MaxHandles=3, Names="<-NamesMerge", Idxs="<-IdxsMerge", SetVals="<-ValsCore",
                   Frags="<-FragsMerge", MergePols="<-PolsAll", SetChildNames="<-SCNames", SweepAddrs="<-AddrsMerge",
                   Roots2="<-RootB", WithEmbed=True, WithParent=True)
STORE_CHURN = dict(MaxNodes=6, MaxArr=3, MaxHandles=2, Names="<-NamesChurn", Idxs="<-IdxsChurn", SetVals="<-ValsCore",
                   Frags="<-NoFrags", MergePols="<-PolsTwo", SetChildNames="<-NoNames", SweepAddrs="<-AddrsChurn",
                   Roots2="<-RootB", WithEmbed=False, WithParent=False)
STORE_EMPTY = dict(MaxNodes=10, MaxArr=3, MaxHandles=3, Names="<-NamesEmpty", Idxs="<-IdxsEmpty", SetVals="<-ValsCore",
                   Frags="<-FragsEmpty", MergePols="<-PolsOne", SetChildNames="<-NoNames", SweepAddrs="<-AddrsEmpty",
                   Roots2="<-RootB", WithEmbed=True, WithParent=False)
CTX_DEVS = ["DetachKeepsCtx", "SetCtxOnlyIfEmpty", "CopyKeepsStoredFld"]


def store_stages(tier, comps, trace_comps, mc_inv, mc_props, refute, only_devs, mc_universe="core", gen_core=True,
                 merge_depth=(2, 3)):
    q = tier == "quick"
    # depth 4 of the core universe was measured: MC_Store does not finish within 45 minutes on 16 cores (> 250 CPU-minutes),
    # so both tiers explore depth 3 exhaustively; the thorough tier deepens the list-churn universe, the merge universe
    # and the number of random sessions instead
    core = dict(STORE_CORE, MaxOps=3)
    mrg = dict(STORE_MERGE, MaxOps=merge_depth[0] if q else merge_depth[1])
    mcu = dict(core if mc_universe == "core" else dict(STORE_MERGE, MaxOps=2 if q else 3), TreeOnly=True)
    st = [MC("MC_Store", mcu, invariants=mc_inv, properties=mc_props, spec="Spec", label="MC_Store/ideal")]
    for d, inv in refute:
        st.append(MC("MC_Store", mcu, invariants=[i for i in inv if not i.endswith("Prop")],
                     properties=[i for i in inv if i.endswith("Prop")], spec="Spec", dev={d}, expect_violation=True,
                     label="MC_Store/refute-" + d))
    if gen_core:
        st.append(GEN("Gen_Store", core, "store", replay_args=["--components", comps], label="Gen_Store/core",
                      only_devs=only_devs, min_cases=20000))
        st.append(GEN("Gen_Store", dict(STORE_CHURN, MaxOps=5 if q else 6), "store", replay_args=["--components", comps],
                      label="Gen_Store/list-churn", only_devs=only_devs, min_cases=5000))
    # empty sub-configs that outlive their copy (merged from / embedded out of a held config), then written to on one side
    st.append(GEN("Gen_Store", dict(STORE_EMPTY, MaxOps=3), "store", replay_args=["--components", comps + ",obs,sweep"],
                  label="Gen_Store/empty-subconfigs", only_devs=None, min_cases=500))
    st += [
        # the merge universe and the random sessions contain Parent(): its RESULT depends on the recorded
        # parent link, so all layers of the open ctx finding are needed there whatever the components are
        GEN("Gen_Store", mrg, "store", replay_args=["--components", comps], label="Gen_Store/merge",
            only_devs=None, min_cases=3000),
        TRACE("Trace_Store", "store", consts=dict(MaxNodes=1000, MaxArr=1000, Components="<-" + trace_comps),
              drive_args=["--components", comps, "--steps", "25"], n=120 if q else 1500, only_devs=None,
              label="Trace_Store/sessions"),
    ]
    return st


def c12(tier, seed):
    return store_stages(tier, "obs,sweep,count,kind,at", "CompsC12",
                        ["ReadYourWrite", "HasIffGet", "RemoveRemoves", "NoPanic"], ["FrameProp", "ShiftPadProp"],
                        [("NegativeIndexPanics", ["NoPanic"])], only_devs=[])


def c15(tier, seed):
    return store_stages(tier, "obs,path,flat,cmp,up", "CompsC15",
                        ["CtxOK", "LinksTrue", "FlatExact", "CompareOK"], [],
                        [("DetachKeepsCtx", ["LinksTrue"]), ("DelAtNoRenumber", ["CtxOK"])], only_devs=None)


def c10(tier, seed):
    st = store_stages(tier, "obs,at,path,up", "CompsC10", ["NoSharing"], ["SourceUntouchedProp"],
                      [("EmbedReparentsSource", ["SourceUntouchedProp"])], only_devs=None, mc_universe="merge",
                      gen_core=False, merge_depth=(3, 3))
    q = tier == "quick"
    u = "<-U_Tiny" if q else "<-U_Quick"
    st.append(GEN("Gen_Merge", dict(UA=u, UB=u, PolSet="<-Pols", FosSet="<-FosNone"), "merge",
                  replay_args=["--reprs", "cfg", "--check-source"], label="Gen_Merge/source-untouched", min_cases=1000))
    # the destination holds a reference - to a container, to a primitive - where the *Config source holds a container:
    # the result shares no node with the source
    st.append(GEN("Gen_Merge", dict(UA="<-U_FhtRef", UB="<-U_DstRefB", PolSet="<-Pols", FosSet="<-FosNone"), "merge",
                  replay_args=["--reprs", "cfg", "--check-source"], label="Gen_Merge/destination-references-source-untouched", min_cases=400))
    st.append(GEN("Gen_Merge", dict(UA="<-U_DstRefPrim", UB="<-U_DstRefB", PolSet="<-Pols", FosSet="<-FosNone"), "merge",
                  replay_args=["--reprs", "cfg", "--check-source"], label="Gen_Merge/references-to-primitives-source-untouched", min_cases=100))
    # ... also for settings that hold ${...}: source and destination read in both orders, writes on either side
    st.append(GEN("Gen_VarShare", dict(NameTab="<-TabShare", Groups="={}"), "varshare", known_const=None,
                  label="Gen_VarShare/copies-of-one-setting", min_cases=8))
    return st


def norm_consts(tier):
    q = tier == "quick"
    return dict(Paths="<-PathsOv", Vals="<-ValsOvQuick" if q else "<-ValsOv", MaxEntries=3,
                FlatTrees="<-TreeD2Quick" if q else "<-TreeD2", PolSet="<-PolsD" if q else "<-PolsDA")


def c05(tier, seed):
    q = tier == "quick"
    nc = norm_consts(tier)
    return [
        MC("MC_Normalize", nc, invariants=["Confluent", "OrderFree", "FlattenOK", "Idempotent"], label="MC_Normalize/ideal"),
        MC("MC_Normalize", nc, invariants=["ConflictRejected"], expect_violation=True,
           label="MC_Normalize/sequential-insertion-accepts-conflicts"),
        GEN("Gen_Normalize", nc, "norm", replay_args=["--reprs", "struct,msi,mii,typed,ptr,cfg", "--repeat", "2"],
            label="Gen_Normalize/all-representations", min_cases=10000),
        TRACE("Trace_Normalize", "norm", n=2000 if q else 30000, label="Trace_Normalize/random",
              trace_file="trace_norm.ndjson"),
    ]


def c09(tier, seed):
    q = tier == "quick"
    nc = norm_consts(tier)
    u = "<-U_Tiny" if q else "<-U_Quick"
    k = "8" if q else "32"
    return [
        MC("MC_Normalize", nc, invariants=["Confluent", "OrderFree"], label="MC_Normalize/order-free"),
        GEN("Gen_Normalize", nc, "norm", replay_args=["--reprs", "msi,mii", "--repeat", k],
            label="Gen_Normalize/map-orders", min_cases=10000),
        GEN("Gen_Merge", dict(UA=u, UB=u, PolSet="<-Pols", FosSet="<-FosNone"), "merge",
            replay_args=["--reprs", "map,cfg", "--repeat", k], label="Gen_Merge/map-orders", min_cases=1000),
        # a destination setting that REFERS to another one, both mentioned by the source: the outcome must not depend on
        # which of the two the runtime visits first
        GEN("Gen_Merge", dict(UA="<-U_FhtRef", UB="<-U_DstRefB", PolSet="<-Pols", FosSet="<-FosNone"), "merge",
            replay_args=["--reprs", "map,cfg", "--repeat", k], label="Gen_Merge/destination-references-x-orders", min_cases=400),
        # inputs that are REJECTED: several faulty entries (unsupported type, non-string keys, a nested duplicate) in one
        # map - the same kind of error every time
        MC("Gen_NormFaults", dict(Groups="={}"), invariants=["RejectedIffFaulty"], label="MC_NormFaults/rejected-iff-faulty"),
        GEN("Gen_NormFaults", {}, "normfaults", replay_args=["--repeat", "12" if q else "48"], label="Gen_NormFaults/faulty-entries-x-orders", min_cases=250),
        # pre-filled collections (maps of interface{} values among them) whose unmentioned entries are validated: one outcome
        GEN("Gen_Reach", {}, "reach", replay_args=["--repeat", "24" if q else "96"], label="Gen_Reach/wrappers-x-orders", min_cases=200),
        # settings that reference each other: create + Unpack of the whole config, repeated; the per-call cache and
        # the active set are shared between the fields, which the runtime visits in a fresh random order every time
        varexp_gen(tier, label="Gen_VarExp/unpack-orders", extra=["--repeat", "6" if q else "16", "--every", "2" if q else "1"]),
        # nodes with named AND indexed entries, plain dictionaries and plain lists whose two settings fail in different ways
        GEN("Gen_VarMixed", dict(NameTab="<-TabMixed"), "varexp", replay_args=["--repeat", "12" if q else "40"],
            label="Gen_VarMixed/unpack-orders", min_cases=700),
    ]


def c20(tier, seed):
    q = tier == "quick"
    return [
        MC("Gen_Paths", dict(Groups="={}"), invariants=["AllocBound", "RoundTrip", "NumKeysNamed", "BracketsAreNames"], label="MC_Paths/rule"),
        GEN("Gen_Paths", {}, "paths", label="Gen_Paths/spellings", min_cases=5000),
        TRACE("Trace_Paths", "paths", n=3000 if q else 60000, label="Trace_Paths/random-literals",
              trace_file="trace_paths.ndjson"),
    ]


def parse_gen(tier, label="Gen_Parse/strings+json"):
    q = tier == "quick"
    return GEN("Gen_Parse", dict(MaxLen=4 if q else 5, Alphabet="<-AlphaFull", Docs="<-DocsQuick" if q else "<-DocsFull"),
               "parse", label=label, min_cases=50000)


def c17(tier, seed):
    q = tier == "quick"
    mcc = dict(MaxLen=3, Alphabet="<-AlphaFull", Docs="<-DocsQuick" if q else "<-DocsFull", Groups="={}")
    return [
        MC("Gen_Parse", mcc, invariants=["RoundTrip", "NoPanic"], label="MC_Parse/roundtrip"),
        parse_gen(tier),
        TRACE("Trace_Parse", "parse", n=5000 if q else 100000, label="Trace_Parse/encoding-json-documents",
              trace_file="trace_parse.ndjson"),
    ]


def c19(tier, seed):
    q = tier == "quick"
    gc = dict(MaxArgs=2 if q else 3, ArgSet="<-Args12", OptSet="<-OptsAll")
    return [
        MC("Gen_Flags", dict(gc, MaxArgs=2, Groups="={}"), invariants=["IsFold", "LastWins", "BareTrue"],
           properties=["Sticky", "EmptyIgnored"], label="MC_Flags/fold"),
        GEN("Gen_Flags", dict(gc, MaxArgs=3), "flags", label="Gen_Flags/sequences", min_cases=10000),
        TRACE("Trace_Flags", "flags", n=2000 if q else 40000, label="Trace_Flags/random-sequences",
              trace_file="trace_flags.ndjson"),
        # the FILE flag: sequences of files (two loaders by extension, optional default loader, malformed and loader-less files)
        MC("Gen_FlagFiles", dict(MaxArgs=2, Groups="={}"), invariants=["IsFold"], properties=["Sticky"], label="MC_FlagFiles/fold"),
        GEN("Gen_FlagFiles", dict(MaxArgs=2 if q else 3), "flagfiles", gen_family="flags", label="Gen_FlagFiles/sequences", min_cases=300),
    ]


def varexp_consts(tier, big=False):
    q = tier == "quick"
    sh = "<-ShSmall" if q else "<-ShQuick"
    return dict(NameTab="<-TabNK", ShapesA=sh, ShapesB=sh, ShapesC=sh, ShapesK="<-ShK",
                EnvSets="<-EnvsQuick" if q else "<-EnvsAll", ResSets="<-ResQuick" if q else "<-ResAll")


def varexp_gen(tier, label="Gen_VarExp/worlds", extra=()):
    return GEN("Gen_VarExp", varexp_consts(tier), "varexp", replay_args=list(extra), label=label, min_cases=10000,
               timeout=3600)


def var_mc(tier):
    q = tier == "quick"
    return dict(NameTab="<-TabNK", ShapesA="<-ShSmall", ShapesB="<-ShSmall", ShapesC="<-ShSmall", ShapesK="<-ShK",
                EnvSets="<-EnvsQuick" if q else "<-EnvsAll", ResSets="<-ResQuick" if q else "<-ResAll", Groups="={}")


def c02(tier, seed):
    return [
        MC("Gen_VarExp", var_mc(tier), invariants=["NoSilentEmpty", "LookupOrder"], label="MC_VarExp/lookup-order"),
        varexp_gen(tier),
        varexp_gen("quick", label="Gen_VarExp/late-binding", extra=["--split-merge", "--every", "3" if tier == "quick" else "1"]),
        GEN("Gen_VarMixed", dict(NameTab="<-TabMixed"), "varexp", label="Gen_VarMixed/node-shapes", min_cases=500),
        # settings with ${...} that are copies of one another (merged / embedded *Config): each is evaluated in ITS tree
        MC("Gen_VarShare", dict(NameTab="<-TabShare", Groups="={}"), invariants=["Independent"], label="MC_VarShare/independent"),
        GEN("Gen_VarShare", dict(NameTab="<-TabShare", Groups="={}"), "varshare", known_const=None, label="Gen_VarShare/copies-of-one-setting", min_cases=8),
        # the layers a reference falls through: Env configurations with references of their own, resolvers of every kind
        # (Resolve(fn), ResolveEnv, ResolveNOOP, one answering with the empty text) in every order
        MC("Gen_VarLayers", dict(NameTab="<-TabLayers", Groups="={}"), invariants=["TypeOK", "ResolverOrder"], label="MC_VarLayers/resolver-order"),
        GEN("Gen_VarLayers", dict(NameTab="<-TabLayers"), "varexp", label="Gen_VarLayers/envs-x-resolver-kinds", min_cases=15000),
        varexp_trace(tier),
    ]


def varexp_trace(tier):
    # direction B: random worlds (expressions of depth <= 3 over every operator, random Env configurations and resolvers of
    # every kind) read on the real code; TLC evaluates the same world with UcfgVarExp and compares every read
    return TRACE("Trace_VarExp", "varexp", consts=dict(NameTab="<-TabTrace"), n=1500 if tier == "quick" else 40000,
                 label="Trace_VarExp/random-worlds", trace_file="trace_varexp.ndjson")


def c08(tier, seed):
    return [
        MC("UcfgVarExpSteps", dict(Dev="<-NoDev"), invariants=["StackBounded", "ResultSet"], properties=["Terminates"],
           spec="Spec", label="MC_Steps/terminates"),
        MC("UcfgVarExpSteps", dict(Dev="<-FlatDev"), invariants=["StackBounded"], spec="Spec", expect_violation=True,
           label="MC_Steps/refute-FlattenFreshActiveSet"),
        MC("Gen_VarExp", var_mc(tier), invariants=["NoFalseCycle", "FlattenReturns"], label="MC_VarExp/no-false-cycle"),
        varexp_gen(tier),
        GEN("Gen_VarMixed", dict(NameTab="<-TabMixed"), "varexp", label="Gen_VarMixed/node-shapes", min_cases=500),
        # a name that is active in the root is another reference inside an Env configuration; a cycle through two Env
        # configurations is still a cycle; a time.Duration field and a string field of ONE struct using the same variable
        MC("Gen_VarLayers", dict(NameTab="<-TabLayers", Groups="={}"), invariants=["TypeOK", "NoCrossTreeFalseCycle", "CrossEnvCycleReported"],
           label="MC_VarLayers/cycles-across-trees"),
        MC("Gen_VarLayers", dict(NameTab="<-TabLayers", Groups="={}"), invariants=["NameKeyedFalseCycle"], expect_violation=True,
           label="MC_VarLayers/refute-ActiveKeyedByName"),
        GEN("Gen_VarLayers", dict(NameTab="<-TabLayers"), "varexp", label="Gen_VarLayers/envs-x-resolver-kinds", min_cases=15000),
        varexp_trace(tier),
    ]


def c03(tier, seed):
    q = tier == "quick"
    return [
        MC("Gen_Convert", dict(Groups="={}"), invariants=["NoWrapIdeal"], label="MC_Convert/no-third-outcome"),
        MC("Gen_Convert", dict(Groups='={{"FloatBoundsNaN"}}'), invariants=["NoWrapKnown"], expect_violation=True,
           label="MC_Convert/refute-FloatBoundsNaN"),
        MC("Gen_Convert", dict(Groups='={{"DurationNoOverflowCheck"}}'), invariants=["NoWrapKnown"], expect_violation=True,
           label="MC_Convert/refute-DurationNoOverflowCheck"),
        GEN("Gen_Convert", {}, "conv", label="Gen_Convert/boundaries", min_cases=3000),
        MC("Gen_ConvText", dict(Groups="={}"), invariants=["NoThird"], label="MC_ConvText/text-syntaxes"),
        GEN("Gen_ConvText", {}, "convtext", gen_family="conv", label="Gen_ConvText/texts-bools-strings", min_cases=300),
        TRACE("Trace_Convert", "conv", n=20000 if q else 500000, label="Trace_Convert/random-bit-patterns",
              trace_file="trace_conv.ndjson"),
    ]


def reify_stages(inv, refute, tier="quick"):
    deep = dict(Deep=(tier != "quick"))
    st = [MC("Gen_Reify", dict(deep, Groups="={}"), invariants=inv, label="MC_Reify/ideal")]
    for dev, i in refute:
        st.append(MC("Gen_Reify", dict(Deep=False, Groups='={{"%s"}}' % dev), invariants=i, expect_violation=True,
                     label="MC_Reify/refute-" + dev))
    st.append(GEN("Gen_Reify", deep, "reify", label="Gen_Reify/types-x-validators-x-configs", min_cases=20000))
    return st


def c04(tier, seed):
    return reify_stages(["OkIsValid"], [("PtrDefaultSkipsRange", ["OkIsValid"]), ("UncheckedCarriedOver", ["OkIsValid"])], tier) + [
        MC("Gen_Validators", dict(Groups="={}"), invariants=["OkIsValid", "BreakFails"], label="MC_Validators/table"),
        GEN("Gen_Validators", {}, "validators", label="Gen_Validators/kinds-x-tags-x-defaults-x-settings", min_cases=13000),
        # the validated field reached through every kind of wrapper (pointers to pointers, interface{}-held values, elements of
        # slices / arrays / maps in all these forms), pre-filled, with the configuration mentioning nothing or only a part
        MC("Gen_Reach", dict(Groups="={}"), invariants=["NoInvalidAccepted", "DefaultsKept"], label="MC_Reach/reachable-defaults"),
        GEN("Gen_Reach", {}, "reach", label="Gen_Reach/wrappers-x-defaults-x-settings", min_cases=200),
    ] + unpacker_stages()


def c13(tier, seed):
    return reify_stages(["Frame"], [], tier) + [
        # which merge policy is ACTIVE for a list: global option vs. struct tags at two levels (a tag wins, also `merge`)
        MC("Gen_TagPol", dict(Groups="={}"), invariants=["TagWins"], label="MC_TagPol/active-policy"),
        GEN("Gen_TagPol", {}, "tagpol", label="Gen_TagPol/global-x-tags-x-lists", min_cases=500),
        # pre-filled GENERIC containers (map[string]interface{}, interface{}, []interface{} holding nested maps and lists):
        # only what the configuration mentions changes, at every depth, lists by the active policy
        MC("Gen_GenericMerge", dict(Groups="={}"), invariants=["OnlyMentioned", "AppendKeepsAll"], label="MC_GenericMerge/only-mentioned"),
        GEN("Gen_GenericMerge", {}, "generic", label="Gen_GenericMerge/prefilled-x-settings-x-policies", min_cases=50),
        # direction B: random struct types; the packed configuration with random top-level settings removed is unpacked into a
        # target pre-filled with a second random value - TLC computes what must have changed (Trace_Pack.Ov) and what must not
        pack_trace(tier),
    ] + unpacker_stages()


def c14(tier, seed):
    return reify_stages(["ErrNamesSetting"], [("DefaultErrPathNotNested", ["ErrNamesSetting"]), ("MapElemUnaddressable", ["ErrNamesSetting"])], tier) + [
        MC("Gen_Faults", dict(Groups="={}"), invariants=["SitesExist"], label="MC_Faults/sites"),
        GEN("Gen_Faults", {}, "faults", label="Gen_Faults/types-x-sites-x-fault-kinds", min_cases=20000),
        pack_trace(tier),
        # copies of one ${...} setting under one root: the error of a failed conversion names the copy that failed
        GEN("Gen_VarShare", dict(NameTab="<-TabShare", Groups="={}"), "varshare", known_const=None, label="Gen_VarShare/error-names-the-failing-copy", min_cases=8),
    ] + unpacker_stages()


def unpacker_stages():
    # the typed unpacker interfaces as a call protocol (not called for absent / null / unconvertible settings, called once
    # with the converted value, its error and its Validate() fail the call, the field keeps what it held)
    return [
        MC("Gen_Unpackers", dict(Groups="={}"), invariants=["CalledOnlyWithValue", "InvalidNeverAccepted"], label="MC_Unpackers/protocol"),
        GEN("Gen_Unpackers", dict(Groups="={}"), "unpackers", known_const=None, label="Gen_Unpackers/kinds-x-sites-x-settings-x-behaviours", min_cases=1400),
    ]


def pack_trace(tier):
    return TRACE("Trace_Pack", "pack", n=2000 if tier == "quick" else 40000, label="Trace_Pack/random-types-values-faults",
                 trace_file="trace_pack.ndjson")


def c06(tier, seed):
    return [
        MC("Gen_Pack", dict(Groups="={}"), invariants=["Identity", "PackOK"], label="MC_Pack/identity"),
        GEN("Gen_Pack", {}, "pack", label="Gen_Pack/struct-types-x-values", min_cases=30000),
        pack_trace(tier),
    ]


def c11(tier, seed):
    q = tier == "quick"
    vc = varexp_consts("quick")
    return [
        MC("UcfgReaders", dict(Readers={"r1", "r2", "r3"}, Dev="<-NoDev"), invariants=["SharedUnchanged", "ResultIsSequential"],
           spec="Spec", label="MC_Readers/ideal"),
        MC("UcfgReaders", dict(Readers={"r1", "r2"}, Dev="<-MemoDev"), invariants=["ResultIsSequential"], spec="Spec",
           expect_violation=True, label="MC_Readers/refute-MemoOnValue"),
        GEN("Gen_VarExp", vc, "readers", gen_family="varexp", replay_args=["--goroutines", "8" if q else "32", "--every", "2" if q else "1"],
            label="Gen_VarExp/pure-and-concurrent-reads", min_cases=10000),
        GEN("Gen_VarExp", vc, "readers", gen_family="varexp", replay_args=["--goroutines", "8", "--every", "12" if q else "1"],
            race=True, label="Gen_VarExp/race-detector", min_cases=1000, timeout=3600),
        # "using a config as a merge source does not modify the config": the store machine's merge universe (source merged
        # directly, embedded in a map / list / ordered struct with a dotted sibling, root and non-root sources, all policies)
        MC("MC_Store", dict(STORE_MERGE, MaxOps=2, TreeOnly=True), invariants=["NoSharing"], properties=["SourceUntouchedProp"],
           spec="Spec", label="MC_Store/source-untouched"),
        GEN("Gen_Store", dict(STORE_MERGE, MaxOps=2 if q else 3), "store", replay_args=["--components", "obs,at,path"],
            label="Gen_Store/merge-source-untouched", only_devs=None, min_cases=3000),
    ]


def c18(tier, seed):
    q = tier == "quick"
    return [
        MC("Gen_Loaders", dict(Groups="={}"), invariants=["SepIrrelevant"], label="MC_Loaders/separator"),
        GEN("Gen_Loaders", {}, "loaders", label="Gen_Loaders/documents-x-3-front-ends", min_cases=500),
        TRACE("Trace_Normalize", "loaders", n=3000 if q else 60000, label="Trace_Normalize/random-documents",
              trace_file="trace_norm.ndjson", known_const="Groups"),
    ]


def c07(tier, seed):
    q = tier == "quick"
    core = dict(STORE_CORE, MaxOps=2 if q else 3, TreeOnly=True)
    return [
        MC("MC_Store", core, invariants=["NoPanic"], spec="Spec", label="MC_Store/no-panic"),
        MC("MC_Store", core, invariants=["NoPanic"], spec="Spec", dev={"NegativeIndexPanics"}, expect_violation=True,
           label="MC_Store/refute-NegativeIndexPanics"),
        MC("Gen_Parse", dict(MaxLen=3, Alphabet="<-AlphaFull", Docs="<-DocsQuick", Groups='={{"EofPanics"}}'), invariants=["NoPanicKnown"],
           expect_violation=True, label="MC_Parse/refute-EofPanics"),
        parse_gen(tier, label="Gen_Parse/all-short-strings"),
        # every (name, idx) address - negative, huge, beyond the end - read and written in every reachable store state;
        # a panic anywhere (also while observing afterwards) is a violation of C07
        GEN("Gen_Store", dict(STORE_CORE, MaxOps=2 if q else 3), "store", replay_args=["--components", "obs,sweep,count,kind,at"],
            label="Gen_Store/core", only_devs=[], min_cases=2000),
        GEN("Gen_Store", dict(STORE_CHURN, MaxOps=5 if q else 6), "store", replay_args=["--components", "obs,sweep,count,kind,at"],
            label="Gen_Store/list-churn", only_devs=[], min_cases=5000),
        TRACE("Trace_Store", "store", consts=dict(MaxNodes=1000, MaxArr=1000, Components="<-CompsC12"),
              drive_args=["--components", "obs,sweep,count,kind,at", "--steps", "25"], n=60 if q else 1000, only_devs=None,
              label="Trace_Store/sessions"),
        # every target type x validator x shape of setting: Unpack returns
        GEN("Gen_Targets", {}, "targets", label="Gen_Targets/types-x-validators-x-settings", min_cases=10000),
        # every kind of resolver in every order (one answers with the empty text), Env configurations with references:
        # every world read in nine ways in a child process
        GEN("Gen_VarLayers", dict(NameTab="<-TabLayers"), "varexp", label="Gen_VarLayers/envs-x-resolver-kinds", min_cases=15000),
        GO("robust", "fuzz", args=["--mutations", "3000" if q else "40000", "--splice-len", "6" if q else "7"],
           label="robust/mutation+enumeration", min_cases=100000),
    ]


ASSUME_COMMON = [
    "the public-API observation (Unpack into map and slice, canonicalised) reads the abstract state faithfully",
    "TLC, the JVM, the Go toolchain and runtime",
    "bounded universes: exhaustive only inside the stated bounds; beyond them only the seeded random traces",
]

STORE_RULE = ("Gen_Store: every transition of the heap/handle state machine to depth %s over the name/index/fragment "
              "universes of StoreUniverses.tla (shortest history + operation + expected result and projection), replayed through "
              "the public API; Trace_Store: seeded random sessions (25 operations, up to 5 handles, merges with all policies, "
              "embedded configs, dotted-key fragments, SetChild, Parent) recorded from the real code and validated by TLC; the universes hold "
              "names with and without separator, the confusable spellings (path c.d vs. literal key 'c.d'), indices -1, 0, 2 and 2000 (beyond "
              "MaxIdx), empty lists, embedded root and non-root configs, an ordered struct with a dotted sibling, list churn to depth 5 (6). "
              "non-trivial = the operation changed the state or returned an error; distinct by (history, operation)")

NORM_RULE = ("Gen_Normalize: every ordered input of <= 3 entries over 5 overlapping dotted keys x value shapes, and every "
             "partial flattening of every tree of the bounded universe, each built as reflect.StructOf struct (exact visiting "
             "order), map[string]interface{}, map[interface{}]interface{}, typed map/slice, pointers, nested *Config and "
             "fixed-size arrays, and additionally spelled with the path separators '/' and '::'; Trace_Normalize: random trees (depth<=4), "
             "random flattening/representation. "
             "non-trivial = at least two entries; distinct by input")

VAR_RULE = ("Gen_VarExp: every assignment of expression shapes (literal, ${x}, repeated ${x}${x}, prefix+ref, ${x:d}, ${x:${y}}, "
            "${x:+y}, ${x:?m}, ${${x}}, ${x:+y}${x}, typed number) to the settings a, b, c and of 5 shapes to the nested n.k "
            "(incl. a cycle through the sub-dictionary, a multi-segment name through a reference-valued setting a.k, a dotted name with a "
            "missing first segment q.k), a fixed list l: [${b}, {x: ${c}}] x Env set-ups (none, one, two in both orders, a name known to both) x "
            "resolver set-ups (none, one knowing nothing, one, two in both orders, one whose texts the value parser turns into a number, a "
            "bool and a list); per world String(), typed Unpack of one field (interface{} and string typed), Has, CountField, Child for "
            "eight names, Unpack of the whole config (also in statically cyclic worlds), Unpack of n into a recursive struct type where n.k "
            "leads back to n, FlattenedKeys and CompareConfigs - every world in a crash-isolated child process; Gen_VarMixed: nodes with "
            "named and indexed entries / dictionaries / lists whose two settings fail in different ways, read setting by setting, as a "
            "whole and by ONE Unpack into a struct with five fields (a name used twice, a diamond over a container); Gen_VarShare: copies "
            "of one ${...} setting in two trees (merged, embedded template, Env). non-trivial: every world; distinct by world")

REIFY_RULE = ("Gen_Reify: target struct{G int; F T (validate:v); H int} built with reflect.StructOf, T in {int, *int, In, *In, []int, []In, "
              "map[string]int, map[string]In, two map types with InitDefaults} (In{X int min=2; Y int} in four variants: plain, InitDefaults with a "
              "valid / an invalid default, Validate()), v in {none, nonzero, positive, min=2, max=5, required} (thorough: also pairs and a "
              "triple), slice policies default / append / prepend / replace, 3-5 pre-filled values per type, 25 configuration shapes for f "
              "(absent, nil, ints, unparsable text, objects, lists, nested objects, failing elements, the value Validate() rejects) x 3x3 "
              "shapes for g/h (incl. a failing one after F succeeded) = 201 150 (335 250) cases; Gen_Validators: 12 kind classes x tags in "
              "every parameter syntax x defaults x settings in every syntax; Gen_TagPol: global policy x struct tags at two levels x lists; "
              "Gen_Faults: (struct type, value incl. *regexp.Regexp) x site x fault kind, built by NewFrom, by two merges, with every list renumbered by "
              "a Remove and with every nested dictionary written as dotted keys, Unpack and typed getter; Gen_Unpackers: the eight typed unpacker "
              "interfaces x 6 sites x 10 settings x 3 behaviours as a call protocol (not called for absent / null / unconvertible settings, "
              "called once with the converted value, its error and its Validate() fail the call, the field keeps what it held); Trace_Pack: "
              "random struct types with one random fault each; compared: outcome class, every field "
              "value incl. nil-vs-empty, the dotted path quoted in the error, ucfg.Error with Reason and Class, target untouched on error. "
              "non-trivial: every case; distinct by (type, validator, pre-fill, config)")

CHECKS = {
    "C07": dict(stages=c07, family="robust",
                rule="TLC: NoPanic of the store machine (every Set/Remove/Child call of the universe in every reachable state) and of the value "
                     "parser; Gen_Parse: every string of <= 4 (5) characters under four parser configs; robust: byte-level mutations (drop, duplicate, "
                     "swap, truncate, replace, insert; 1-3 per document) of YAML/JSON/HJSON documents and flag argument lists fed to the three loaders "
                     "and FlagValue.Set, every string of <= 6 (7) characters over $ { } : + ? a . stored under VarExp and read in seven ways with the "
                     "goroutine count compared, random 6-25 character parser inputs under six configs - all in child processes with a deadline; 31 "
                     "adversarial names x 12 indices (negative, MaxIdx, 2^31, 2^62, MaxInt64, MinInt64) x 5 option sets through every getter, setter, "
                     "Has, Remove, Child, CountField with the allocated list length compared with MaxIdx+1 (setters with idx up to 2^62 in child "
                     "processes, SetChild(nil)); the store machine's core and list-churn universes and random sessions with the full (name, idx) "
                     "sweep; Gen_Targets: 100 target types (every primitive kind, named primitive types, pointers, slices, arrays, maps, "
                     "collections of pointers, custom unpackers and lookalikes, interface-typed fields, interface{}, chan / func / complex) x 6 "
                     "validators x 17 setting shapes x zero / allocated / bare target, in child processes with a deadline; 40 unpack targets (nil, typed nil, chan, "
                     "func, complex, non-string-keyed maps, nested pointers, unexported fields) x 4 sources; 15 unsupported merge sources. "
                     "non-trivial: every case; distinct by request",
                exhaustive=False,
                assumptions=ASSUME_COMMON + ["the YAML/JSON/HJSON decoders are third-party code: their robustness is explored by mutation only",
                                             "a dead or timed-out child process is the observation 'did not return'"]),
    "C18": dict(stages=c18, family="loaders",
                rule="Gen_Loaders: documents {k1: v1, c: v2} with k1 in {a, a.b, 'k k'}, v1 over 15 awkward strings (yes, ~, 2001-01-01, 1:30, null, "
                     "'', 1e3, 0x1f, a$b, ...), 5 boundary numbers, booleans, null, nested objects and lists; each rendered compact and indented and "
                     "loaded by yaml/json/hjson NewConfig and NewConfigWithFile, with and without PathSep and VarExp (24 loads per rendering); an "
                     "error is provoked about every setting (file named iff loaded from a file) and every number is read through Uint / Int / "
                     "Float / Bool / a time.Duration field and compared with the exact value of the document's token; six failing expansions "
                     "(missing, splice, nested name, two cycles, required) added one at a time at the top level / in a nested list / in an object "
                     "and read by Unpack into generic and typed targets and by String(): the error names the file iff there is one; "
                     "Trace_Normalize: random documents (48 awkward strings, 17 awkward keys, 15 numbers) through a random front-end. "
                     "non-trivial: every document; distinct by document",
                assumptions=ASSUME_COMMON + ["the YAML, JSON and HJSON decoders are third-party code outside the specification; the documents are JSON text, which all three accept"]),
    "C11": dict(stages=c11, family="readers",
                rule="the worlds of Gen_VarExp (references, repeated references, splices, defaults, Env configs, resolvers); per world: nine read "
                     "operations (String x5, Unpack into map, Unpack into a struct capturing a *Config, three Unpacks into the same capturing struct, "
                     "Has/CountField/Child/GetFields/Path, use as merge source - directly, with MetaData, embedded (root and sub-config) in a "
                     "list, an ordered struct and a map with dotted siblings - typed getters) each followed by a name-free reflective deep hash of everything reachable from the config; "
                     "the store machine's merge universe (source untouched, no sharing) checked by TLC and replayed; "
                     "re-reads under a different resolver; 8-32 goroutines x 3 rounds of all reads on a FRESH shared config compared with the "
                     "sequential answers and with UcfgVarExp's expectation; the same under the Go race detector. "
                     "non-trivial: every world; distinct by world",
                assumptions=ASSUME_COMMON + ["absence of data races is observed by Go's race detector on the executed interleavings, not derived",
                                             "the deep hash reads unexported state through reflect+unsafe and numbers pointers in traversal order"]),
    "C04": dict(stages=c04, family="reify", rule=REIFY_RULE, assumptions=ASSUME_COMMON),
    "C13": dict(stages=c13, family="reify", rule=REIFY_RULE, assumptions=ASSUME_COMMON),
    "C14": dict(stages=c14, family="reify", rule=REIFY_RULE, assumptions=ASSUME_COMMON),
    "C06": dict(stages=c06, family="pack",
                rule="Gen_Pack: two-field structs over 15 field types (7 primitive kinds incl. Duration, *int64, *struct with a dotted tag, "
                     "slices, fixed array, maps of strings and of structs, nested struct) x tags {default, renamed, dotted, inline, ignore} x "
                     "extreme values (int64 min, uint64 max, 'a$b.c,d{e}', nil and empty collections), positional structs (integer-literal tags), all 12 "
                     "numeric kinds x their boundaries as field / pointer / slice / array / map element, *regexp.Regexp (nil, patterns with white space "
                     "at the edges), exported field names of every legal form (non-ASCII initial, underscore, one letter) = 247 543 well-formed (type, value) pairs; "
                     "Trace_Pack: random struct types (depth <= 3) and values; "
                     "compared: the packed tree and the round-tripped value (nil ~ empty). non-trivial: every pair; distinct by (type, value)",
                assumptions=ASSUME_COMMON + ["generated struct types are well-formed (no two fields resolving to the same or prefix-related names)"]),
    "C03": dict(stages=c03, family="conv",
                rule="Gen_Convert: 4 source kinds (Go int64, uint64, float64, decimal text) x (23 named boundaries incl. +-MaxFloat32 and their float64 neighbours x offsets -2..2 x "
                     "{whole, half} + NaN, +Inf, -Inf) x 13 targets (int8..int64, int, uint8..uint64, uint, float32/64, Duration), each through "
                     "a struct field, a pointer field, a named type, a ${reference}, a splice (${x:0}, through text), the typed setters and - for "
                     "64-bit targets - the typed getter and the typed unpacker interfaces (IntUnpacker / UintUnpacker / FloatUnpacker as a field, a nil and "
                     "a pre-filled pointer, a slice element by value and by pointer, a map value; Bool- and StringUnpacker in Gen_ConvText); Gen_ConvText: 44 texts in every strconv syntax, bools and boundary numbers into bool, "
                     "string and numeric targets; pairs the "
                     "source kind cannot represent exactly are skipped (counted); Trace_Convert: random bit patterns classified with math/big. "
                     "non-trivial: every representable combination; distinct by (source kind, number, target)",
                assumptions=ASSUME_COMMON + ["the boundary table (names -> exact values) is checked at start-up against math.MaxInt64 etc.; exactness of the stored value is decided with math/big"]),
    "C02": dict(stages=c02, family="varexp", rule=VAR_RULE + "; late binding: the same worlds built by two Merge calls over a random split of the settings",
                assumptions=ASSUME_COMMON + ["literal alphabets are chosen so that the value parser reads a splice result back as the same text (C17 covers the parser)"]),
    "C08": dict(stages=c08, family="varexp", rule=VAR_RULE + "; UcfgVarExpSteps: liveness (termination) over all 8000 graphs of three settings x 3 queries x 2 entry modes",
                assumptions=ASSUME_COMMON + ["a dead or timed-out child process is the observation 'did not return' (stack limit 4 MB, 20 s deadline)"]),
    "C19": dict(stages=c19, family="flags",
                rule="Gen_Flags: every sequence of <= 3 arguments over 14 argument shapes (dotted/indexed keys; scalar, comma list, "
                     "[list], {object}, object with dotted key, bare key, empty value, malformed values) x 7 option sets (no separator, "
                     "PathSep with each merge policy, autoBool off), keys starting with a list index; Gen_FlagFiles: sequences of <= 2 (3) FILE "
                     "arguments over 8 files (two loaders by extension, optional default loader, a malformed and a loader-less file) x 5 option "
                     "sets; Trace_Flags: random sequences of <= 8 arguments. "
                     "non-trivial = at least two arguments; distinct by (arguments, options)",
                assumptions=ASSUME_COMMON),
    "C17": dict(stages=c17, family="parse",
                rule="Gen_Parse: every character string of length <= 4 (quick) / 5 (thorough) over the 16-character alphabet "
                     "[ ] { } , : \" ' \\ space z 9 - n t / under DefaultConfig, EnvConfig, NoopConfig and IgnoreCommas, plus JSON documents "
                     "of a bounded grammar (incl. the 64-bit boundary numbers) rendered in five whitespace layouts and parsed under DefaultConfig and "
                     "with IgnoreCommas; Trace_Parse: random JSON documents written by encoding/json in five layouts. "
                     "non-trivial = at least two characters, one of them special; distinct by input text",
                assumptions=ASSUME_COMMON + ["number tokens are concretised with strconv (the definition of the syntax) in the harness"]),
    "C20": dict(stages=c20, family="paths",
                rule="Gen_Paths: 42 spellings (decimal, signs, 0x/0o/0b, leading zeros, underscores, +-2^63, 2^63, 2^64, near-numeric, "
                     "empty) x MaxIdx {0,2,5,1024} x EnableNumKeys x position (single, first, middle, last), each as map key, struct "
                     "tag, setter name and setter name + idx with getter/Has/Remove read-back; Trace_Paths: random literals in random syntax. "
                     "non-trivial: every case (each decides index-vs-name); distinct by (key, MaxIdx, EnableNumKeys)",
                assumptions=ASSUME_COMMON + ["strconv.ParseInt(s,0,64) is the definition of 'integer literal'; the spec's spelling table is checked against it at start-up"]),
    "C05": dict(stages=c05, family="norm", rule=NORM_RULE, assumptions=ASSUME_COMMON),
    "C09": dict(stages=c09, family="norm", rule=NORM_RULE + "; every map-built case is repeated K times (8 quick / 32 thorough) "
                "with the Go maps rebuilt in a different insertion order and all outcomes compared; merges likewise; the worlds of Gen_VarExp "
                "and Gen_VarMixed (settings that reference each other) created and unpacked 13 (33) times with ONE outcome demanded",
                assumptions=ASSUME_COMMON + ["the Go runtime's map iteration order is reached by varying insertion order and by its own per-iteration randomisation"]),
    "C12": dict(stages=c12, family="store", rule=STORE_RULE % "3 (both tiers; depth 4 does not finish within 45 minutes)", assumptions=ASSUME_COMMON),
    "C15": dict(stages=c15, family="store", rule=STORE_RULE % "3 (both tiers)", assumptions=ASSUME_COMMON),
    "C10": dict(stages=c10, family="store", rule=STORE_RULE % "3 (merge universe, both tiers)" + "; Gen_VarShare: source and destination holding ${...} copies read in both orders", assumptions=ASSUME_COMMON),
    "C01": dict(stages=c01, family="merge",
                rule="Gen_Merge: every (destination, source, global policy) over the bounded tree universe "
                     "(MergeUniverses.tla), each replayed with the source as map, reflect.StructOf struct and *Config (and, for equal operands, as the "
                     "destination itself), the generic view AND the positions of explicit nils compared; sources holding a reference to one of "
                     "their own containers; "
                     "Trace_Merge: seeded random trees (depth<=4) recorded from the real Merge and validated by TLC. "
                     "non-trivial = both operands share a key or both have a list part; distinct by (a,b,policy,options)",
                assumptions=ASSUME_COMMON),
    "C16": dict(stages=c16, family="merge",
                rule="Gen_Merge: pairs of trees carrying the same list-valued name at two depths x global policy x "
                     "per-field options (named paths, ** wildcards, pairs of options; PathSep placed before or after them; the option VALUES used in "
                     "two other calls first); the same with a REFERENCE to a container at the per-field "
                     "path; per-field paths through list indices over lists of lists / dictionaries; Trace_Merge with random options. "
                     "non-trivial = operands share a slot; distinct by (a,b,policy,options)",
                assumptions=ASSUME_COMMON),
}
