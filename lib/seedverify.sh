#!/bin/bash
# seedverify.sh <ID> <patch> <demo_test.go> [pkgdir]   -- confirms a seeded change in a scratch worktree:
# the unedited suite passes with it, the demonstration fails with it and passes without it.
set -u
ID=$1; PATCH=$2; DEMO=$3; PKG=${4:-.}
export GOFLAGS=-mod=mod GOPROXY=off GOSUMDB=off GOTOOLCHAIN=local
W=$(mktemp -d /tmp/seedv-XXXX)
git -C /repo worktree add -q "$W/wt" HEAD || exit 2
cd "$W/wt"
git apply "$PATCH" || { echo "PATCH DOES NOT APPLY"; git -C /repo worktree remove --force "$W/wt"; exit 2; }
suite=$(go test -mod=mod -vet=off -count=1 ./... 2>&1 | grep -v "^ok\|no test files" | head -5)
[ -z "$suite" ] && echo "suite-with-change: PASS" || { echo "suite-with-change: FAIL"; echo "$suite"; }
cp "$DEMO" "$PKG/zz_demo_test.go"
go test -mod=mod -vet=off -count=1 -run 'TestDemo$' ./$PKG > "$W/with.txt" 2>&1 && echo "demo-with-change: PASS (unexpected)" || echo "demo-with-change: FAIL (expected)"
git checkout -q -- . 
go test -mod=mod -vet=off -count=1 -run 'TestDemo$' ./$PKG > "$W/without.txt" 2>&1 && echo "demo-without-change: PASS (expected)" || { echo "demo-without-change: FAIL (unexpected)"; tail -5 "$W/without.txt"; }
cd /; git -C /repo worktree remove --force "$W/wt"; rm -rf "$W"
