"""Orchestrator core for the go-ucfg TLA+ verification machinery.

One check = one property.  A check is a list of stages; every stage is one of

  MC     run TLC on an MC_* module: model-level invariants of the specification
  GEN    run TLC on a Gen_* module and pipe the emitted cases into
         `ucfgconf replay <family>` (direction A: spec -> code)
  TRACE  run `ucfgconf drive <family>` against the real code, then TLC on a
         Trace_* module over the recorded ndjson (direction B: code -> spec)
  GO     run a harness sub-command that is an observer on its own (panic / race /
         goroutine observers); it prints the same SUMMARY line as replay

Exit codes: 0 held (known findings printed), 1 violation reproduced on the real
code, 2 the machinery failed (never a verdict about the code).
"""
import json, os, re, shutil, subprocess, sys, tempfile, time, hashlib

ROOT = os.path.dirname(os.path.dirname(os.path.abspath(__file__)))
SPEC = os.path.join(ROOT, "spec")
HARNESS = os.path.join(ROOT, "harness")
TLA_CP = "/opt/veriftools/tla/tla2tools.jar:/opt/veriftools/tla/CommunityModules-deps.jar"

GOENV = dict(os.environ, GOFLAGS="-mod=mod", GOPROXY="off", GOSUMDB="off", GOTOOLCHAIN="local")


class Infra(Exception):
    """The machinery failed; this is exit 2, never a verdict."""


def log(*a):
    print(*a, file=sys.stderr, flush=True)


# --------------------------------------------------------------------------
# stage descriptions
# --------------------------------------------------------------------------
TSCALE = float(os.environ.get("VERIF_TIMEOUT_SCALE", "1"))


def MC(module, consts, invariants=(), properties=(), spec=None, dev=(), expect_violation=False,
       workers=16, xmx="6g", timeout=900, label=None, extra_cfg=""):
    return dict(kind="MC", module=module, consts=consts, invariants=list(invariants),
                properties=list(properties), spec=spec, dev=sorted(dev),
                expect_violation=expect_violation, workers=workers, xmx=xmx, timeout=timeout,
                label=label or module, extra_cfg=extra_cfg)


def GEN(module, consts, family, replay_args=(), workers=16, xmx="6g", timeout=1800, label=None,
        view="View", known_const="Groups", min_cases=1, only_devs=None, race=False, gen_family=None):
    return dict(kind="GEN", module=module, consts=consts, family=family, replay_args=list(replay_args),
                workers=workers, xmx=xmx, timeout=timeout, label=label or module, view=view,
                known_const=known_const, min_cases=min_cases, only_devs=only_devs, race=race,
                gen_family=gen_family or family)


def TRACE(module, family, drive_args=(), consts=None, n=1000, xmx="6g", timeout=1800, label=None,
          known_const="Groups", trace_file=None, race=False, only_devs=None):
    return dict(kind="TRACE", module=module, family=family, drive_args=list(drive_args), consts=consts or {},
                n=n, xmx=xmx, timeout=timeout, label=label or module, known_const=known_const, only_devs=only_devs,
                trace_file=trace_file or ("trace_%s.ndjson" % family), race=race)


def GO(family, mode, args=(), timeout=1800, label=None, race=False, min_cases=1):
    return dict(kind="GO", family=family, mode=mode, args=list(args), timeout=timeout,
                label=label or ("%s-%s" % (mode, family)), race=race, min_cases=min_cases)


# --------------------------------------------------------------------------
# known findings
# --------------------------------------------------------------------------
def load_findings():
    p = os.path.join(ROOT, "known_findings.json")
    with open(p) as f:
        return json.load(f)["findings"]


def finding_devs(f):
    return [f["deviation"]] + list(f.get("with", []))


def open_groups(findings, family, only=None):
    """One group of deviation names per open finding of the family (optionally
    restricted to the deviations a stage can observe)."""
    gs = []
    for f in findings:
        if f["status"] == "open" and f["family"] == family:
            g = [d for d in finding_devs(f) if only is None or d in only]
            if g and sorted(g) not in gs:
                gs.append(sorted(g))
    return gs


def fmt_groups(gs):
    return "{" + ", ".join("{" + ", ".join('"%s"' % d for d in g) + "}" for g in gs) + "}"


# --------------------------------------------------------------------------
# run context
# --------------------------------------------------------------------------
class Ctx:
    def __init__(self, prop, tier, seed, keep=False):
        self.prop, self.tier, self.seed, self.keep = prop, tier, seed, keep
        base = os.environ.get("VERIF_TMP") or tempfile.gettempdir()
        self.dir = tempfile.mkdtemp(prefix="verif-%s-" % prop, dir=base)
        self.specdir = os.path.join(self.dir, "spec")
        shutil.copytree(SPEC, self.specdir)
        self.findings = load_findings()
        self.bins = {}
        self.stage_results = []
        self.known_hits = {}      # deviation -> count
        self.known_examples = {}
        self.violations = []      # dicts with replay payload
        self.nrun = 0

    def cleanup(self):
        if not self.keep:
            shutil.rmtree(self.dir, ignore_errors=True)

    # ---- harness -------------------------------------------------------
    def harness(self, race=False):
        key = "race" if race else "plain"
        if key in self.bins:
            return self.bins[key]
        out = os.path.join(self.dir, "ucfgconf-" + key)
        gosum = os.path.join(HARNESS, "go.sum")
        if not os.path.exists(gosum):
            shutil.copy("/repo/go.sum", gosum)
        cmd = ["go", "build", "-tags", "verif"] + (["-race"] if race else []) + ["-o", out, "./cmd/ucfgconf"]
        t0 = time.time()
        r = subprocess.run(cmd, cwd=HARNESS, env=GOENV, capture_output=True, text=True, timeout=900)
        if r.returncode != 0:
            raise Infra("harness build failed:\n" + r.stdout + r.stderr)
        log("[build] harness (%s) %.1fs" % (key, time.time() - t0))
        self.bins[key] = out
        return out

    # ---- TLC -----------------------------------------------------------
    def write_cfg(self, name, body):
        p = os.path.join(self.specdir, name)
        with open(p, "w") as f:
            f.write(body)
        return p

    def tlc_cmd(self, module, cfgname, workers, xmx, extra=()):
        self.nrun += 1
        meta = os.path.join(self.dir, "meta%d" % self.nrun)
        # MemStateQueue: TLC's default DiskStateQueue fails to serialise some lazily evaluated
        # function values of these specs ("StatePoolWriter ... fcnRcd is null")
        return ["java", "-XX:+UseParallelGC", "-Xmx" + xmx, "-Xss64m",
                "-Dtlc2.tool.queue.IStateQueue=MemStateQueue", "-Dfile.encoding=UTF-8", "-cp", TLA_CP, "tlc2.TLC",
                "-workers", str(workers), "-metadir", meta, "-config", cfgname] + list(extra) + [module + ".tla"]


def fmt_const(v):
    if isinstance(v, str):
        return v
    if isinstance(v, bool):
        return "TRUE" if v else "FALSE"
    if isinstance(v, (set, frozenset, list, tuple)):
        return "{" + ", ".join('"%s"' % x for x in sorted(v)) + "}"
    return str(v)


def cfg_text(consts, init="Init", nxt="Next", spec=None, invariants=(), properties=(), view=None,
             postcondition=None, extra=""):
    lines = ["CONSTANTS"]
    for k, v in consts.items():
        if isinstance(v, str) and v.startswith("<-"):
            lines.append(" %s %s" % (k, v))
        elif isinstance(v, str) and v.startswith("="):
            lines.append(" %s %s" % (k, v))
        else:
            lines.append(" %s = %s" % (k, fmt_const(v)))
    if spec:
        lines.append("SPECIFICATION " + spec)
    else:
        lines.append("INIT " + init)
        lines.append("NEXT " + nxt)
    if invariants:
        lines.append("INVARIANTS " + " ".join(invariants))
    if properties:
        lines.append("PROPERTIES " + " ".join(properties))
    if view:
        lines.append("VIEW " + view)
    if postcondition:
        lines.append("POSTCONDITION " + postcondition)
    lines.append("CHECK_DEADLOCK FALSE")
    if extra:
        lines.append(extra)
    return "\n".join(lines) + "\n"


RE_STATES = re.compile(r"(\d+) states generated,? (\d+) distinct states found")


def parse_tlc(text):
    out = dict(generated=0, distinct=0, error=None, finished=False)
    m = None
    for m in RE_STATES.finditer(text.replace(",", "")):
        pass
    if m:
        out["generated"], out["distinct"] = int(m.group(1)), int(m.group(2))
    if "Model checking completed. No error has been found." in text:
        out["finished"] = True
    errs = [l for l in text.splitlines() if l.startswith("Error:") or "is violated" in l
            or "Parsing or semantic analysis failed" in l or "Exception" in l or "StackOverflow" in l]
    if errs:
        out["error"] = "\n".join(errs[:6])
    return out


# --------------------------------------------------------------------------
# stage execution
# --------------------------------------------------------------------------
def run_mc(ctx, st):
    consts = dict(st["consts"])
    if "Dev" not in consts and "Groups" not in consts:
        consts["Dev"] = set(st["dev"])
    name = "run_%s_%d.cfg" % (st["module"], ctx.nrun)
    ctx.write_cfg(name, cfg_text(consts, spec=st["spec"], invariants=st["invariants"],
                                 properties=st["properties"], extra=st["extra_cfg"]))
    cmd = ctx.tlc_cmd(st["module"], name, st["workers"], st["xmx"])
    t0 = time.time()
    try:
        r = subprocess.run(cmd, cwd=ctx.specdir, capture_output=True, text=True, timeout=st["timeout"] * TSCALE)
    except subprocess.TimeoutExpired:
        raise Infra("TLC timeout in %s" % st["label"])
    text = r.stdout + r.stderr
    p = parse_tlc(text)
    res = dict(stage=st["label"], kind="MC", states=p["distinct"], transitions=p["generated"],
               wall_s=round(time.time() - t0, 1), dev=st["dev"], invariants=st["invariants"] + st["properties"],
               cmd=" ".join(cmd[7:]))
    if st["expect_violation"]:
        if p["error"] and "is violated" in p["error"]:
            res["refuted"] = p["error"].splitlines()[0]
        else:
            raise Infra("%s: deviation %s should be refuted by TLC but was not:\n%s" %
                        (st["label"], st["dev"], text[-2000:]))
    else:
        if p["error"] or not p["finished"]:
            raise Infra("%s: model-level failure (specification, not code):\n%s" % (st["label"], text[-3000:]))
        if p["distinct"] < 2:
            raise Infra("%s: vacuous model run" % st["label"])
    log("[mc] %-28s states=%d generated=%d %.1fs" % (st["label"], p["distinct"], p["generated"], res["wall_s"]))
    ctx.stage_results.append(res)
    return res


def absorb_summary(ctx, st, summ, res):
    res.update(cases=summ.get("cases", 0), ideal=summ.get("ideal", 0), skipped=summ.get("skipped", 0),
               known=summ.get("known") or {}, violations=summ.get("violations", 0),
               distinct_nontrivial=summ.get("distinct_nontrivial", 0),
               classes=summ.get("classes") or {}, samples=(summ.get("samples") or [])[:3])
    if summ.get("infra"):
        raise Infra("%s: harness reported infrastructure errors: %s" % (st["label"], summ["infra"][:3]))
    for d, n in (summ.get("known") or {}).items():
        ctx.known_hits[d] = ctx.known_hits.get(d, 0) + n
        ex = (summ.get("known_examples") or {}).get(d)
        if ex is not None and d not in ctx.known_examples:
            ctx.known_examples[d] = ex
    for v in summ.get("violation_samples") or []:
        ctx.violations.append(dict(stage=st["label"], family=st["family"], mode="replay",
                                   args=st.get("replay_args", st.get("args", [])), cls=v.get("class"),
                                   case=v.get("case"), got=v.get("got"), want=v.get("want"), note=v.get("note")))
    if summ.get("violations", 0) and not (summ.get("violation_samples")):
        raise Infra("%s: violations without samples" % st["label"])


def parse_summary(out, label):
    for line in reversed(out.splitlines()):
        if line.startswith("SUMMARY "):
            return json.loads(line[len("SUMMARY "):])
    raise Infra("%s: no SUMMARY line from harness; tail:\n%s" % (label, out[-1500:]))


def run_gen(ctx, st):
    consts = dict(st["consts"])
    if st["known_const"]:
        consts[st["known_const"]] = "=" + fmt_groups(open_groups(ctx.findings, st.get("gen_family", st["family"]), st.get("only_devs")))
    name = "run_%s_%d.cfg" % (st["module"], ctx.nrun)
    ctx.write_cfg(name, cfg_text(consts, view=st["view"]))
    cmd = ctx.tlc_cmd(st["module"], name, st["workers"], st["xmx"])
    hb = ctx.harness(race=st.get("race", False))
    t0 = time.time()
    henv = dict(os.environ, VERIF_KNOWN=",".join(d for g in open_groups(ctx.findings, st["family"]) for d in g))
    tlc_log = os.path.join(ctx.dir, "tlc_%d.log" % ctx.nrun)
    with open(tlc_log, "w") as lf:
        tlc = subprocess.Popen(cmd, cwd=ctx.specdir, stdout=subprocess.PIPE, stderr=subprocess.DEVNULL)
        rp = subprocess.Popen([hb, "replay", st["family"], "--seed", str(ctx.seed)] + st["replay_args"],
                              stdin=tlc.stdout, stdout=subprocess.PIPE, stderr=lf, text=True, env=henv)
        tlc.stdout.close()
        try:
            out, _ = rp.communicate(timeout=st["timeout"] * TSCALE)
        except subprocess.TimeoutExpired:
            tlc.kill(); rp.kill()
            raise Infra("timeout in %s" % st["label"])
        tlc.wait()
    text = open(tlc_log, errors="replace").read()
    p = parse_tlc(text)
    if p["error"] or not p["finished"]:
        raise Infra("%s: TLC failed while generating cases:\n%s" % (st["label"], text[-3000:]))
    raced = "WARNING: DATA RACE" in text
    if rp.returncode not in (0, 1) and not raced:
        raise Infra("%s: replayer exit %d:\n%s" % (st["label"], rp.returncode, out[-1500:] + text[-1500:]))
    summ = parse_summary(out, st["label"])
    if raced:
        i = text.index("WARNING: DATA RACE")
        ctx.violations.append(dict(stage=st["label"], family=st["family"], mode="replay", args=st["replay_args"], cls="data-race",
                                   case=(summ.get("samples") or [None])[0], got=text[i:i + 3000],
                                   want="no unsynchronised conflicting access between concurrent readers",
                                   note="reported by the Go race detector while goroutines read one shared config"))
    res = dict(stage=st["label"], kind="GEN", states=p["distinct"], transitions=p["generated"],
               wall_s=round(time.time() - t0, 1), cmd=" ".join(cmd[7:]) + " | ucfgconf replay %s %s" %
               (st["family"], " ".join(st["replay_args"])))
    absorb_summary(ctx, st, summ, res)
    if res["cases"] < st["min_cases"]:
        raise Infra("%s: only %d cases emitted (expected >= %d)" % (st["label"], res["cases"], st["min_cases"]))
    log("[gen] %-28s cases=%d ideal=%d known=%s violations=%d %.1fs" %
        (st["label"], res["cases"], res["ideal"], res["known"], res["violations"], res["wall_s"]))
    ctx.stage_results.append(res)
    return res


def run_go(ctx, st):
    hb = ctx.harness(race=st["race"])
    t0 = time.time()
    cmd = [hb, st["mode"], st["family"], "--seed", str(ctx.seed)] + st["args"]
    henv = dict(os.environ, VERIF_KNOWN=",".join(d for g in open_groups(ctx.findings, st["family"]) for d in g))
    try:
        r = subprocess.run(cmd, capture_output=True, text=True, timeout=st["timeout"] * TSCALE, cwd=ctx.dir, env=henv)
    except subprocess.TimeoutExpired:
        raise Infra("timeout in %s" % st["label"])
    if r.returncode not in (0, 1):
        raise Infra("%s: exit %d:\n%s" % (st["label"], r.returncode, (r.stdout + r.stderr)[-2500:]))
    summ = parse_summary(r.stdout, st["label"])
    res = dict(stage=st["label"], kind="GO", wall_s=round(time.time() - t0, 1),
               cmd="ucfgconf %s %s %s" % (st["mode"], st["family"], " ".join(st["args"])))
    absorb_summary(ctx, st, summ, res)
    if res["cases"] < st["min_cases"]:
        raise Infra("%s: only %d cases (expected >= %d)" % (st["label"], res["cases"], st["min_cases"]))
    log("[go]  %-28s cases=%d ideal=%d known=%s violations=%d %.1fs" %
        (st["label"], res["cases"], res["ideal"], res["known"], res["violations"], res["wall_s"]))
    ctx.stage_results.append(res)
    return res


def run_trace(ctx, st):
    hb = ctx.harness(race=st["race"])
    t0 = time.time()
    tf = os.path.join(ctx.specdir, st["trace_file"])
    with open(tf, "w") as f:
        cmd = [hb, "drive", st["family"], "--seed", str(ctx.seed), "--n", str(st["n"])] + st["drive_args"]
        r = subprocess.run(cmd, stdout=f, stderr=subprocess.PIPE, text=True, timeout=st["timeout"] * TSCALE)
    if r.returncode != 0:
        raise Infra("%s: driver failed (%d): %s" % (st["label"], r.returncode, r.stderr[-2000:]))
    nev = sum(1 for _ in open(tf))
    if nev == 0:
        raise Infra("%s: empty trace" % st["label"])
    consts = dict(st["consts"])
    if st["known_const"]:
        consts[st["known_const"]] = "=" + fmt_groups(open_groups(ctx.findings, st["family"], st.get("only_devs")))
    name = "run_%s_%d.cfg" % (st["module"], ctx.nrun)
    ctx.write_cfg(name, cfg_text(consts, spec="Spec", invariants=["Report"], postcondition="Accepted"))
    cmd = ctx.tlc_cmd(st["module"], name, 1, st["xmx"])
    try:
        r = subprocess.run(cmd, cwd=ctx.specdir, capture_output=True, text=True, timeout=st["timeout"] * TSCALE)
    except subprocess.TimeoutExpired:
        raise Infra("TLC timeout in %s" % st["label"])
    text = r.stdout + r.stderr
    p = parse_tlc(text)
    rep = None
    for line in text.splitlines():
        if '"REPORT"' in line:
            m = re.search(r'<<"REPORT", (".*")>>\s*$', line)
            if m:
                rep = json.loads(json.loads(m.group(1)))
    if p["error"] or not p["finished"] or rep is None:
        raise Infra("%s: trace validation run failed:\n%s" % (st["label"], text[-3000:]))
    if rep["n"] != nev:
        raise Infra("%s: TLC read %d events, trace has %d" % (st["label"], rep["n"], nev))
    res = dict(stage=st["label"], kind="TRACE", states=p["distinct"], transitions=p["generated"], events=nev,
               accepted=nev - rep.get("nviol", 0), known=rep.get("known") or {}, violations=rep.get("nviol", 0),
               sessions=rep.get("sessions", 0), wall_s=round(time.time() - t0, 1),
               cmd="ucfgconf drive %s %s | tlc %s" % (st["family"], " ".join(st["drive_args"]), st["module"]))
    events = None
    for d, n in (rep.get("known") or {}).items():
        if n:
            ctx.known_hits[d] = ctx.known_hits.get(d, 0) + n
    for b in rep.get("bad") or []:
        if events is None:
            events = [json.loads(l) for l in open(tf)]
        ev = events[b["l"] - 1]
        # the session prefix (stateful families): everything since the last reset
        i = b["l"] - 1
        hist = []
        while i > 0 and events[i - 1].get("op", {}).get("op") != "reset" and "sess" in ev:
            i -= 1
            hist.insert(0, events[i])
        ctx.violations.append(dict(stage=st["label"], family=st["family"], mode="trace", args=st["drive_args"],
                                   cls="trace-rejected", case=dict(event=ev, hist=hist), got=ev.get("out", ev.get("res")),
                                   want=b.get("want"), note="event %d of the recorded trace is not a step of the specification" % b["l"]))
    with open(tf) as f:
        res["samples"] = [json.loads(next(f))]
    log("[trace] %-26s events=%d known=%s violations=%d %.1fs" %
        (st["label"], nev, res["known"], res["violations"], res["wall_s"]))
    ctx.stage_results.append(res)
    return res


RUNNERS = dict(MC=run_mc, GEN=run_gen, TRACE=run_trace, GO=run_go)


# --------------------------------------------------------------------------
# verdict + evidence
# --------------------------------------------------------------------------
def finish(ctx, spec, t0, infra=None):
    prop = ctx.prop
    mine = [f for f in ctx.findings if prop in ([f["property"]] + f.get("also_seen_in", []))]
    open_by_dev = {}
    for f in mine:
        if f["status"] == "open":
            for d in finding_devs(f):
                open_by_dev.setdefault(d, []).append(f)
    lines = []
    rc = 0
    # one KNOWN-FINDING line per listed finding whose deviation(s) were observed in this run
    per_finding = {}
    for d, n in sorted(ctx.known_hits.items()):
        if not n:
            continue
        fs = open_by_dev.get(d) or [f for f in ctx.findings if d in finding_devs(f) and f["status"] == "open"]
        for f in fs:
            e = per_finding.setdefault(f["id"], dict(f=f, n=0, devs=[]))
            e["n"] += n
            e["devs"].append(d)
    for fid, e in sorted(per_finding.items()):
        f = e["f"]
        where = "" if prop in ([f["property"]] + f.get("also_seen_in", [])) else " (listed under %s)" % f["property"]
        lines.append("KNOWN-FINDING: property=%s %s %s%s [deviation %s; %d cases this run]" %
                     (prop, fid, f["what"], where, "+".join(e["devs"]), e["n"]))
    replay_paths = []
    if ctx.violations:
        rc = 1
        os.makedirs(os.path.join(ROOT, "replays"), exist_ok=True)
        seen = set()
        for v in ctx.violations:
            key = (v["stage"], v["cls"])
            if key in seen:
                continue
            seen.add(key)
            h = hashlib.sha1(json.dumps(v, sort_keys=True, default=str).encode()).hexdigest()[:10]
            path = os.path.join(ROOT, "replays", "%s-%s.json" % (prop, h))
            with open(path, "w") as f:
                json.dump(dict(property=prop, **v), f, indent=1, default=str)
            replay_paths.append(path)
            lines.append("VIOLATION property=%s replay=%s" % (prop, path))
            log("  violation [%s] %s: got=%s want=%s %s" % (v["stage"], v["cls"],
                json.dumps(v["got"], default=str)[:400], json.dumps(v["want"], default=str)[:400], v.get("note") or ""))
    if infra is not None:
        rc = 2
    # ---- evidence ----
    sr = ctx.stage_results
    states = sum(s.get("states", 0) for s in sr)
    transitions = sum(s.get("transitions", 0) for s in sr)
    replayed = sum(s.get("cases", 0) for s in sr if s["kind"] in ("GEN", "GO"))
    events = sum(s.get("events", 0) for s in sr if s["kind"] == "TRACE")
    samples = []
    for s in sr:
        for x in s.get("samples", [])[:2]:
            samples.append(dict(stage=s["stage"], case=x))
    ev = dict(property_id=prop, tier=ctx.tier, seed=ctx.seed, level=spec.get("level", "model_checking"),
              wall_s=round(time.time() - t0, 1), violations=len(ctx.violations),
              coverage=dict(
                  states=max(states, 1) if sr else 0, transitions=max(transitions, 1) if sr else 0,
                  traces_validated_against_impl=replayed + events,
                  evaluations=replayed + events,
                  distinct_nontrivial=sum(s.get("distinct_nontrivial", 0) for s in sr) +
                                      sum(s.get("events", 0) for s in sr if s["kind"] == "TRACE"),
                  rule=spec.get("rule", ""),
                  exhaustive=bool(spec.get("exhaustive", True)),
                  samples=samples[:8] or [dict(note="no stage completed")],
                  checker_cmd="; ".join(s.get("cmd", "") for s in sr),
                  stages=[{k: v for k, v in s.items() if k not in ("samples",)} for s in sr],
                  known_deviations_hit=ctx.known_hits,
                  replay_files=replay_paths,
                  infra_error=(str(infra)[:2000] if infra else None)),
              assumptions=spec.get("assumptions", []))
    os.makedirs(os.path.join(ROOT, "evidence"), exist_ok=True)
    if not os.environ.get("VERIF_ONLY"):    # a partial (development) run leaves the evidence of the last complete run alone
        with open(os.path.join(ROOT, "evidence", prop + ".json"), "w") as f:
            json.dump(ev, f, indent=1, default=str)
    for l in lines:
        print(l, flush=True)
    if infra is not None:
        log("INFRA FAILURE (exit 2): %s" % infra)
    else:
        log("[%s] tier=%s seed=%d exit=%d wall=%.1fs stages=%d replayed=%d events=%d known=%s" %
            (prop, ctx.tier, ctx.seed, rc, time.time() - t0, len(sr), replayed, events, ctx.known_hits))
    return rc


def run_check(prop, spec, tier, seed, keep=False):
    t0 = time.time()
    ctx = Ctx(prop, tier, seed, keep)
    try:
        try:
            only = os.environ.get("VERIF_ONLY")   # development aid: run the stages whose label contains this text
            for st in spec["stages"](tier, seed):
                if only and only not in st.get("label", ""):
                    continue
                RUNNERS[st["kind"]](ctx, st)
        except Infra as e:
            return finish(ctx, spec, t0, infra=e)
        except subprocess.TimeoutExpired as e:
            return finish(ctx, spec, t0, infra=Infra("timeout: %s" % e))
        return finish(ctx, spec, t0)
    finally:
        ctx.cleanup()


def run_replay(prop, path):
    """Re-run one stored violation against the current /repo."""
    with open(path) as f:
        v = json.load(f)
    ctx = Ctx(prop, "replay", 0)
    try:
        hb = ctx.harness()
        case = v["case"]
        if v.get("mode") == "trace":
            payload = json.dumps(dict(trace_event=case.get("event"), hist=case.get("hist"), want=v.get("want")))
            args = ["--trace-event"] + v.get("args", [])
        else:
            payload = json.dumps(case)
            args = v.get("args", [])
        r = subprocess.run([hb, "replay", v["family"]] + args, input=payload + "\n", capture_output=True, text=True)
        summ = parse_summary(r.stdout, "replay")
        print(json.dumps(dict(cases=summ["cases"], violations=summ["violations"],
                              classes=summ.get("violation_classes"), samples=summ.get("violation_samples")), indent=1))
        if summ["violations"]:
            print("VIOLATION property=%s replay=%s" % (prop, path))
            return 1
        return 0
    except Infra as e:
        log("INFRA FAILURE: %s" % e)
        return 2
    finally:
        ctx.cleanup()
