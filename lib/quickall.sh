#!/bin/bash
# runs the quick (or given) tier of every property; one summary line per property
cd "$(dirname "$0")/.."
tier=${1:-quick}
for p in C01 C02 C03 C04 C05 C06 C07 C08 C09 C10 C11 C12 C13 C14 C15 C16 C17 C18 C19 C20; do
  out=$(bin/check $p --tier $tier 2>&1); rc=$?
  echo "$p rc=$rc $(echo "$out" | tail -1)"
  echo "$out" | grep "^VIOLATION" | head -3
done
