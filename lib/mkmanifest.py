#!/usr/bin/env python3
"""Regenerates /verif/MANIFEST.json from lib/checks.py and the texts below."""
import json, os, sys
ROOT = os.path.dirname(os.path.dirname(os.path.abspath(__file__)))
sys.path.insert(0, os.path.join(ROOT, "lib"))
import checks

props = [json.loads(l) for l in open(os.path.join(ROOT, "properties.jsonl"))]

TEXT = {
 "C01": ("merge", "TLA+ merge semantics (UcfgMerge): TLC checks the declarative policy laws over all tree pairs; every pair replayed in the real Merge (map/struct/*Config); random real merges trace-validated by TLC",
         "MC_Merge proves the operational merge implies the property's sentences (union of keys, override rule, nil keeps container, list strategies, identity, self-merge) for every pair of a bounded universe; Gen_Merge emits every (A, B, policy) and the Go harness compares the real result after Unpack; Trace_Merge accepts recorded random merges only if UcfgMerge explains them."),
 "C16": ("merge", "TLA+ per-field policy tree (UcfgMerge Override/FieldHandling): TLC scoping invariants + exhaustive replay + trace validation",
         "MC_Merge checks ScopedOutside/ScopedInside/NoLeak on the Ideal layer and requires TLC to refute the code's known deviation; Gen_Merge enumerates trees with the same name at two depths x policies x per-field options (named, **, pairs) and replays each; random option lists are trace-validated."),
 "C12": ("store", "TLA+ heap/handle state machine (UcfgStore): TLC invariants + action properties over all histories to the depth bound; every transition replayed through the public API with a full getter/Has/Child/CountField sweep; random sessions trace-validated",
         "MC_Store checks read-your-write, Has<=>getter, frame conditions, shift/pad and no-panic on every reachable state/transition; Gen_Store prints one test per transition of the state graph (shortest history, operation, expected result and projection of every handle incl. aliasing relation) which the harness replays; Trace_Store accepts recorded random sessions only if every event is a step of UcfgStore."),
 "C15": ("store", "TLA+ heap/handle state machine: Path/Parent/FlattenedKeys/Compare invariants checked by TLC on every reachable state; per-transition replay comparing Path(), Parent(), FlattenedKeys, CompareConfigs; trace validation",
         "MC_Store checks CtxOK/LinksTrue/FlatExact/CompareOK on the Ideal layer and requires TLC to refute the known deviations; conformance compares Path(), Parent()==nil, FlattenedKeys and diff.CompareConfigs of every handle after every transition; the listed finding KF-15 is modelled as a deviation group so that any other disagreement is a violation."),
 "C10": ("store", "TLA+ heap/handle state machine with merge actions whose source is another held config (direct or embedded): NoSharing / SourceUntouched checked by TLC, replay of all merge-then-mutate histories, trace validation, plus merge-family replay with the source observed before/after",
         "MC_Store checks that after a merge destination and source share no node and the source's contents/path/parent are unchanged (TLC refutes the re-parenting deviation that was fixed); Gen_Store replays every history merge -> Set/Remove/Merge on either side and compares every handle, including the aliasing relation computed from pointer identity."),
 "C05": ("norm", "TLA+ normalisation spec (UcfgNormalize): order-free Ideal definition proved equal by TLC to the code-shaped sequential insertion on all conflict-free ordered inputs; all flattenings of all trees; every case replayed in six Go representations; random inputs trace-validated",
         "MC_Normalize checks Confluent/OrderFree/FlattenOK/Idempotent exhaustively (and that the sequential algorithm does accept conflicts, the listed finding); Gen_Normalize emits ordered inputs and tree flattenings; the harness builds each as struct (exact visiting order), generic maps, interface-keyed maps, typed maps/slices/arrays, pointers and nested *Config, compares the unpacked data with the spec's observation and re-feeds it (idempotence)."),
 "C09": ("norm", "TLA+ confluence check (all visiting orders explored by TLC) + replay of every map-built case under K different Go map insertion orders with all outcomes compared, for normalisation and merge; worlds of mutually referencing settings (Gen_VarExp) created and unpacked repeatedly, one outcome demanded and compared with the TLA+ evaluator",
         "At the model level TLC explores every insertion order (every ordered input is a state) and checks that the outcome is the order-free one; on the code every case built from Go maps is executed 8 (quick) / 32 (thorough) times with rebuilt maps, and all outcomes must equal the specification's single outcome, or lie in the listed deviation's outcome set for conflicting inputs. Settings that reference each other: every world of Gen_VarExp is created and unpacked as a whole 13 (33) times; the per-call cache and the active set are shared between the fields, which the runtime visits in a fresh order each time; exactly one outcome is accepted and it must be the one UcfgVarExp computes per setting (this stage found and led to the repair of KF-33 and KF-34)."),
 "C20": ("paths", "TLA+ index-vs-name rule (UcfgPaths) checked by TLC over a spelling table x MaxIdx x EnableNumKeys x position; exhaustive replay as map key / struct tag / setter name with read-back; random literals trace-validated",
         "The rule 'index iff integer literal and 0<=n<=MaxIdx and not a single numeric key under EnableNumKeys' is the specification's; TLC checks the allocation bound and name round-trip on the whole table; every combination is replayed three ways on the code and the resulting structure, getter/Has/Remove read-back and list length are compared; random literals in every Go syntax are validated by TLC."),
 "C17": ("parse", "TLA+ transcription of the recursive-descent value parser (UcfgParseValue) over character sequences: TLC checks Parse(Render(doc)) = doc and totality; exhaustive replay of all short strings under four parser configs + JSON documents; random encoding/json documents trace-validated; five whitespace layouts (compact, LF, CRLF, tabs, whitespace around every token)",
         "The specification parses the same characters as the code (stop sets, trimming, trailing commas, top-level comma lists, quoting, escapes); every string up to the length bound is replayed under DefaultConfig/EnvConfig/NoopConfig/IgnoreCommas and the value or error/panic outcome compared; JSON documents rendered by the spec (compact, indented) must read back as the data they denote; 5k-100k random documents written by encoding/json are validated by TLC against the same parser. Documents are rendered in five whitespace layouts covering blank, tab, CR and LF on both sides of every token; recorded results are compared with a kind-directed equality so that a wrongly typed result is a verdict, not a TLC evaluation error."),
 "C19": ("flags", "TLA+ collector state machine (UcfgFlags) composed from the parser, normalisation and merge specifications: TLC checks fold/sticky-error/empty/bare laws; every argument sequence replayed on a real flag.FlagValue; random sequences trace-validated",
         "State = (config, first error); Set(arg) = split at '=', bare key => true, empty value => no-op, malformed => sticky error, else Normalize({key: Parse(value)}) merged with the flag's own policy. Every prefix+argument of the bounded universe is a replayed transition comparing Config() and Error(); random 8-argument sequences are validated by TLC."),
 "C02": ("varexp", "TLA+ evaluator of ${...} expressions (UcfgVarExp: expression AST, lookup layers root/Env/resolvers, operators, stack of active names): TLC lookup-order invariants; exhaustive replay of expression worlds in crash-isolated children; late binding by split merges",
         "The specification evaluates every setting of every world (String, typed read, Has, whole Unpack) with the fixed lookup order and operator table; the harness renders each world to real ${} strings, Env configs and Resolve callbacks and compares text, type and error class (cyclic/missing/custom message); the same worlds are rebuilt by two Merge calls in both orders to decide late binding."),
 "C08": ("varexp", "TLA+ small-step evaluator (UcfgVarExpSteps) checked by TLC for termination under weak fairness + stack bound over all reference graphs; big-step NoFalseCycle invariant; replay of all worlds through Unpack/getters/Has/CountField/Child/FlattenedKeys/CompareConfigs in crash-isolated child processes",
         "Liveness <>(stack = <<>>) and the stack bound hold for every graph of the universe on the Ideal layer and TLC refutes the listed deviation with the one-setting witness; on the code every world's reads run in child processes (4 MB stack, deadline) so 'did not return' is an observation; cyclic errors must appear exactly where the specification says a name is re-entered."),
 "C03": ("conv", "TLA+ decision table for numeric conversions over abstract boundary numbers (UcfgConvert): TLC checks 'no third outcome'; exhaustive replay at every type boundary through five routes with math/big exactness; random bit patterns trace-validated; text/bool/string table (Gen_ConvText) whose strconv facts are verified by the harness; typed-setter route",
         "The table (negative check on the original value, truncation toward zero, range check on the truncated value, NaN/Inf never into integers or durations, seconds*1e9 must fit int64, text must parse) is checked by TLC to yield only Err or the exact value and to be violated by the two repaired deviations; every (source kind, boundary point, target) is executed on the code and the stored value compared with the exact rational; 20k-500k random values are classified by the driver and validated by TLC. Gen_ConvText adds texts in every syntax strconv accepts or rejects, booleans and numbers into bool, string and numeric targets (rule in TLA+, strconv facts in a table the harness re-checks against strconv), and every case also runs with the setting stored by the typed setters, which keep the signed kind."),
 "C04": ("reify", "TLA+ transcription of typed Unpack with validators (UcfgReify) + an INDEPENDENT predicate Valid(result) checked by TLC (UnpackOk => Valid); exhaustive replay of type x validator x default x config",
         "TLC checks on every case of the universe that a successful Unpack yields a value satisfying the declarative validity predicate (stated on the result only) and refutes the repaired deviation; every case is executed on the code with reflect.StructOf targets and outcome, values and error path compared."),
 "C13": ("reify", "TLA+ typed Unpack returning the COMPLETE new field values (frame condition part of every expectation) + Frame invariant; replay with the target inspected after failure (atomicity)",
         "Every expectation lists G, F and H after the call, so untouched fields are compared in every case; failures are injected at G, F and H (H after F was written to the working copy) and the harness requires the struct passed in to hold its previous field values, slice headers, map and pointer identities."),
 "C14": ("reify", "TLA+ typed Unpack whose errors are paths of the offending setting (sets where map order decides) + ErrNamesSetting invariant; replay comparing ucfg.Error, Reason, Class and the quoted path; UcfgFaults/Gen_Faults: single-fault injection specification over the Pack type universe (sites x fault kinds), path AND source demanded, Unpack and typed getters",
         "The specification's Err(path) is compared with the last quoted path of the real message for faults at every position of the universe (wrong type, unparsable text, failed validator, failing default, failing element of a list or map, nested struct); the error must be a ucfg.Error with non-nil Reason and Class; TLC refutes the two repaired deviations. UcfgFaults computes the sites (setting path + receiving Go type) of Pack(t, v) for every (type, value) of the universe and injects one fault of every kind the receiving type admits (conversion, wrong type, out of range, unresolvable reference, wrong list length, custom Unpack failure); the configuration is created with source metadata; Unpack (and the typed getter for primitive sites) must return a ucfg.Error with Reason and Class whose message names exactly the site's dotted path and the source."),
 "C06": ("pack", "TLA+ Pack (typed value -> config tree) and RoundTrip; TLC identity invariant over all well-formed two-field struct types x values; replay with a generic reflect type builder comparing packed tree and round-tripped value; all numeric kinds x boundaries as field / pointer / slice / array / map element",
         "Gen_Pack enumerates struct types from a descriptor grammar with tags (rename, dotted, inline, ignore) and extreme values; the harness builds the real types with reflect, merges the value into an empty config, compares the generic view with Pack's tree, unpacks into a zero value and compares modulo nil~empty; the listed finding (inline map next to named fields) is modelled as a deviation with its exact outcome. A second enumeration covers the 12 numeric kinds with their boundary values (extremes, smallest non-zero, infinities, float32 values that are not short decimals) in five positions."),
 "C11": ("readers", "TLA+ readers model (UcfgReaders: N reader processes, per-call cache, interleaved atomic steps) checked by TLC for SharedUnchanged/ResultIsSequential; sequential purity by a name-free deep hash; concurrent goroutines on a fresh config compared with the specification's answers; Go race detector as observer",
         "TLC explores every interleaving of three readers with different resolvers and refutes the 'memo on the shared value' deviation; on the code every read operation must leave a reflective deep hash of the config unchanged, a later read under a different resolver must not be served an earlier answer, and 8-32 goroutines reading a fresh shared config must each obtain the sequential result that UcfgVarExp predicts - also in a -race build."),
 "C18": ("loaders", "expected data fixed by the TLA+ normalisation spec (with / without separator); exhaustive bounded documents and random documents loaded through the three front-ends (in memory and from files) and compared with the spec and with each other; random loads trace-validated by TLC; an error provoked about every setting of every document must name the file iff it was loaded from one",
         "The decoders are outside the specification; it generates the documents and fixes what all three must unpack to. Every document is rendered twice and loaded 24 ways; *WithFile loads must equal in-memory loads and an error about a setting must name the file (and no source for in-memory loads); random documents with YAML-1.1-hostile strings and boundary numbers are recorded and validated by Trace_Normalize. For every setting of the loaded document (primitives, objects, lists, empty containers, list elements) a getter of the wrong kind provokes an error about exactly that setting."),
 "C07": ("robust", "totality of the specified transition functions checked by TLC (NoPanic invariants of the store machine and the value parser, deviations refuted) + exhaustive short parser strings + mutation/enumeration with runtime observers (recover, child processes with deadline, goroutine count, allocation bound); store-machine transitions replayed with the full (name, idx) sweep; Gen_Targets (target type x validator x setting shape) replayed",
         "Every transition function of the specification returns a value or Err for every argument (TLC: no 'panic' outcome on the Ideal layer, and the repaired panics are refuted); on the code the inputs the property quantifies over are enumerated or mutated and every call is observed: recovered panic, dead or hanging child process, leaked goroutine, list longer than MaxIdx+1. The decoders themselves are explored by mutation only (DESIGN.md section 8). The store universes (core, list churn) and random store sessions are replayed with every (name, idx) address read in every state; Gen_Targets enumerates 85 target types (every kind, pointers, slices, arrays, maps, custom unpackers, interface{}, chan/func/complex) x validators x setting shapes x zero/allocated/bare targets: Unpack must return (found KF-35..KF-37)."),
}
NOTE = "bounded universes (stated in evidence.rule); projection through the public API; TLC/JVM/Go runtime trusted; Ideal layer + named deviations listed in known_findings.json"

PENDING = "check not built yet in this revision (planned: DESIGN.md section 6)"

m = dict(
    version=1,
    setup_cmd="bin/setup",
    hooks=dict(guard="verif", enable="go build -tags verif (harness is always built with the tag; no hook sites in /repo at present)",
               baseline_off_cmd="cd /repo && go test -mod=mod -vet=off -count=1 ./...",
               source_commits=[], add_only=True),
    
    engines=[
        dict(name="robust", path="harness/cmd/ucfgconf/fam_robust.go", serves_properties=["C07"],
             kind_free_text="runtime observers (recover, crash-isolated children, goroutine count, allocation bound) over enumerated and mutated inputs; TLC NoPanic invariants in MC_Store and Gen_Parse"),
        dict(name="loaders", path="spec/Gen_Loaders.tla", serves_properties=["C18"],
             kind_free_text="documents generated from UcfgNormalize universes; harness/cmd/ucfgconf/fam_loaders.go (yaml/json/hjson, in memory and files)"),
        dict(name="readers", path="spec/UcfgReaders.tla", serves_properties=["C11"],
             kind_free_text="TLA+ interleaving model of concurrent reads with per-call cache; harness/cmd/ucfgconf/fam_readers.go + deephash.go; race build"),
        dict(name="reify", path="spec/UcfgReify.tla", serves_properties=["C04", "C13", "C14"],
             kind_free_text="TLA+ typed Unpack with validators, defaults, frame and error paths; Gen_Reify; harness/cmd/ucfgconf/fam_reify.go"),
        dict(name="faults", path="spec/UcfgFaults.tla", serves_properties=["C14"],
             kind_free_text="TLA+ single-fault injection over the Pack type universe (Sites, FaultsFor, Inject); Gen_Faults; harness/cmd/ucfgconf/fam_faults.go"),
        dict(name="targets", path="spec/Gen_Targets.tla", serves_properties=["C07"],
             kind_free_text="TLA+ enumeration of target type x validator x setting shape (totality of Unpack); harness/cmd/ucfgconf/fam_targets.go"),
        dict(name="pack", path="spec/UcfgPack.tla", serves_properties=["C06", "C14", "C07"],
             kind_free_text="TLA+ Pack/RoundTrip over type descriptors; Gen_Pack; harness/cmd/ucfgconf/fam_pack.go (reflect type builder)"),
        dict(name="conv", path="spec/UcfgConvert.tla", serves_properties=["C03"],
             kind_free_text="TLA+ decision table over named numeric boundaries; Gen_Convert/Trace_Convert; harness/cmd/ucfgconf/fam_conv.go (math/big concretisation)"),
        dict(name="varexp", path="spec/UcfgVarExp.tla", serves_properties=["C02", "C08", "C09", "C11"],
             kind_free_text="TLA+ big-step evaluator of variable expansion + small-step UcfgVarExpSteps (liveness); Gen_VarExp; harness/cmd/ucfgconf/fam_varexp.go with crash-isolated child processes (isolate.go)"),
        dict(name="flags", path="spec/UcfgFlags.tla", serves_properties=["C19"],
             kind_free_text="TLA+ flag collector on top of UcfgParseValue+UcfgNormalize+UcfgMerge; Gen_Flags/Trace_Flags; harness/cmd/ucfgconf/fam_flags.go"),
        dict(name="parse", path="spec/UcfgParseValue.tla", serves_properties=["C17", "C07", "C19"],
             kind_free_text="TLA+ recursive-descent parser over character sequences, JSON rendering; Gen_Parse/Trace_Parse; harness/cmd/ucfgconf/fam_parse.go"),
        dict(name="paths", path="spec/UcfgPaths.tla", serves_properties=["C20"],
             kind_free_text="TLA+ rule for list-index segments; Gen_Paths/Trace_Paths; harness/cmd/ucfgconf/fam_paths.go"),
        dict(name="norm", path="spec/UcfgNormalize.tla", serves_properties=["C05", "C09", "C18"],
             kind_free_text="TLA+ specification of Go-value normalisation (sequential and order-free definitions); MC_Normalize/Gen_Normalize/Trace_Normalize; harness/cmd/ucfgconf/fam_norm.go"),
        dict(name="store", path="spec/UcfgStore.tla", serves_properties=["C07", "C10", "C12", "C15"],
             kind_free_text="TLA+ state machine of the Config heap (nodes, handles, one action per API call); MC_Store/Gen_Store/Trace_Store; harness/cmd/ucfgconf/fam_store.go"),
        dict(name="merge", path="spec/UcfgMerge.tla", serves_properties=["C01", "C16"],
             kind_free_text="TLA+ specification of merge policies and per-field policy tree; MC_/Gen_/Trace_ configs; Go replayer+driver harness/cmd/ucfgconf/fam_merge.go"),
    ],
    checks=[],
    not_applicable=[],
    notes="All checks: bin/check <id> --tier quick|thorough; exit 0/1/2 as described in DESIGN.md section 2; known findings in known_findings.json.",
)
for p in props:
    pid = p["id"]
    if pid in checks.CHECKS and pid in TEXT:
        fam, tech, text = TEXT[pid]
        m["checks"].append(dict(
            property_id=pid,
            quick_cmd="bin/check %s --tier quick" % pid,
            thorough_cmd="bin/check %s --tier thorough" % pid,
            replay_cmd_template="bin/check %s --replay {path}" % pid,
            evidence_file="/verif/evidence/%s.json" % pid,
            engine=fam,
            technique=tech,
            level_claimed=dict(category="model_checking", text=text, design_ref="DESIGN.md section 6/" + pid),
            level_note=NOTE))
    else:
        m["not_applicable"].append(dict(property_id=pid, reason=PENDING))
json.dump(m, open(os.path.join(ROOT, "MANIFEST.json"), "w"), indent=1)
print("checks:", [c["property_id"] for c in m["checks"]], "n/a:", len(m["not_applicable"]))
